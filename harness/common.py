"""Shared machinery of the /verif checks (DESIGN.md §2.3).

Everything here is standard-library Python.  It is run under /venv/bin/python only because the
per-property modules import the code under test (xlcalculator) in-process.
"""
import contextlib
import fcntl
import hashlib
import json
import os
import random
import re
import subprocess
import sys
import time
from fractions import Fraction
from pathlib import Path

sys.set_int_max_str_digits(0)
VERIF = Path(__file__).resolve().parent.parent
REPO = Path(os.environ.get('XLVERIF_REPO', '/repo'))
LEAN = VERIF / 'lean'
EVIDENCE = VERIF / 'evidence'
REPLAYS = VERIF / 'replays'
CORPUS = VERIF / 'corpus'
DRIVER = LEAN / '.lake' / 'build' / 'bin' / 'xldriver'


def driver_exe(prop):
    return LEAN / '.lake' / 'build' / 'bin' / f'drv_{prop.lower()}'
ALLOWED_AXIOMS = {'propext', 'Classical.choice', 'Quot.sound'}
FORBIDDEN = re.compile(
    r'\b(sorry|admit|native_decide|bv_decide|implemented_by|unsafe)\b|^\s*axiom\s|maxHeartbeats\s+0\b',
    re.M)

# make the code under test importable from the working tree (wins over the develop install)
if str(REPO) not in sys.path:
    sys.path.insert(0, str(REPO))


def sh(cmd, cwd=None, timeout=None, env=None):
    e = dict(os.environ)
    if env:
        e.update(env)
    p = subprocess.run(cmd, cwd=cwd, stdout=subprocess.PIPE, stderr=subprocess.STDOUT,
                       text=True, timeout=timeout, env=e)
    return p.returncode, p.stdout


@contextlib.contextmanager
def build_lock():
    """Serialise extract + lake builds across concurrently running checks."""
    lock = VERIF / '.build.lock'
    with open(lock, 'w') as fh:
        fcntl.flock(fh, fcntl.LOCK_EX)
        try:
            yield
        finally:
            fcntl.flock(fh, fcntl.LOCK_UN)


def strip_lean_comments(src):
    """Remove `/- … -/` (nested) and `-- …` comments so the forbidden-token grep ignores them."""
    out, i, depth, n = [], 0, 0, len(src)
    while i < n:
        if src.startswith('/-', i):
            depth += 1
            i += 2
        elif depth and src.startswith('-/', i):
            depth -= 1
            i += 2
        elif depth:
            i += 1
        elif src.startswith('--', i):
            while i < n and src[i] != '\n':
                i += 1
        elif src[i] == '"':
            j = i + 1
            while j < n and src[j] != '"':
                j += 2 if src[j] == '\\' else 1
            i = j + 1
            out.append('""')
        else:
            out.append(src[i])
            i += 1
    return ''.join(out)


def lean_imports(module, seen=None):
    """Transitive closure of the project-local imports of a module (file paths)."""
    seen = {} if seen is None else seen
    if module in seen:
        return seen
    path = LEAN / (module.replace('.', '/') + '.lean')
    if not path.exists():
        return seen
    seen[module] = path
    for m in re.findall(r'(?m)^\s*(?:public\s+)?import\s+(XlVerif(?:\.\w+)*)', path.read_text()):
        lean_imports(m, seen)
    return seen


def forbidden_hits(module):
    hits = []
    for mod, path in lean_imports(module).items():
        body = strip_lean_comments(path.read_text())
        for m in FORBIDDEN.finditer(body):
            hits.append(f'{mod}: {m.group(0).strip()}')
    return hits


class ProofStatus:
    def __init__(self):
        self.extract_ok = True
        self.extract_log = ''
        self.model_ok = True
        self.model_log = ''
        self.props_ok = True
        self.props_log = ''
        self.theorems = []        # (name, [axioms])
        self.examples = 0
        self.bad_axioms = []      # (name, axiom)
        self.forbidden = []
        self.broken = []          # names of things that no longer check
        self.transport_note = ''  # transport theorems (formula-text level, Props/X01.lean) re-checked with this property

    @property
    def ok(self):
        return (self.extract_ok and self.model_ok and self.props_ok and not self.bad_axioms
                and not self.forbidden)

    @property
    def obligations(self):
        return len(self.theorems) + self.examples

    @property
    def discharged(self):
        if not self.props_ok:
            return 0
        bad = {n for n, _ in self.bad_axioms}
        return len([t for t in self.theorems if t[0] not in bad]) + self.examples


def run_extract():
    rc, out = sh([sys.executable, str(VERIF / 'harness' / 'extract.py')], cwd=str(VERIF), timeout=600)
    return rc == 0, out


def lake_build(targets, timeout=3600):
    rc, out = sh(['lake', 'build'] + list(targets), cwd=str(LEAN), timeout=timeout)
    return rc == 0, out


def audit(module, timeout=900):
    rc, out = sh(['lake', 'env', 'lean', '--run', 'Audit.lean', module], cwd=str(LEAN), timeout=timeout)
    thms = []
    for line in out.splitlines():
        m = re.match(r'THEOREM (\S+) AXIOMS ?(.*)$', line)
        if m:
            axs = [a for a in m.group(2).split(',') if a]
            thms.append((m.group(1), axs))
    return rc == 0, thms, out


def count_examples(module):
    path = LEAN / (module.replace('.', '/') + '.lean')
    body = strip_lean_comments(path.read_text())
    return len(re.findall(r'(?m)^\s*example\b', body))


def prepare(prop, extra_targets=(), extra_extractors=(), transport=None):
    """Steps 1-3 of DESIGN.md §2.3: regenerate Gen, build model+driver, build and audit Props.<prop>.
    `transport` = (module, [theorem names]): theorems of the integrated pipeline model that carry this property's
    theorems to formula TEXTS; they are rebuilt and audited with the property and counted as obligations when they
    check.  Their module depends on EVERY property's model, so a failure to build it is recorded in the evidence but is
    not by itself a broken obligation of this property (its own theorems and its formula-route correspondence decide)."""
    st = ProofStatus()
    with build_lock():
        ok, st.extract_log = run_extract()
        if not ok:
            m = re.search(r'FAILED extractors: (.*)', st.extract_log)
            failed = [x.strip() for x in m.group(1).split(',')] if m else ['?']
            mine = [x for x in failed if x == '?' or x.startswith('a_') or x.startswith(prop.lower())
                    or x in extra_extractors]
            if mine:
                st.extract_ok = False
                st.broken.append('translator harness/extract.py: ' + ', '.join(mine))
        st.model_ok, st.model_log = lake_build([f'XlVerif.Drv.{prop}', f'drv_{prop.lower()}'])
        if not st.model_ok:
            st.broken.append(f'model build (lake build XlVerif.Drv.{prop} drv_{prop.lower()})')
        module = f'XlVerif.Props.{prop}'
        if (LEAN / 'XlVerif' / 'Props' / f'{prop}.lean').exists():
            st.props_ok, st.props_log = lake_build([module] + list(extra_targets))
            st.examples = count_examples(module)
            st.forbidden = forbidden_hits(module)
            if st.props_ok:
                ok, st.theorems, log = audit(module)
                if not ok:
                    st.props_ok = False
                    st.props_log += '\n[audit]\n' + log
                for name, axs in st.theorems:
                    for a in axs:
                        if a not in ALLOWED_AXIOMS:
                            st.bad_axioms.append((name, a))
            if st.props_ok and transport:
                tmod, tnames = transport
                tok, tlog = lake_build([tmod])
                if tok:
                    aok, tthms, _alog = audit(tmod)
                    have = {n.split('.')[-1]: (n, axs) for n, axs in tthms}
                    got = [have[n] for n in tnames if n in have]
                    missing = [n for n in tnames if n not in have]
                    if aok and not missing:
                        for n, axs in got:
                            st.theorems.append((n, axs))
                            for a in axs:
                                if a not in ALLOWED_AXIOMS:
                                    st.bad_axioms.append((n, a))
                        st.transport_note = f'{len(got)} transport theorems of {tmod} re-checked: ' + ', '.join(tnames)
                    else:
                        st.transport_note = f'transport theorems of {tmod} NOT re-checked (audit failed or missing: {missing})'
                else:
                    st.transport_note = (f'transport theorems of {tmod} NOT re-checked on this run: the module does not build '
                                         '(it depends on every property\'s model)')
            if not st.props_ok:
                errs = re.findall(r'(?m)^error: (\S+?):(\d+):\d+: (.*)$', st.props_log)
                names = sorted({f'{f}:{l}' for f, l, _ in errs})
                st.broken.append(f'proof obligations in {module} ({", ".join(names[:8]) or "see log"})')
            for name, a in st.bad_axioms:
                st.broken.append(f'theorem {name} depends on axiom {a}')
            for h in st.forbidden:
                st.broken.append(f'forbidden token {h}')
        else:
            st.props_ok = False
            st.broken.append(f'{module} does not exist')
    return st


class Driver:
    """Batch interface to the Lean line-protocol driver."""

    def __init__(self, prop):
        self.exe = driver_exe(prop)
        self.prop = prop

    def batch(self, lines, timeout=3600):
        if not lines:
            return []
        data = '\n'.join(lines) + '\n'
        if self.exe.exists():
            cmd = [str(self.exe)]
        else:
            cmd = ['lake', 'env', 'lean', '--run', f'Main/{self.prop}.lean']
        p = subprocess.run(cmd, cwd=str(LEAN), input=data, stdout=subprocess.PIPE,
                           stderr=subprocess.PIPE, text=True, timeout=timeout)
        out = p.stdout.split('\n')
        if out and out[-1] == '':
            out.pop()
        if len(out) != len(lines):
            raise RuntimeError(
                f'driver returned {len(out)} lines for {len(lines)} requests '
                f'(rc={p.returncode}): {p.stderr[:2000]}')
        return out


def parse_kv(resp):
    d = {}
    for f in resp.split('\t'):
        if '=' in f:
            k, v = f.split('=', 1)
            d[k] = v
    return d


# ---------------------------------------------------------------- wire format (twin of Base.lean)

def w_text(s):
    return 'T:' + '.'.join(str(ord(c)) for c in s)


def w_frac(q):
    q = Fraction(q)
    return f'{q.numerator}/{q.denominator}'


CODE_WIRE = {'#NULL!': 'NULL', '#DIV/0!': 'DIV0', '#VALUE!': 'VALUE', '#REF!': 'REF',
             '#NAME?': 'NAME', '#NUM!': 'NUM', '#N/A': 'NA'}
WIRE_CODE = {v: k for k, v in CODE_WIRE.items()}


def un_text(w):
    body = w[2:]
    return '' if body == '' else ''.join(chr(int(x)) for x in body.split('.'))


def un_frac(s):
    if '/' in s:
        n, d = s.split('/')
        return Fraction(int(n), int(d))
    return Fraction(int(s))


def known_findings(prop):
    path = VERIF / 'known_findings.json'
    if not path.exists():
        return []
    data = json.loads(path.read_text())
    return [e for e in data.get('findings', []) if e.get('property') == prop]


class Result:
    """What a property module's correspondence run reports back."""

    def __init__(self):
        self.evaluations = 0
        self.nontrivial = set()      # keys of distinct non-trivial cases
        self.samples = []
        self.violations = []         # dicts {what, input, expected, got}
        self.known = {}              # finding id -> list of inputs reproduced
        self.known_not_reproduced = []
        self.drift = []              # model/impl disagreements where impl still meets spec
        self.distribution = {}
        self.rule = ''
        self.exhaustive = False
        self.notes = []
        self.extra = {}

    def count(self, key, n=1):
        self.distribution[key] = self.distribution.get(key, 0) + n

    def sample(self, x, limit=12):
        if len(self.samples) < limit:
            self.samples.append(x)


def write_replay(prop, obj):
    REPLAYS.mkdir(exist_ok=True)
    h = hashlib.sha1(json.dumps(obj, sort_keys=True, default=str).encode()).hexdigest()[:12]
    path = REPLAYS / f'{prop}-{h}.json'
    path.write_text(json.dumps(obj, indent=1, sort_keys=True, default=str))
    return path.relative_to(VERIF)


def write_evidence(prop, tier, seed, st, res, wall, violations, kf_lines, assumptions, trusted):
    EVIDENCE.mkdir(exist_ok=True)
    cov = {
        'obligations': st.obligations,
        'discharged': st.discharged,
        'checker_cmd': f'cd lean && lake build XlVerif.Props.{prop} && lake env lean --run Audit.lean '
                       f'XlVerif.Props.{prop}',
        'trusted_base': trusted,
        'theorems': [{'name': n, 'axioms': a} for n, a in st.theorems],
        'examples': st.examples,
        'proof_status': 'all obligations check' if st.ok else 'BROKEN: ' + '; '.join(st.broken),
        'evaluations': res.evaluations,
        'distinct_nontrivial': len(res.nontrivial),
        'rule': res.rule,
        'samples': res.samples[:12] or ['(no correspondence case was run)'],
        'exhaustive': bool(res.exhaustive),
        'distribution': res.distribution,
        'known_findings_reproduced': {k: len(v) for k, v in res.known.items()},
        'model_drift': res.drift[:20],
        'notes': res.notes + ([st.transport_note] if getattr(st, 'transport_note', '') else []),
    }
    cov.update(res.extra)
    ev = {
        'property_id': prop,
        'tier': tier,
        'seed': seed,
        'level': 'proof',
        'coverage': cov,
        'assumptions': assumptions,
        'wall_s': round(wall, 2),
        'violations': violations,
        'known_finding_lines': kf_lines,
    }
    (EVIDENCE / f'{prop}.json').write_text(json.dumps(ev, indent=1, default=str))


def frac_of(x):
    """Exact rational of a Python int/float (None for non-finite)."""
    import math
    if isinstance(x, bool):
        return Fraction(int(x))
    if isinstance(x, int):
        return Fraction(x)
    try:
        xf = float(x)
    except Exception:
        return None
    if math.isnan(xf) or math.isinf(xf):
        return None
    return Fraction(xf)


# ---------------------------------------------------------------- canonical form of real results

def canon(value):
    """Wire form of a value returned by the real code (scalars and arrays)."""
    import datetime
    import math
    from xlcalculator.xlfunctions import func_xltypes as ft, xlerrors
    if isinstance(value, xlerrors.ExcelError):
        return 'E:' + CODE_WIRE.get(str(value.value), 'OTHER')
    if isinstance(value, ft.Array):
        return 'A:' + ';'.join(','.join(canon(x) for x in row) for row in value.values.tolist())
    if isinstance(value, ft.Blank) or value is None:
        return 'Z'
    if isinstance(value, (ft.Number, ft.Text, ft.Boolean)):
        return canon(value.value)
    if isinstance(value, ft.DateTime):
        return canon(value.value)
    if isinstance(value, bool):
        return 'B:1' if value else 'B:0'
    if type(value).__module__ == 'numpy':
        import numpy
        if isinstance(value, numpy.bool_):
            return 'B:1' if value else 'B:0'
        if isinstance(value, numpy.integer):
            return f'I:{int(value)}'
        if isinstance(value, numpy.floating):
            value = float(value)
    if isinstance(value, int):
        return f'I:{value}'
    if isinstance(value, float):
        if math.isnan(value):
            return 'N:nan'
        if math.isinf(value):
            return 'N:+inf' if value > 0 else 'N:-inf'
        return 'F:' + w_frac(Fraction(value))
    if isinstance(value, str):
        return w_text(value)
    if isinstance(value, datetime.datetime):
        return 'D:' + w_frac(serial_of(value))
    return 'X:unknown-' + type(value).__name__


def serial_of(dt):
    """Exact Excel serial (1900 system, with the fictitious 1900-02-29) of a datetime, computed
    independently of the code under test."""
    import datetime
    days = (dt.date() - datetime.date(1899, 12, 31)).days
    if dt.date() > datetime.date(1900, 2, 28):
        days += 1
    secs = Fraction(dt.hour * 3600 + dt.minute * 60 + dt.second) + Fraction(dt.microsecond, 10**6)
    return Fraction(days) + secs / 86400


def call_real(fn, *args):
    """Call the real code; map the outcome to the wire alphabet (exceptions -> X:<Class>)."""
    try:
        return canon(fn(*args))
    except RecursionError:
        return 'X:RecursionError'
    except Exception as exc:  # noqa: BLE001 - the outcome alphabet includes every exception
        return 'X:Timeout' if type(exc).__name__ == '_CallTimeout' else 'X:' + type(exc).__name__


class _CallTimeout(Exception):
    pass


def _raise_call_timeout(_sig, _frm):
    raise _CallTimeout()


def call_real_limited(fn, *args, seconds=10.0):
    """`call_real` under a wall-clock limit (main thread only): a call of the real code that does not return within
    `seconds` has the outcome X:Timeout — so a changed tree that sends a harmless argument into an astronomically
    long computation (a text read as a huge serial handed to FACT or POWER) is REPORTED by the oracle that
    compares outcomes, instead of stalling the whole check into its infrastructure timeout (exit 2)."""
    import signal
    try:
        old = signal.signal(signal.SIGALRM, _raise_call_timeout)
    except ValueError:            # not the main thread
        return call_real(fn, *args)
    signal.setitimer(signal.ITIMER_REAL, seconds)
    try:
        return call_real(fn, *args)
    except _CallTimeout:
        return 'X:Timeout'
    finally:
        signal.setitimer(signal.ITIMER_REAL, 0)
        signal.signal(signal.SIGALRM, old)


def num_value(w):
    """Exact rational of an I:/F: wire value, else None."""
    if w.startswith('I:'):
        return Fraction(int(w[2:]))
    if w.startswith('F:'):
        return un_frac(w[2:])
    return None


def same_value(a, b):
    """Equality of two wire values, numbers compared numerically (I:2 == F:2/1)."""
    if a == b:
        return True
    na, nb = num_value(a), num_value(b)
    return na is not None and nb is not None and na == nb
