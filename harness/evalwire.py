"""Shared by the evaluator checks (C04, C05, C06, C10, C13): an abstract workbook language, its
rendering as Excel formula text for the real code and as wire text for the Lean driver
(twin of lean/XlVerif/Drv/EvalWire.lean).

Abstract formula trees (Python tuples):
  ('lit', value)            value: int | float | str | bool | ('err', '#N/A')
  ('ref', 'Sheet1!A1')
  ('rng', 'Sheet1!A1:B2')
  ('app', id, [fx…])        ids: 0 + | 1 - | 2 * | 3 / | 4 SUM | 5 NOSUCHFN | 6 = | 7 unary - | 8 & | 9 COUNTA | 10 <
  ('if', c, t, e)  ('and', [fx…])  ('or', [fx…])  ('fail', [fx…])  = NOSUCHFN(…): KeyError before any argument is evaluated
A workbook is {'cells': {addr: constant | ('f', fx)}, 'names': {name: addr}} with full addresses.
"""
import re

import common
from common import w_text, w_frac, frac_of, CODE_WIRE

INFIX = {0: '+', 1: '-', 2: '*', 3: '/', 6: '=', 8: '&', 10: '<'}
FN = {4: 'SUM', 5: 'NOSUCHFN', 9: 'COUNTA'}


def cp(s):
    return '.'.join(str(ord(c)) for c in s)


def local(addr, sheet):
    """reference text inside a formula stored on `sheet`"""
    s, a = addr.split('!')
    if s == sheet:
        return a
    if re.fullmatch(r'[A-Za-z_][A-Za-z0-9_]*', s):
        return f'{s}!{a}'
    return "'" + s.replace("'", "''") + "'!" + a


def render(fx, sheet='Sheet1'):
    k = fx[0]
    if k == 'lit':
        v = fx[1]
        if isinstance(v, tuple):
            return v[1]
        if isinstance(v, bool):
            return 'TRUE' if v else 'FALSE'
        if isinstance(v, str):
            return '"' + v.replace('"', '""') + '"'
        return repr(v) if v >= 0 else f'({v!r})'
    if k in ('ref', 'rng'):
        return local(fx[1], sheet)
    if k == 'app':
        f, args = fx[1], fx[2]
        if f in INFIX:
            return '(' + render(args[0], sheet) + INFIX[f] + render(args[1], sheet) + ')'
        if f == 7:
            return '(-' + render(args[0], sheet) + ')'
        return FN[f] + '(' + ','.join(render(a, sheet) for a in args) + ')'
    if k == 'if':
        return 'IF(' + ','.join(render(a, sheet) for a in fx[1:]) + ')'
    if k == 'fail':
        return 'NOSUCHFN(' + ','.join(render(a, sheet) for a in fx[1]) + ')'
    if k in ('and', 'or'):
        return k.upper() + '(' + ','.join(render(a, sheet) for a in fx[1]) + ')'
    raise ValueError(fx)


def wire_scalar(v):
    if isinstance(v, tuple):
        return 'E:' + CODE_WIRE[v[1]]
    if v is None:
        return 'Z'
    if isinstance(v, bool):
        return 'B:1' if v else 'B:0'
    if isinstance(v, int):
        return f'I:{v}'
    if isinstance(v, float):
        return 'F:' + w_frac(frac_of(v))
    return w_text(v)


def wire_fx(fx):
    k = fx[0]
    if k == 'lit':
        return f'( lit {wire_scalar(fx[1])} )'
    if k in ('ref', 'rng'):
        return f'( {k} {cp(fx[1])} )'
    if k == 'app':
        return f'( app {fx[1]} ' + ' '.join(wire_fx(a) for a in fx[2]) + (' )' if fx[2] else ')')
    if k == 'if':
        return '( if ' + ' '.join(wire_fx(a) for a in fx[1:]) + ' )'
    if k == 'fail':
        return '( fail 20 ' + ' '.join(wire_fx(a) for a in fx[1]) + (' )' if fx[1] else ')')
    if k in ('and', 'or'):
        return f'( {k} ' + ' '.join(wire_fx(a) for a in fx[1]) + (' )' if fx[1] else ')')
    raise ValueError(fx)


def ranges_of(fx, acc):
    k = fx[0]
    if k == 'rng':
        acc.add(fx[1])
    elif k == 'app':
        for a in fx[2]:
            ranges_of(a, acc)
    elif k == 'if':
        for a in fx[1:]:
            ranges_of(a, acc)
    elif k in ('and', 'or', 'fail'):
        for a in fx[1]:
            ranges_of(a, acc)
    return acc


def range_matrix(key):
    from xlcalculator import utils
    import importlib
    utils = importlib.import_module('xlcalculator.utils')
    return utils.resolve_ranges(key)[1]


def formula_text(fx, sheet):
    return '=' + render(fx, sheet)


def build_real(wb, default_sheet='Sheet1'):
    """compile the workbook with the real ModelCompiler; returns the Model"""
    from xlcalculator import ModelCompiler
    d, later = {}, {}
    for addr, c in wb['cells'].items():
        if isinstance(c, tuple) and c[0] == 'f':
            d[addr] = formula_text(c[1], addr.split('!')[0])
        elif isinstance(c, str) and c == '':
            later[addr] = c
        elif c is None:
            continue
        else:
            d[addr] = c
    comp = ModelCompiler()
    model = comp.read_and_parse_dict(d, default_sheet=default_sheet)
    for addr, v in later.items():
        model.set_cell_value(addr, v)
    return model


def wire_model(wb, model=None):
    """(cells, ranges, names) wire fields; blank cells created by build_ranges are included when the real
    model is given (they exist in model.cells with value '')"""
    cells = []
    ranges = set()
    known = set()
    for addr, c in wb['cells'].items():
        known.add(addr)
        if isinstance(c, tuple) and c[0] == 'f':
            text = formula_text(c[1], addr.split('!')[0])
            cells.append(f'{cp(addr)}~f~{len(text)}~{wire_fx(c[1])}')
            ranges_of(c[1], ranges)
        elif c is None:
            continue
        else:
            cells.append(f'{cp(addr)}~c~{wire_scalar(c)}')
    rw = []
    for key in sorted(ranges):
        rows = range_matrix(key)
        rw.append(cp(key) + '~' + ';'.join(','.join(cp(a) for a in row) for row in rows))
        for row in rows:
            for a in row:
                if a not in known:
                    known.add(a)
                    cells.append(f'{cp(a)}~c~Z')        # build_ranges creates XLCell(addr, None)
    names = [f'{cp(n)}~{cp(a)}' for n, a in wb.get('names', {}).items()]
    return '|'.join(cells), '|'.join(rw), '|'.join(names)


def canon_result(fn, *args):
    """run an evaluation on the real code and map the outcome to the model's alphabet"""
    try:
        return common.canon(fn(*args))
    except RecursionError as exc:
        return f'X:recursion:{len(str(exc))}'
    except RuntimeError as exc:
        msg = str(exc)
        if msg.startswith('Cycle detected'):
            return f'X:cycle:{len(msg)}'
        return f'X:runtime:{len(msg)}'
    except Exception as exc:  # noqa: BLE001
        return 'X:' + type(exc).__name__


def un_cp(w):
    return '' if w == '' else ''.join(chr(int(x)) for x in w.split('.'))
