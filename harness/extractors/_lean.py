"""Helpers to print Lean literals."""


def chars(s):
    """A Python str as a Lean `List Char` literal."""
    if s == '':
        return '([] : List Char)'
    out = []
    for c in s:
        if c == "'":
            out.append("'\\''")
        elif c == '\\':
            out.append("'\\\\'")
        elif c == '\n':
            out.append("'\\n'")
        elif c == '\t':
            out.append("'\\t'")
        elif 32 <= ord(c) < 127:
            out.append(f"'{c}'")
        else:
            out.append(f'(Char.ofNat {ord(c)})')
    return '[' + ', '.join(out) + ']'


def string(s):
    return '"' + s.replace('\\', '\\\\').replace('"', '\\"').replace('\n', '\\n') + '"'


def boolean(b):
    return 'true' if b else 'false'


def integer(z):
    return f'({z} : Int)' if z < 0 else f'{z}'


def lst(items, ty=None, per_line=True):
    sep = ',\n  ' if per_line else ', '
    if not items:
        return f'([] : List {ty})' if ty else '[]'
    return '[\n  ' + sep.join(items) + '\n]' if per_line else '[' + sep.join(items) + ']'
