"""Helpers to print Lean literals."""


def chars(s):
    """A Python str as a Lean `List Char` literal."""
    if s == '':
        return '([] : List Char)'
    out = []
    for c in s:
        if c == "'":
            out.append("'\\''")
        elif c == '\\':
            out.append("'\\\\'")
        elif c == '\n':
            out.append("'\\n'")
        elif c == '\t':
            out.append("'\\t'")
        elif 32 <= ord(c) < 127:
            out.append(f"'{c}'")
        else:
            out.append(f'(Char.ofNat {ord(c)})')
    return '[' + ', '.join(out) + ']'


def string(s):
    return '"' + s.replace('\\', '\\\\').replace('"', '\\"').replace('\n', '\\n') + '"'


def boolean(b):
    return 'true' if b else 'false'


def integer(z):
    return f'({z} : Int)' if z < 0 else f'{z}'


def lst(items, ty=None, per_line=True):
    sep = ',\n  ' if per_line else ', '
    if not items:
        return f'([] : List {ty})' if ty else '[]'
    return '[\n  ' + sep.join(items) + '\n]' if per_line else '[' + sep.join(items) + ']'


def probe_max_empty(limit=2000):
    """`MAX_EMPTY` of RangeNode.eval by BEHAVIOUR: the longest run of empty cells inside a one-column range behind which a
    value is still read (bisection over `=COUNT(A1:<col k+2>1)`, a one-ROW range with A1 = 1 and the last cell = 1).
    Independent of how the constant is named or held."""
    from xlcalculator import ModelCompiler, Evaluator
    from openpyxl.utils import get_column_letter

    def seen(k):
        last = get_column_letter(k + 2)
        cells = {'Sheet1!A1': 1, f'Sheet1!{last}1': 1, 'Sheet1!A2': f'=COUNT(A1:{last}1)'}
        return int(Evaluator(ModelCompiler().read_and_parse_dict(cells)).evaluate('Sheet1!A2')) == 2
    if not seen(0):
        raise ValueError('probe_max_empty: a range without empty cells is not read completely')
    if seen(limit):
        return limit            # no cut-off below the probing limit
    lo, hi = 0, limit           # seen(lo), not seen(hi)
    while hi - lo > 1:
        mid = (lo + hi) // 2
        if seen(mid):
            lo = mid
        else:
            hi = mid
    return lo
