"""Core tables: operator precedence, operator->function maps, tokenizer constants, registry,
type tables, misc constants."""
import ast
import inspect
import re
import typing

from ._lean import chars, string, boolean, lst, probe_max_empty


def emit():
    from xlcalculator import parser, ast_nodes, tokenizer
    import importlib
    xutils = importlib.import_module("xlcalculator.utils")
    from xlcalculator.xlfunctions import xl, func_xltypes, xlerrors, xlcriteria
    import xlcalculator  # noqa: F401  (registers every function module the package imports)
    files = {}

    # ---- parser.OPERATORS
    rows = []
    for key, op in parser.OPERATORS.items():
        assoc = op.associativity
        if assoc not in ('left', 'right'):
            raise ValueError(f'unknown associativity {assoc!r}')
        rows.append(f'⟨{chars(key)}, {chars(op.value)}, {int(op.precedence)}, {boolean(assoc == "right")}⟩')
    files['Operators'] = f'''namespace XlVerif.Gen
/-- One row of `parser.OPERATORS`: dictionary key, `Operator.value`, precedence, right-associative? -/
structure OpRow where
  key : List Char
  sym : List Char
  prec : Nat
  rightAssoc : Bool
  deriving DecidableEq, Repr
def operators : List OpRow := {lst(rows)}
end XlVerif.Gen
'''

    # ---- ast_nodes operator -> function maps
    def fmap(d):
        return lst([f'({chars(k)}, {chars(getattr(v, "__name__", repr(v)))})' for k, v in d.items()])
    files['OpFuncs'] = f'''namespace XlVerif.Gen
def prefixOpToFunc : List (List Char × List Char) := {fmap(ast_nodes.PREFIX_OP_TO_FUNC)}
def postfixOpToFunc : List (List Char × List Char) := {fmap(ast_nodes.POSTFIX_OP_TO_FUNC)}
def infixOpToFunc : List (List Char × List Char) := {fmap(ast_nodes.INFIX_OP_TO_FUNC)}
def maxEmpty : Nat := {int(probe_max_empty())}
end XlVerif.Gen
'''

    # ---- tokenizer constants that only exist as source literals: obtained by PROBING the tokenizer (robust against any
    # refactoring of how the tokenizer holds them — hoisted, renamed, as a set, as an equivalent regex …)
    import itertools

    def toks(text):
        p = tokenizer.ExcelParser()
        try:
            p.parse(text)
        except Exception:  # noqa: BLE001
            return None
        return [(t.tvalue, t.ttype, t.tsubtype) for t in p.tokens.items]

    err_cands = ['#NULL!', '#DIV/0!', '#VALUE!', '#REF!', '#NAME?', '#NUM!', '#N/A',
                 '#N/A!', '#NA', '#DIV/0', '#VALUE', '#REF', '#NAME', '#NUM', '#NULL', '#null!', '#value!', '#n/a', '#FOO!',
                 '#N/A?', '#GETTING_DATA', '#SPILL!', '#CALC!', '#FIELD!', '#BLOCKED!', '#UNKNOWN!', '#']
    err_list = [c for c in err_cands if toks('=' + c) == [(c, 'operand', 'error')]]
    cmp_cands = ['>=', '<=', '<>', '<<', '>>', '==', '=<', '=>', '><']
    cmp_list = [c for c in cmp_cands
                if (lambda t: t is not None and len(t) == 3 and t[1][0] == c and t[1][1] == 'operator-infix')(toks('=1' + c + '2'))]
    # the scientific-notation check: which accumulated tokens make the tokenizer glue a following sign onto the token
    sn_cands = [''.join(w) for n in range(1, 5) for w in itertools.product('05.EeA', repeat=n)]
    sn_cands += ['12.5E', '1.25E', '100E', '.25E', '1..E', '1.2.E', '12345E', 'A1E5E', '1E5E', '0.125e', '00.E', '5.50E', '.E']
    sn_glued = [c for c in sn_cands if (lambda t: t is not None and len(t) == 1 and t[0][0] == c + '+1')(toks('=' + c + '+1'))]
    if not err_list or not cmp_list or not sn_glued:
        raise ValueError(f'tokenizer probes found nothing: {err_list} {cmp_list} {sn_glued[:5]}')
    # (for information only: the regex text, when the source still holds it in this form)
    try:
        tree = ast.parse(inspect.getsource(tokenizer))
        sn = [n.value.value for n in ast.walk(tree)
              if isinstance(n, ast.Assign) and len(n.targets) == 1 and isinstance(n.targets[0], ast.Name)
              and n.targets[0].id == 'regexSN' and isinstance(n.value, ast.Constant) and isinstance(n.value.value, str)]
    except Exception:  # noqa: BLE001
        sn = []
    ops_plain = tokenizer.ExcelParser().OPERATORS
    ops_range = tokenizer.ExcelParser(tokenize_range=True).OPERATORS
    files['TokConsts'] = f'''namespace XlVerif.Gen
def tokOperators : List Char := {chars(ops_plain)}
def tokOperatorsRange : List Char := {chars(ops_range)}
/-- the `#…` texts the tokenizer turns into ONE error operand (probed over a candidate list holding the seven codes and
    near-misses; the candidates that are not listed here are not error literals) -/
def tokErrorLiterals : List (List Char) := {lst([chars(x) for x in err_list])}
def tokErrorCandidates : List (List Char) := {lst([chars(x) for x in err_cands])}
/-- the two-character texts over `< > =` the tokenizer turns into ONE comparison operator (probed over all nine) -/
def tokComparators : List (List Char) := {lst([chars(x) for x in cmp_list])}
/-- scientific notation: the candidates (every text of length 1..4 over `0 5 . E e A` and some longer ones) and those among
    them after which the tokenizer glues a following sign onto the token (probed with `=<text>+1`) -/
def tokSNCandidates : List (List Char) := {lst([chars(x) for x in sn_cands])}
def tokSNGlued : List (List Char) := {lst([chars(x) for x in sn_glued])}
/-- (information only) the regex text when the source holds it as `regexSN = '…'` -/
def tokRegexSN : List Char := {chars(sn[0]) if sn else '[]'}
end XlVerif.Gen
'''

    # ---- the function registry with annotations
    alias = {
        func_xltypes.XlNumber: 'xlNumber', func_xltypes.XlText: 'xlText',
        func_xltypes.XlBoolean: 'xlBoolean', func_xltypes.XlDateTime: 'xlDateTime',
        func_xltypes.XlArray: 'xlArray', func_xltypes.XlExpr: 'xlExpr',
        func_xltypes.XlBlank: 'xlBlank',
    }

    def annot(a):
        if a is inspect.Parameter.empty or a is inspect.Signature.empty:
            return '.none'
        if a in alias:
            return '.' + alias[a]
        if a == func_xltypes.XlAnything:
            return '.xlAnything'
        origin = getattr(a, '__origin__', None)
        if origin in (list, tuple):
            return f'(.tuple {annot(a.__args__[0])})'
        if origin is typing.Union:
            return '(.union [' + ', '.join(annot(x) for x in a.__args__) + '])'
        if isinstance(a, type):
            return f'(.cls {chars(a.__name__)})'
        return f'(.cls {chars(repr(a))})'

    rows = []
    for name in sorted(xl.FUNCTIONS):
        f = xl.FUNCTIONS[name]
        validated = hasattr(f, '__wrapped__')
        sig = inspect.signature(f)
        params = []
        for p in sig.parameters.values():
            params.append(
                f'⟨{chars(p.name)}, {boolean(p.kind == p.VAR_POSITIONAL)}, {annot(p.annotation)}, '
                f'{boolean(p.default is not p.empty)}⟩')
        module = getattr(f, '__module__', '') or ''
        rows.append(f'⟨{chars(name)}, {chars(module.rsplit(".", 1)[-1])}, {boolean(validated)}, '
                    f'[{", ".join(params)}], {annot(sig.return_annotation)}⟩')
    files['Registry'] = f'''namespace XlVerif.Gen
inductive Annot
  | xlNumber | xlText | xlBoolean | xlDateTime | xlArray | xlExpr | xlAnything | xlBlank
  | tuple (a : Annot) | union (as : List Annot) | cls (name : List Char) | none
  deriving Repr, BEq
structure Param where
  name : List Char
  variadic : Bool
  annot : Annot
  hasDefault : Bool
  deriving Repr, BEq
structure Func where
  name : List Char
  module : List Char
  validated : Bool
  params : List Param
  ret : Annot
  deriving Repr, BEq
/-- Every entry of `xl.FUNCTIONS` after `import xlcalculator`, sorted by name. -/
def registry : List Func := {lst(rows)}
end XlVerif.Gen
'''

    # ---- type tables
    t2c = []
    for k, v in xl.TYPE_TO_CAST.items():
        kn = '.xlAnything' if k == func_xltypes.XlAnything else '.' + alias[k]
        owner = getattr(v, '__self__', None)
        t2c.append(f'({chars(kn[1:])}, {chars((owner.__name__ + ".") if owner else "")} ++ {chars(v.__name__)})')
    n2x = [f'({chars(k.__module__ + "." + k.__name__)}, {chars(v.__name__)})'
           for k, v in func_xltypes.NATIVE_TO_XLTYPE.items()]
    prec = [f'({chars(c.__name__)}, {int(c.sort_precedence)})'
            for c in (func_xltypes.Number, func_xltypes.Text, func_xltypes.Boolean,
                      func_xltypes.DateTime, func_xltypes.Blank)]
    slots = func_xltypes.ExcelType.__slots__
    files['TypeTables'] = f'''namespace XlVerif.Gen
def typeToCast : List (List Char × List Char) := {lst(t2c)}
def nativeToXltype : List (List Char × List Char) := {lst(n2x)}
def sortPrecedence : List (List Char × Nat) := {lst(prec)}
def booleanTexts : List (List Char) := {lst([chars(x) for x in func_xltypes.Text.boolean_texts])}
/-- `ExcelType.__slots__` is a proper tuple (not a bare string)? -/
def slotsIsTuple : Bool := {boolean(isinstance(slots, tuple))}
def slots : List (List Char) := {lst([chars(x) for x in ((slots,) if isinstance(slots, str) else slots)])}
end XlVerif.Gen
'''

    # ---- misc constants
    codes = [f'({chars(code)}, {chars(cls.__name__)})' for code, cls in xlerrors.ERRORS_BY_CODE.items()]
    crit = [f'({chars(k)}, {chars(v.__name__)})' for k, v in xlcriteria.CRITERIA_OPERATORS.items()]
    # the criteria regex, found by BEHAVIOUR (a str or compiled pattern of the module that splits '<=ab' into ('<=', 'ab')),
    # and its operator alternatives obtained by probing it: robust against renaming / compiling / an equivalent rewrite
    def _is_crit_rx(v):
        try:
            m_ = re.match(v, '<=ab')
            return m_ is not None and (m_.group(1), m_.group(2)) == ('<=', 'ab')
        except Exception:  # noqa: BLE001
            return False
    cands = [getattr(xlcriteria, 'CRITERIA_REGEX', None)] + [v for k, v in sorted(vars(xlcriteria).items())
                                                              if isinstance(v, (str, re.Pattern))]
    rxs = [v for v in cands if v is not None and _is_crit_rx(v)]
    if not rxs:
        raise ValueError('xlcriteria: no criteria regex found')
    crx = rxs[0]
    crx_text = crx if isinstance(crx, str) else crx.pattern
    probe_alphabet = '<>=a1 \n'
    probes = [''.join(w) for n in range(0, 4) for w in itertools.product(probe_alphabet, repeat=n)]
    split = []
    for t in probes:
        m_ = re.search(crx, t)          # (parse_criteria uses re.search / re.match at position 0: the regex always matches)
        split.append((t, m_.group(1) or '', m_.group(2)))
    alts = []
    for _t, g1, _g2 in split:
        if g1 and g1 not in alts:
            alts.append(g1)
    alts.sort(key=lambda a: -len(a))     # tried in order, the first that is a prefix wins = the longest
    files['Misc'] = f'''namespace XlVerif.Gen
def maxCol : Nat := {int(xutils.MAX_COL)}
def maxRow : Nat := {int(xutils.MAX_ROW)}
def cellCharacterLimit : Nat := {int(xl.CELL_CHARACTER_LIMIT)}
def compatibility : List Char := {chars(xl.COMPATIBILITY)}
def errorCodes : List (List Char) := {lst([chars(c) for c in xlerrors.ERROR_CODES])}
def errorsByCode : List (List Char × List Char) := {lst(codes)}
/-- (information only) the text of the criteria regex -/
def criteriaRegex : List Char := {chars(crx_text)}
/-- the operator prefixes the criteria regex recognises, longest first (PROBED) -/
def criteriaAlts : List (List Char) := {lst([chars(a) for a in alts])}
/-- (text, group 1 or '', group 2) of the criteria regex on every text of length ≤ 3 over `< > = a 1 blank newline` (PROBED) -/
def criteriaSplitProbe : List (List Char × List Char × List Char) := {lst([f'({chars(t)}, {chars(a)}, {chars(b)})' for t, a, b in split])}
def criteriaOperators : List (List Char × List Char) := {lst(crit)}
end XlVerif.Gen
'''
    return files
