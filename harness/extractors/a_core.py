"""Core tables: operator precedence, operator->function maps, tokenizer constants, registry,
type tables, misc constants."""
import ast
import inspect
import re
import typing

from ._lean import chars, string, boolean, lst


def emit():
    from xlcalculator import parser, ast_nodes, tokenizer
    import importlib
    xutils = importlib.import_module("xlcalculator.utils")
    from xlcalculator.xlfunctions import xl, func_xltypes, xlerrors, xlcriteria
    import xlcalculator  # noqa: F401  (registers every function module the package imports)
    files = {}

    # ---- parser.OPERATORS
    rows = []
    for key, op in parser.OPERATORS.items():
        assoc = op.associativity
        if assoc not in ('left', 'right'):
            raise ValueError(f'unknown associativity {assoc!r}')
        rows.append(f'⟨{chars(key)}, {chars(op.value)}, {int(op.precedence)}, {boolean(assoc == "right")}⟩')
    files['Operators'] = f'''namespace XlVerif.Gen
/-- One row of `parser.OPERATORS`: dictionary key, `Operator.value`, precedence, right-associative? -/
structure OpRow where
  key : List Char
  sym : List Char
  prec : Nat
  rightAssoc : Bool
  deriving DecidableEq, Repr
def operators : List OpRow := {lst(rows)}
end XlVerif.Gen
'''

    # ---- ast_nodes operator -> function maps
    def fmap(d):
        return lst([f'({chars(k)}, {chars(getattr(v, "__name__", repr(v)))})' for k, v in d.items()])
    files['OpFuncs'] = f'''namespace XlVerif.Gen
def prefixOpToFunc : List (List Char × List Char) := {fmap(ast_nodes.PREFIX_OP_TO_FUNC)}
def postfixOpToFunc : List (List Char × List Char) := {fmap(ast_nodes.POSTFIX_OP_TO_FUNC)}
def infixOpToFunc : List (List Char × List Char) := {fmap(ast_nodes.INFIX_OP_TO_FUNC)}
def maxEmpty : Nat := {int(ast_nodes.MAX_EMPTY)}
end XlVerif.Gen
'''

    # ---- tokenizer constants that only exist as source literals
    src = inspect.getsource(tokenizer.ExcelParser)
    tree = ast.parse(inspect.getsource(tokenizer))
    consts = [n.value for n in ast.walk(tree) if isinstance(n, ast.Constant) and isinstance(n.value, str)]
    err_list = [c for c in consts if c.startswith(',#')]
    cmp_list = [c for c in consts if re.fullmatch(r',(?:[<>=]{2},)+', c)]
    # the scientific-notation regex: the string literal assigned to `regexSN` (whatever it says)
    sn = [n.value.value for n in ast.walk(tree)
          if isinstance(n, ast.Assign) and len(n.targets) == 1 and isinstance(n.targets[0], ast.Name)
          and n.targets[0].id == 'regexSN' and isinstance(n.value, ast.Constant) and isinstance(n.value.value, str)]
    if len(err_list) != 1 or len(cmp_list) != 1 or len(sn) != 1:
        raise ValueError(f'tokenizer literals not found: {err_list} {cmp_list} {sn}')
    ops_plain = tokenizer.ExcelParser().OPERATORS
    ops_range = tokenizer.ExcelParser(tokenize_range=True).OPERATORS
    files['TokConsts'] = f'''namespace XlVerif.Gen
def tokOperators : List Char := {chars(ops_plain)}
def tokOperatorsRange : List Char := {chars(ops_range)}
def tokErrorLiterals : List (List Char) := {lst([chars(x) for x in err_list[0].strip(',').split(',')])}
def tokComparators : List (List Char) := {lst([chars(x) for x in cmp_list[0].strip(',').split(',')])}
def tokRegexSN : List Char := {chars(sn[0])}
end XlVerif.Gen
'''

    # ---- the function registry with annotations
    alias = {
        func_xltypes.XlNumber: 'xlNumber', func_xltypes.XlText: 'xlText',
        func_xltypes.XlBoolean: 'xlBoolean', func_xltypes.XlDateTime: 'xlDateTime',
        func_xltypes.XlArray: 'xlArray', func_xltypes.XlExpr: 'xlExpr',
        func_xltypes.XlBlank: 'xlBlank',
    }

    def annot(a):
        if a is inspect.Parameter.empty or a is inspect.Signature.empty:
            return '.none'
        if a in alias:
            return '.' + alias[a]
        if a == func_xltypes.XlAnything:
            return '.xlAnything'
        origin = getattr(a, '__origin__', None)
        if origin in (list, tuple):
            return f'(.tuple {annot(a.__args__[0])})'
        if origin is typing.Union:
            return '(.union [' + ', '.join(annot(x) for x in a.__args__) + '])'
        if isinstance(a, type):
            return f'(.cls {chars(a.__name__)})'
        return f'(.cls {chars(repr(a))})'

    rows = []
    for name in sorted(xl.FUNCTIONS):
        f = xl.FUNCTIONS[name]
        validated = hasattr(f, '__wrapped__')
        sig = inspect.signature(f)
        params = []
        for p in sig.parameters.values():
            params.append(
                f'⟨{chars(p.name)}, {boolean(p.kind == p.VAR_POSITIONAL)}, {annot(p.annotation)}, '
                f'{boolean(p.default is not p.empty)}⟩')
        module = getattr(f, '__module__', '') or ''
        rows.append(f'⟨{chars(name)}, {chars(module.rsplit(".", 1)[-1])}, {boolean(validated)}, '
                    f'[{", ".join(params)}], {annot(sig.return_annotation)}⟩')
    files['Registry'] = f'''namespace XlVerif.Gen
inductive Annot
  | xlNumber | xlText | xlBoolean | xlDateTime | xlArray | xlExpr | xlAnything | xlBlank
  | tuple (a : Annot) | union (as : List Annot) | cls (name : List Char) | none
  deriving Repr, BEq
structure Param where
  name : List Char
  variadic : Bool
  annot : Annot
  hasDefault : Bool
  deriving Repr, BEq
structure Func where
  name : List Char
  module : List Char
  validated : Bool
  params : List Param
  ret : Annot
  deriving Repr, BEq
/-- Every entry of `xl.FUNCTIONS` after `import xlcalculator`, sorted by name. -/
def registry : List Func := {lst(rows)}
end XlVerif.Gen
'''

    # ---- type tables
    t2c = []
    for k, v in xl.TYPE_TO_CAST.items():
        kn = '.xlAnything' if k == func_xltypes.XlAnything else '.' + alias[k]
        owner = getattr(v, '__self__', None)
        t2c.append(f'({chars(kn[1:])}, {chars((owner.__name__ + ".") if owner else "")} ++ {chars(v.__name__)})')
    n2x = [f'({chars(k.__module__ + "." + k.__name__)}, {chars(v.__name__)})'
           for k, v in func_xltypes.NATIVE_TO_XLTYPE.items()]
    prec = [f'({chars(c.__name__)}, {int(c.sort_precedence)})'
            for c in (func_xltypes.Number, func_xltypes.Text, func_xltypes.Boolean,
                      func_xltypes.DateTime, func_xltypes.Blank)]
    slots = func_xltypes.ExcelType.__slots__
    files['TypeTables'] = f'''namespace XlVerif.Gen
def typeToCast : List (List Char × List Char) := {lst(t2c)}
def nativeToXltype : List (List Char × List Char) := {lst(n2x)}
def sortPrecedence : List (List Char × Nat) := {lst(prec)}
def booleanTexts : List (List Char) := {lst([chars(x) for x in func_xltypes.Text.boolean_texts])}
/-- `ExcelType.__slots__` is a proper tuple (not a bare string)? -/
def slotsIsTuple : Bool := {boolean(isinstance(slots, tuple))}
def slots : List (List Char) := {lst([chars(x) for x in ((slots,) if isinstance(slots, str) else slots)])}
end XlVerif.Gen
'''

    # ---- misc constants
    codes = [f'({chars(code)}, {chars(cls.__name__)})' for code, cls in xlerrors.ERRORS_BY_CODE.items()]
    crit = [f'({chars(k)}, {chars(v.__name__)})' for k, v in xlcriteria.CRITERIA_OPERATORS.items()]
    files['Misc'] = f'''namespace XlVerif.Gen
def maxCol : Nat := {int(xutils.MAX_COL)}
def maxRow : Nat := {int(xutils.MAX_ROW)}
def cellCharacterLimit : Nat := {int(xl.CELL_CHARACTER_LIMIT)}
def compatibility : List Char := {chars(xl.COMPATIBILITY)}
def errorCodes : List (List Char) := {lst([chars(c) for c in xlerrors.ERROR_CODES])}
def errorsByCode : List (List Char × List Char) := {lst(codes)}
def criteriaRegex : List Char := {chars(xlcriteria.CRITERIA_REGEX)}
def criteriaOperators : List (List Char × List Char) := {lst(crit)}
end XlVerif.Gen
'''
    return files
