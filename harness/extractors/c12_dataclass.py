"""C12 tables, taken from what the running code DOES (introspection and probes), not from how its source is
written — so that a behaviour-preserving refactoring regenerates the same tables:

* dataclass field lists of XLCell / XLFormula / XLRange / f_token / Model: `dataclasses.fields`;
* which file names are written gzip-compressed / read through gzip: probes (magic bytes of the file written;
  which of a plain and a compressed payload `construct_from_json_file` accepts under that name); from the
  probed extension spellings the tables `writerGzipExts` / `readerGzipExts` (+ "is the test case-insensitive")
  are derived, and the raw observations for awkward names are emitted as `codecProbe`;
* the keys written: top-level keys of the JSON a probe model is persisted to, each matched to the model
  attribute whose dict it holds; the keys read: which section of that file ends up in which attribute of a
  fresh `Model()`; which keys the reader insists on (file with the key removed);
* the decode allow-list: which classes `construct_from_json_file` rebuilds when jsonpickle's import fallback is
  blocked for the package's modules;
* `keys=`: whether a `json://` key is escaped by the writer / unescaped by the reader;
* `ExcelType`: slots, `__getnewargs__()` of probe instances, which `__new__` need arguments (by calling them);
* whether the compiled AST is part of the persisted graph, whether the reader compiles (`build_code=True`).

The source text is still read (tolerantly) for one informational comment in the generated file; nothing in the
tables depends on it."""
import ast
import dataclasses
import gzip
import inspect
import json
import os
import tempfile
import textwrap

from ._lean import chars, boolean, lst


def qualname(cls):
    return f'{cls.__module__}.{cls.__qualname__}'


def annotation_types(a):
    """Qualified names of the classes an annotation mentions (in order, without duplicates)."""
    out = []

    def walk(x):
        if isinstance(x, type):
            out.append(qualname(x))
        elif inspect.ismodule(x):
            out.append(x.__name__)
        elif getattr(x, '__origin__', None) is not None:
            walk(x.__origin__)
            for y in getattr(x, '__args__', ()) or ():
                walk(y)
        elif isinstance(x, str):
            out.append(x)
        elif x is None:
            out.append('builtins.NoneType')
        else:
            out.append(repr(x))
    walk(a)
    seen = []
    for t in out:
        if t not in seen:
            seen.append(t)
    return seen


def field_rows(cls):
    rows = []
    for f in dataclasses.fields(cls):
        has_default = (f.default is not dataclasses.MISSING) or (f.default_factory is not dataclasses.MISSING)
        types = '[' + ', '.join(chars(t) for t in annotation_types(f.type)) + ']'
        rows.append(f'⟨{chars(f.name)}, {boolean(f.init)}, {boolean(f.compare)}, {boolean(has_default)}, {types}⟩')
    return rows


def method_ast(cls, name):
    src = textwrap.dedent(inspect.getsource(getattr(cls, name)))
    return ast.parse(src).body[0]


def self_attr(node):
    """`self.<name>` -> name"""
    if isinstance(node, ast.Attribute) and isinstance(node.value, ast.Name) and node.value.id == 'self':
        return node.attr
    return None


def dotted(node):
    if isinstance(node, ast.Name):
        return node.id
    if isinstance(node, ast.Attribute):
        return dotted(node.value) + '.' + node.attr
    return '<expr>'


def ext_test(fn):
    """The extension test of a method: `<x>.lower() in [<literals>]` (or without `.lower()`),
    where <x> is `os.path.splitext(fname)[-1]`.  Returns (lowers, [extensions])."""
    found = []
    for node in ast.walk(fn):
        if isinstance(node, ast.Compare) and len(node.ops) == 1 and isinstance(node.ops[0], ast.In):
            comp = node.comparators[0]
            if not isinstance(comp, (ast.List, ast.Tuple, ast.Set)):
                continue
            if not all(isinstance(e, ast.Constant) and isinstance(e.value, str) for e in comp.elts):
                continue
            left = node.left
            lowers = False
            if (isinstance(left, ast.Call) and isinstance(left.func, ast.Attribute)
                    and left.func.attr == 'lower' and not left.args):
                lowers = True
                left = left.func.value
            # os.path.splitext(fname)[-1]  (or [1])
            if not (isinstance(left, ast.Subscript) and isinstance(left.value, ast.Call)
                    and dotted(left.value.func).endswith('splitext')):
                continue
            idx = left.slice
            idx = ast.literal_eval(idx)
            if idx not in (-1, 1):
                raise ValueError(f'extension test takes element {idx} of splitext')
            found.append((lowers, [e.value for e in comp.elts]))
    if len(found) != 1:
        raise ValueError(f'expected exactly one extension test, found {found}')
    # the branches: `gzip.GzipFile if <test> else open`
    ifexp = [n for n in ast.walk(fn) if isinstance(n, ast.IfExp)]
    if len(ifexp) != 1 or not dotted(ifexp[0].body).endswith('GzipFile') or dotted(ifexp[0].orelse) != 'open':
        raise ValueError('opener choice is not `gzip.GzipFile if <test> else open`')
    return found[0]


def keys_flag(fn, func_name):
    calls = [n for n in ast.walk(fn) if isinstance(n, ast.Call)
             and isinstance(n.func, ast.Attribute) and n.func.attr == func_name
             and dotted(n.func).startswith('jsonpickle')]
    if len(calls) != 1:
        raise ValueError(f'expected one jsonpickle.{func_name} call')
    kw = {k.arg: k.value for k in calls[0].keywords}
    keys = ast.literal_eval(kw['keys']) if 'keys' in kw else False
    return calls[0], kw, bool(keys)


# extension spellings from which the writer's / reader's extension tables are derived
SPELLINGS = ['.gz', '.gzip', '.GZ', '.Gzip', '.GZIP', '.gZ', '.gzIP', '.json', '.JSON', '', '.txt', '.zip',
             '.gzz', '.gzi', '.g', '.z', '.tgz', '.bz2', '.gz2', '.jgz', '.gzipp', '.gz_', '.xz']
# awkward names: the observations go into `codecProbe`, the Lean model has to agree on every one of them
NAMES = ['m.json', 'm.gz', 'm.GZ', 'm.gzip', 'm.Gzip', 'm.gz.json', 'm.json.gz', 'm.json.GZIP', 'model', '.gz',
         '..gz', 'a..gz', '.hidden.gz', 'm.tar.gz', 'mgz', 'm.gz.', 'm..gzip', 'm.gzip.bak', 'm.g z', 'a b.gz',
         'dir.gz/m', 'dir.gz/m.json', 'dir.d/.gz', 'dir.d/..gzip', 'dir.d/x.gzip', 'dir.gz/.hidden',
         'dir.GZ/sub.x/m.jsn.Gz', 'ünï cödé.GZ', '日本.gzip', '...', 'm.']


class _Strict:
    """Block jsonpickle's import fallback for the package's own modules: only `classes=` may resolve them."""

    def __enter__(self):
        import jsonpickle.unpickler as up
        self.up, self.orig = up, up.loadclass

        def loadclass(name, classes=None):
            if isinstance(name, str) and name.startswith('xlcalculator.'):
                if classes and (name in classes or name.rsplit('.', 1)[-1] in classes):
                    return self.orig(name, classes=classes)
                return None
            return self.orig(name, classes=classes)
        up.loadclass = loadclass
        return self

    def __exit__(self, *a):
        self.up.loadclass = self.orig


def _payload_of(path):
    with open(path, 'rb') as fh:
        raw = fh.read()
    gz = raw[:2] == b'\x1f\x8b'
    return gz, (gzip.decompress(raw) if gz else raw)


def _probe_model(compiled):
    import xlcalculator
    mc = xlcalculator.ModelCompiler()
    mc.read_and_parse_dict({'Sheet1!A1': 1, 'Sheet1!A2': 2, 'Sheet1!B1': '=SUM(A1:A2)', 'Sheet1!C1': '=A1+1'},
                           build_code=False)
    mc.defined_names = {'nm': 'Sheet1!$B$1', 'rg': 'Sheet1!$A$1:$A$2'}
    mc.build_defined_names()
    mc.link_cells_to_defined_names()
    mc.build_ranges(default_sheet='Sheet1')
    if compiled:
        mc.model.build_code()
    return mc.model


def _tiny():
    import xlcalculator
    return xlcalculator.ModelCompiler().read_and_parse_dict({'Sheet1!A1': 1, 'Sheet1!B1': '=A1+1'})


def _writes_gzip(td, n, name):
    path = os.path.join(td, f'w{n}', name)
    os.makedirs(os.path.dirname(path), exist_ok=True)
    _tiny().persist_to_json_file(path)
    return _payload_of(path)[0]


def _reads_gzip(td, n, name, payload, model_cls):
    """Which of a plain and a gzip-compressed payload does the reader accept under this name?"""
    for k, (is_gz, data) in enumerate([(False, payload), (True, gzip.compress(payload))]):
        path = os.path.join(td, f'r{n}_{k}', name)
        os.makedirs(os.path.dirname(path), exist_ok=True)
        with open(path, 'wb') as fh:
            fh.write(data)
        try:
            m = model_cls()
            m.construct_from_json_file(path)
            if isinstance(m.cells, dict) and len(m.cells) == 2:
                return is_gz
        except Exception:  # noqa: BLE001 - the other payload is the one this name is read with
            continue
    raise ValueError(f'reader accepts neither a plain nor a gzip payload under the name {name!r}')


def _ext_table(observed):
    """(case-insensitive?, extensions) explaining the observations {spelling: gzip?}."""
    gz = [e for e, g in observed.items() if g]
    lower = sorted({e.lower() for e in gz})
    insensitive = all(g for e, g in observed.items() if e.lower() in lower)
    return (True, lower) if insensitive else (False, sorted(gz))


def _source_note(model_cls):
    """Informational only: the extension literals as the source spells them (never fails)."""
    try:
        notes = []
        for name in ('persist_to_json_file', 'construct_from_json_file'):
            fn = method_ast(model_cls, name)
            lits = [n.value for n in ast.walk(fn) if isinstance(n, ast.Constant) and isinstance(n.value, str)
                    and n.value.startswith('.')]
            notes.append(f'{name}: extension literals in the method body {lits!r}')
        return '; '.join(notes)
    except Exception as exc:  # noqa: BLE001
        return f'not readable ({type(exc).__name__})'


def emit():
    from xlcalculator import model, xltypes, tokenizer, ast_nodes
    from xlcalculator.xlfunctions import func_xltypes, xlerrors
    import xlcalculator  # noqa: F401
    Model = model.Model

    classes = [xltypes.XLCell, xltypes.XLFormula, xltypes.XLRange, tokenizer.f_token]
    class_rows = [f'⟨{chars(qualname(c))}, {lst(field_rows(c), per_line=False)}⟩' for c in classes]
    model_rows = field_rows(Model)
    model_attrs = [f.name for f in dataclasses.fields(Model)]

    with tempfile.TemporaryDirectory(prefix='c12probe') as td:
        # ---- the keys written, and the attribute each holds
        pm = _probe_model(compiled=False)
        pfile = os.path.join(td, 'probe.json')
        pm.persist_to_json_file(pfile)
        _, payload = _payload_of(pfile)
        data = json.loads(payload.decode())
        if not isinstance(data, dict):
            raise ValueError('the persisted JSON is not an object')

        def keyset(d):
            return frozenset(k for k in d if not k.startswith('py/')) if isinstance(d, dict) else None
        attr_keys = {a: frozenset(getattr(pm, a)) for a in model_attrs if isinstance(getattr(pm, a), dict)}
        writes = []
        for k, sec in data.items():
            owners = [a for a, ks in attr_keys.items() if ks == keyset(sec)]
            writes.append((k, owners[0] if len(owners) == 1 else '?'))

        # ---- the keys read: which section ends up in which attribute of a fresh Model()
        fresh = Model()
        fresh.construct_from_json_file(pfile)
        reads = []
        for a in model_attrs:
            v = getattr(fresh, a)
            if isinstance(v, dict) and v:
                src = [k for k, sec in data.items() if keyset(sec) == frozenset(v)]
                if len(src) == 1:
                    reads.append((a, src[0]))
        requires = []
        for i, k in enumerate(data):
            cut = {kk: vv for kk, vv in data.items() if kk != k}
            # (back references into the removed section would dangle: rebuild the text from a model without sharing)
            path = os.path.join(td, f'cut{i}.json')
            with open(path, 'wb') as fh:
                fh.write(json.dumps(cut).encode())
            try:
                Model().construct_from_json_file(path)
            except KeyError:
                requires.append(k)
            except Exception:  # noqa: BLE001 - dangling py/id etc.: says nothing about the key
                pass

        # ---- does the reader compile on request?
        try:
            compiled = Model()
            compiled.construct_from_json_file(pfile, build_code=True)
            build_param = compiled.cells['Sheet1!B1'].formula.ast is not None
        except TypeError:
            build_param = False

        # ---- gzip or plain, per extension spelling and per awkward name
        _, tiny_payload = _payload_of(_persist_plain(td))
        w_obs = {e: _writes_gzip(td, f'e{i}', 'm' + e) for i, e in enumerate(SPELLINGS)}
        r_obs = {e: _reads_gzip(td, f'e{i}', 'm' + e, tiny_payload, Model) for i, e in enumerate(SPELLINGS)}
        w_lowers, w_exts = _ext_table(w_obs)
        r_lowers, r_exts = _ext_table(r_obs)
        codec_rows = []
        for i, name in enumerate(NAMES):
            codec_rows.append((name, _writes_gzip(td, f'n{i}', name), _reads_gzip(td, f'n{i}', name, tiny_payload, Model)))

        # ---- keys=: is a `json://` key escaped on the way out / unescaped on the way in?
        try:
            jm = xlcalculator.ModelCompiler().read_and_parse_dict({'json://p!A1': 1})
            jf = os.path.join(td, 'jsonkey.json')
            jm.persist_to_json_file(jf)
            jd = json.loads(_payload_of(jf)[1].decode())
            enc_keys = any(k.startswith('json://"') or k.startswith("json://'") for sec in jd.values()
                           if isinstance(sec, dict) for k in sec)
        except Exception:  # noqa: BLE001
            enc_keys = False
        try:
            kf = os.path.join(td, 'jsonkey2.json')
            kd = {k: {} for k in data}
            first_key = reads[0][1] if reads else next(iter(data))
            kd[first_key] = {'json://"zz"': 1}
            with open(kf, 'wb') as fh:
                fh.write(json.dumps(kd).encode())
            km = Model()
            km.construct_from_json_file(kf)
            dec_keys = 'zz' in getattr(km, reads[0][0] if reads else 'cells')
        except Exception:  # noqa: BLE001
            dec_keys = False

        # ---- the allow-list: what is rebuilt when the import fallback is blocked
        candidates = []
        for mod in (xltypes, tokenizer, ast_nodes, func_xltypes, xlerrors):
            for obj in vars(mod).values():
                if isinstance(obj, type) and obj.__module__ == mod.__name__ and obj not in candidates:
                    candidates.append(obj)
        allow, allow_note = [], ''
        # (tried under each section in turn: a reader that post-processes one section — say, the cells — may choke
        #  on bare instances there; that is a difference for the correspondence run to judge, not a reason to stop)
        for attr0, key0 in reads[::-1] + reads:
            ad = {k: {} for k in data}
            ad[key0] = {qualname(c): {'py/object': qualname(c)} for c in candidates}
            af = os.path.join(td, f'allow_{key0}.json')
            with open(af, 'wb') as fh:
                fh.write(json.dumps(ad).encode())
            try:
                with _Strict():
                    am = Model()
                    am.construct_from_json_file(af)
                got = getattr(am, attr0)
                allow = [qualname(c) for c in candidates if type(got.get(qualname(c))) is c]
                break
            except Exception as exc:  # noqa: BLE001
                allow_note = f'allow-list probe under {key0!r} raised {type(exc).__name__}'
                continue

        # ---- is the compiled AST part of the persisted graph?
        cm = _probe_model(compiled=True)
        cf = os.path.join(td, 'compiled.json')
        cm.persist_to_json_file(cf)
        cdata = json.loads(_payload_of(cf)[1].decode())

        def has_ast(j):
            if isinstance(j, dict):
                return any((k == 'ast' and v is not None) or has_ast(v) for k, v in j.items())
            if isinstance(j, list):
                return any(has_ast(v) for v in j)
            return False
        persists_ast = has_ast(cdata)
        if cm.cells['Sheet1!B1'].formula.ast is None:
            raise ValueError('probe: persist_to_json_file removed the AST from the live model')

    # ---- ExcelType: slots, __getnewargs__, __new__ (introspection and calls)
    et = func_xltypes.ExcelType
    slots = et.__slots__
    slots = [slots] if isinstance(slots, str) else list(slots)
    subclasses = []
    for c in func_xltypes.NATIVE_TO_XLTYPE.values():
        if isinstance(c, type) and issubclass(c, et) and c not in subclasses:
            subclasses.append(c)
    samples = {'Number': 3, 'Text': 'x', 'Boolean': True, 'Blank': None}
    has_newargs = all(hasattr(c, '__getnewargs__') for c in subclasses)
    newargs_attrs = ['?']
    if has_newargs:
        ok = True
        for c in subclasses:
            if c.__name__ not in samples:
                continue
            inst = c(samples[c.__name__])
            args = inst.__getnewargs__()
            if tuple(args) != tuple(getattr(inst, sl) for sl in slots):
                ok = False
            else:
                again = c.__new__(c, *args)
                ok = ok and all(getattr(again, sl) == getattr(inst, sl) for sl in slots)
        newargs_attrs = list(slots) if ok else ['?']
    new_params = [p.name for p in list(inspect.signature(et.__new__).parameters.values())[1:]]
    new_required = []
    for c in subclasses:
        try:
            c.__new__(c)
        except TypeError:
            new_required.append(c)
    error_classes = [xlerrors.ExcelError, xlerrors.SpecificExcelError] + list(xlerrors.ERRORS_BY_CODE.values())

    pairs = lambda xs: lst([f'({chars(a)}, {chars(b)})' for a, b in xs], per_line=False)  # noqa: E731
    texts = lambda xs: lst([chars(x) for x in xs], ty='(List Char)', per_line=False)  # noqa: E731
    probe_rows = lst([f'({chars(n)}, {boolean(w)}, {boolean(r)})' for n, w, r in codec_rows])
    body = f'''namespace XlVerif.Gen.C12
-- source reading, informational only (no table depends on it): {_source_note(Model)}
-- probe notes: {allow_note or 'none'}
/-- One `dataclasses.field`: name, `init`, `compare`, has a default, classes the annotation mentions. -/
structure FieldRow where
  name : List Char
  init : Bool
  compare : Bool
  hasDefault : Bool
  types : List (List Char)
  deriving DecidableEq, Repr
structure ClassRow where
  qualname : List Char
  fields : List FieldRow
  deriving DecidableEq, Repr
/-- `dataclasses.fields` of XLCell, XLFormula, XLRange, f_token (in this order). -/
def dataclasses : List ClassRow := {lst(class_rows)}
/-- `dataclasses.fields(Model)`. -/
def modelFields : List FieldRow := {lst(model_rows)}
/-- probe: the top-level keys of the JSON `persist_to_json_file` writes, in order, each with the model attribute
    whose dict it holds (`?` if none). -/
def persistWrites : List (List Char × List Char) := {pairs(writes)}
/-- probe: `(attribute, key)` — the attribute of a fresh `Model()` that holds the file's section `key` after
    `construct_from_json_file`. -/
def readAssigns : List (List Char × List Char) := {pairs(reads)}
/-- probe: the keys without which `construct_from_json_file` raises `KeyError`. -/
def readerRequires : List (List Char) := {texts(requires)}
/-- probe: `construct_from_json_file(…, build_code=True)` returns compiled formulas. -/
def readerHasBuildCode : Bool := {boolean(build_param)}
/-- probe: the classes of the package `construct_from_json_file` rebuilds when jsonpickle's import fallback is
    blocked (= the `classes=` allow-list of the decode call), as qualified names. -/
def allowList : List (List Char) := {texts(allow)}
/-- probe: a `json://` key is escaped by the writer / unescaped by the reader (`keys=True`). -/
def encodeKeys : Bool := {boolean(enc_keys)}
def decodeKeys : Bool := {boolean(dec_keys)}
/-- probe over {len(SPELLINGS)} extension spellings: the writer compresses exactly the names whose extension
    (lower-cased first if `writerExtLowers`) is in `writerGzipExts`. -/
def writerExtLowers : Bool := {boolean(w_lowers)}
def writerGzipExts : List (List Char) := {texts(w_exts)}
/-- … and the reader opens exactly those through gzip. -/
def readerExtLowers : Bool := {boolean(r_lowers)}
def readerGzipExts : List (List Char) := {texts(r_exts)}
/-- probe, raw observations: (file name, written gzip-compressed?, read through gzip?) -/
def codecProbe : List (List Char × Bool × Bool) := {probe_rows}
/-- `ExcelType.__slots__` (a bare string counts as one slot, as Python does). -/
def excelTypeSlots : List (List Char) := {texts(slots)}
/-- every registered `ExcelType` subclass has `__getnewargs__`; `newargsAttrs` = the slots when, for probe
    instances, `__getnewargs__()` returns exactly the slot values and `__new__(cls, *args)` rebuilds them. -/
def excelTypeHasNewargs : Bool := {boolean(has_newargs)}
def newargsAttrs : List (List Char) := {texts(newargs_attrs)}
/-- parameters of `ExcelType.__new__` after `cls`. -/
def newParams : List (List Char) := {texts(new_params)}
/-- registered `ExcelType` subclasses, and those whose `__new__(cls)` without arguments raises. -/
def excelTypeClasses : List (List Char) := {texts([qualname(c) for c in subclasses])}
def newRequired : List (List Char) := {texts([qualname(c) for c in new_required])}
def errorClasses : List (List Char) := {texts([qualname(c) for c in error_classes])}
/-- probe: after `build_code`, the JSON written for a formula cell carries a non-null `ast`. -/
def persistsAst : Bool := {boolean(persists_ast)}
end XlVerif.Gen.C12
'''
    return {'C12Dataclass': body}


def _persist_plain(td):
    """A tiny model persisted under a name every variant of the code writes uncompressed or compressed — the
    payload is taken through `_payload_of`, which undoes either."""
    path = os.path.join(td, 'tiny_payload.json')
    _tiny().persist_to_json_file(path)
    return path
