"""C12 tables: dataclass field lists of XLCell / XLFormula / XLRange / f_token (from `dataclasses.fields`
of the running code), the keys `persist_to_json_file` writes and `construct_from_json_file` reads, the
`classes=(…)` allow-list, the `keys=` flags, the file-extension tests of writer and reader (Python `ast`
on the source of model.py), `ExcelType.__getnewargs__`, and a behavioural probe telling whether the
compiled AST is part of the persisted graph."""
import ast
import dataclasses
import inspect
import json
import os
import tempfile
import textwrap
import typing

from ._lean import chars, boolean, lst


def qualname(cls):
    return f'{cls.__module__}.{cls.__qualname__}'


def annotation_types(a):
    """Qualified names of the classes an annotation mentions (in order, without duplicates)."""
    out = []

    def walk(x):
        if isinstance(x, type):
            out.append(qualname(x))
        elif inspect.ismodule(x):
            out.append(x.__name__)
        elif getattr(x, '__origin__', None) is not None:
            walk(x.__origin__)
            for y in getattr(x, '__args__', ()) or ():
                walk(y)
        elif isinstance(x, str):
            out.append(x)
        elif x is None:
            out.append('builtins.NoneType')
        else:
            out.append(repr(x))
    walk(a)
    seen = []
    for t in out:
        if t not in seen:
            seen.append(t)
    return seen


def field_rows(cls):
    rows = []
    for f in dataclasses.fields(cls):
        has_default = (f.default is not dataclasses.MISSING) or (f.default_factory is not dataclasses.MISSING)
        types = '[' + ', '.join(chars(t) for t in annotation_types(f.type)) + ']'
        rows.append(f'⟨{chars(f.name)}, {boolean(f.init)}, {boolean(f.compare)}, {boolean(has_default)}, {types}⟩')
    return rows


def method_ast(cls, name):
    src = textwrap.dedent(inspect.getsource(getattr(cls, name)))
    return ast.parse(src).body[0]


def self_attr(node):
    """`self.<name>` -> name"""
    if isinstance(node, ast.Attribute) and isinstance(node.value, ast.Name) and node.value.id == 'self':
        return node.attr
    return None


def dotted(node):
    if isinstance(node, ast.Name):
        return node.id
    if isinstance(node, ast.Attribute):
        return dotted(node.value) + '.' + node.attr
    return '<expr>'


def ext_test(fn):
    """The extension test of a method: `<x>.lower() in [<literals>]` (or without `.lower()`),
    where <x> is `os.path.splitext(fname)[-1]`.  Returns (lowers, [extensions])."""
    found = []
    for node in ast.walk(fn):
        if isinstance(node, ast.Compare) and len(node.ops) == 1 and isinstance(node.ops[0], ast.In):
            comp = node.comparators[0]
            if not isinstance(comp, (ast.List, ast.Tuple, ast.Set)):
                continue
            if not all(isinstance(e, ast.Constant) and isinstance(e.value, str) for e in comp.elts):
                continue
            left = node.left
            lowers = False
            if (isinstance(left, ast.Call) and isinstance(left.func, ast.Attribute)
                    and left.func.attr == 'lower' and not left.args):
                lowers = True
                left = left.func.value
            # os.path.splitext(fname)[-1]  (or [1])
            if not (isinstance(left, ast.Subscript) and isinstance(left.value, ast.Call)
                    and dotted(left.value.func).endswith('splitext')):
                continue
            idx = left.slice
            idx = ast.literal_eval(idx)
            if idx not in (-1, 1):
                raise ValueError(f'extension test takes element {idx} of splitext')
            found.append((lowers, [e.value for e in comp.elts]))
    if len(found) != 1:
        raise ValueError(f'expected exactly one extension test, found {found}')
    # the branches: `gzip.GzipFile if <test> else open`
    ifexp = [n for n in ast.walk(fn) if isinstance(n, ast.IfExp)]
    if len(ifexp) != 1 or not dotted(ifexp[0].body).endswith('GzipFile') or dotted(ifexp[0].orelse) != 'open':
        raise ValueError('opener choice is not `gzip.GzipFile if <test> else open`')
    return found[0]


def keys_flag(fn, func_name):
    calls = [n for n in ast.walk(fn) if isinstance(n, ast.Call)
             and isinstance(n.func, ast.Attribute) and n.func.attr == func_name
             and dotted(n.func).startswith('jsonpickle')]
    if len(calls) != 1:
        raise ValueError(f'expected one jsonpickle.{func_name} call')
    kw = {k.arg: k.value for k in calls[0].keywords}
    keys = ast.literal_eval(kw['keys']) if 'keys' in kw else False
    return calls[0], kw, bool(keys)


def emit():
    from xlcalculator import model, xltypes, tokenizer
    from xlcalculator.xlfunctions import func_xltypes, xlerrors
    import xlcalculator  # noqa: F401

    classes = [xltypes.XLCell, xltypes.XLFormula, xltypes.XLRange, tokenizer.f_token]
    class_rows = [f'⟨{chars(qualname(c))}, {lst(field_rows(c), per_line=False)}⟩' for c in classes]

    # ---- what persist_to_json_file writes
    wfn = method_ast(model.Model, 'persist_to_json_file')
    dicts = [n for n in ast.walk(wfn) if isinstance(n, ast.Dict)]
    if len(dicts) != 1:
        raise ValueError('persist_to_json_file: expected one dict literal')
    writes = []
    for k, v in zip(dicts[0].keys, dicts[0].values):
        attr = self_attr(v)
        if not (isinstance(k, ast.Constant) and isinstance(k.value, str)) or attr is None:
            raise ValueError('persist_to_json_file: output entry is not `"key": self.attr`')
        writes.append((k.value, attr))
    _, _, enc_keys = keys_flag(wfn, 'encode')
    w_lowers, w_exts = ext_test(wfn)

    # ---- what construct_from_json_file reads
    rfn = method_ast(model.Model, 'construct_from_json_file')
    call, kw, dec_keys = keys_flag(rfn, 'decode')
    if 'classes' not in kw:
        allow = []
    else:
        allow = []
        ns = vars(model)
        for e in kw['classes'].elts:
            obj = eval(compile(ast.Expression(e), '<allow-list>', 'eval'), ns)  # noqa: S307 - the repo's own names
            allow.append(qualname(obj))
    reads = []
    for node in ast.walk(rfn):
        if isinstance(node, ast.Assign) and len(node.targets) == 1:
            attr = self_attr(node.targets[0])
            v = node.value
            if (attr is not None and isinstance(v, ast.Subscript) and isinstance(v.value, ast.Name)
                    and v.value.id == 'data'):
                reads.append((attr, ast.literal_eval(v.slice)))
    r_lowers, r_exts = ext_test(rfn)
    build_param = 'build_code' in [a.arg for a in rfn.args.args]

    # ---- the Model's own fields
    model_rows = field_rows(model.Model)

    # ---- ExcelType: __slots__, __getnewargs__, __new__
    et = func_xltypes.ExcelType
    slots = et.__slots__
    slots = [slots] if isinstance(slots, str) else list(slots)
    has_newargs = '__getnewargs__' in vars(et) or any('__getnewargs__' in vars(c) for c in et.__mro__[1:-1])
    newargs_attrs = []
    if has_newargs:
        gfn = method_ast(et, '__getnewargs__')
        rets = [n for n in ast.walk(gfn) if isinstance(n, ast.Return)]
        if len(rets) == 1 and isinstance(rets[0].value, ast.Tuple):
            for e in rets[0].value.elts:
                a = self_attr(e)
                newargs_attrs.append(a if a is not None else '?')
        else:
            newargs_attrs = ['?']
    new_params = [p.name for p in list(inspect.signature(et.__new__).parameters.values())[1:]]
    subclasses = []
    for c in func_xltypes.NATIVE_TO_XLTYPE.values():
        if isinstance(c, type) and issubclass(c, et) and c not in subclasses:
            subclasses.append(c)
    new_required = []
    for c in subclasses:
        ps = list(inspect.signature(c.__new__).parameters.values())[1:]
        if any(p.default is p.empty and p.kind in (p.POSITIONAL_ONLY, p.POSITIONAL_OR_KEYWORD) for p in ps):
            new_required.append(c)
    error_classes = [xlerrors.ExcelError, xlerrors.SpecificExcelError] + list(xlerrors.ERRORS_BY_CODE.values())

    # ---- behavioural probe: is the compiled AST part of the persisted graph?
    m = xlcalculator.ModelCompiler().read_and_parse_dict({'Sheet1!A1': 1, 'Sheet1!B1': '=A1+1'})
    with tempfile.TemporaryDirectory() as td:
        fn = os.path.join(td, 'probe.json')
        m.persist_to_json_file(fn)
        with open(fn, 'rb') as fh:
            data = json.loads(fh.read().decode())

    def has_ast(j):
        if isinstance(j, dict):
            return any((k == 'ast' and v is not None) or has_ast(v) for k, v in j.items())
        if isinstance(j, list):
            return any(has_ast(v) for v in j)
        return False
    persists_ast = has_ast(data)
    if m.cells['Sheet1!B1'].formula.ast is None:
        raise ValueError('probe: persist_to_json_file removed the AST from the live model')

    pairs = lambda xs: lst([f'({chars(a)}, {chars(b)})' for a, b in xs], per_line=False)  # noqa: E731
    texts = lambda xs: lst([chars(x) for x in xs], ty='(List Char)', per_line=False)  # noqa: E731
    body = f'''namespace XlVerif.Gen.C12
/-- One `dataclasses.field`: name, `init`, `compare`, has a default, classes the annotation mentions. -/
structure FieldRow where
  name : List Char
  init : Bool
  compare : Bool
  hasDefault : Bool
  types : List (List Char)
  deriving DecidableEq, Repr
structure ClassRow where
  qualname : List Char
  fields : List FieldRow
  deriving DecidableEq, Repr
/-- `dataclasses.fields` of XLCell, XLFormula, XLRange, f_token (in this order). -/
def dataclasses : List ClassRow := {lst(class_rows)}
/-- `dataclasses.fields(Model)`. -/
def modelFields : List FieldRow := {lst(model_rows)}
/-- `persist_to_json_file`: the entries `'key': self.attr` of the dict that is written, in order. -/
def persistWrites : List (List Char × List Char) := {pairs(writes)}
/-- `construct_from_json_file`: the assignments `self.attr = data['key']`, in order. -/
def readAssigns : List (List Char × List Char) := {pairs(reads)}
/-- `construct_from_json_file` has a `build_code` parameter. -/
def readerHasBuildCode : Bool := {boolean(build_param)}
/-- the `classes=(…)` allow-list of `jsonpickle.decode`, as qualified names. -/
def allowList : List (List Char) := {texts(allow)}
def encodeKeys : Bool := {boolean(enc_keys)}
def decodeKeys : Bool := {boolean(dec_keys)}
/-- writer: `os.path.splitext(fname)[-1](.lower())? in [...]` selects `gzip.GzipFile`. -/
def writerExtLowers : Bool := {boolean(w_lowers)}
def writerGzipExts : List (List Char) := {texts(w_exts)}
def readerExtLowers : Bool := {boolean(r_lowers)}
def readerGzipExts : List (List Char) := {texts(r_exts)}
/-- `ExcelType.__slots__` (a bare string counts as one slot, as Python does). -/
def excelTypeSlots : List (List Char) := {texts(slots)}
/-- `ExcelType` defines `__getnewargs__`; the attributes `self.<a>` its returned tuple lists. -/
def excelTypeHasNewargs : Bool := {boolean(has_newargs)}
def newargsAttrs : List (List Char) := {texts(newargs_attrs)}
/-- parameters of `ExcelType.__new__` after `cls`. -/
def newParams : List (List Char) := {texts(new_params)}
/-- registered `ExcelType` subclasses, and those whose `__new__` has a required parameter. -/
def excelTypeClasses : List (List Char) := {texts([qualname(c) for c in subclasses])}
def newRequired : List (List Char) := {texts([qualname(c) for c in new_required])}
def errorClasses : List (List Char) := {texts([qualname(c) for c in error_classes])}
/-- probe: after `build_code`, the JSON written for a formula cell carries a non-null `ast`. -/
def persistsAst : Bool := {boolean(persists_ast)}
end XlVerif.Gen.C12
'''
    return {'C12Dataclass': body}
