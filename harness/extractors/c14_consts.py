"""C14: the constant of xlcalculator/ast_nodes.py that RangeNode.eval uses while it builds the Array of a
range (MAX_EMPTY: the length of a run of empty cells after which the range is cut short), read from
the *running* module."""


def emit():
    import importlib
    ast_nodes = importlib.import_module('xlcalculator.ast_nodes')
    from ._lean import probe_max_empty
    v = probe_max_empty()       # by behaviour (the constant may be renamed or held differently)
    named = getattr(ast_nodes, 'MAX_EMPTY', None)
    if isinstance(named, int) and not isinstance(named, bool) and named != v:
        raise ValueError(f'ast_nodes.MAX_EMPTY = {named!r} but ranges are read through runs of {v} empty cells')
    body = ('namespace XlVerif.Gen.C14\n'
            '/-- `ast_nodes.MAX_EMPTY`, PROBED: the longest run of empty cells behind which a range is still read -/\n'
            f'def maxEmpty : Nat := {int(v)}\n'
            'end XlVerif.Gen.C14\n')
    return {'C14Consts': body}
