"""C14: the constant of xlcalculator/ast_nodes.py that RangeNode.eval uses while it builds the Array of a
range (MAX_EMPTY: the length of a run of empty cells after which the range is cut short), read from
the *running* module."""


def emit():
    import importlib
    ast_nodes = importlib.import_module('xlcalculator.ast_nodes')
    v = getattr(ast_nodes, 'MAX_EMPTY')
    if not (isinstance(v, int) and not isinstance(v, bool) and v >= 0):
        raise ValueError(f'ast_nodes.MAX_EMPTY is not a natural number: {v!r}')
    body = ('namespace XlVerif.Gen.C14\n'
            '/-- `ast_nodes.MAX_EMPTY` -/\n'
            f'def maxEmpty : Nat := {int(v)}\n'
            'end XlVerif.Gen.C14\n')
    return {'C14Consts': body}
