"""C18 tables: the WEEKDAY numbering per return type, obtained BEHAVIOURALLY.

The tables are what the running code DOES, not how its source is spelt: WEEKDAY is called for seven
consecutive serials that are a known Monday … Sunday (by Python's own calendar) with the return type omitted
and with every candidate return type of a window around the documented ones; a candidate for which all seven
calls return whole numbers becomes a row (indexed Monday = 0 … Sunday = 6, like `date.weekday()`), a candidate
that answers with an Excel error on all seven days is "not a return type" (#NUM! in the model).  An answer that
is neither (an exception, a non-integer, an error on some days only) is recorded as the out-of-range entry
`-999`, so that the Lean table obligation `weekday_tables` fails and the check searches for the failing input.
A behaviour-preserving rewrite of date.py (if-chain → dict, renamed variables, reworded messages) yields the
same table.

The source text is still looked at, but only to print an informational note when the literal tuples found
there differ from the observed behaviour; that part can never fail the translator."""
import ast
import datetime
import inspect

from ._lean import integer, lst

BAD = -999
# candidate return types: everything near the documented 1, 2, 3, 11 … 17, and a few far ones
CANDIDATES = list(range(-3, 41)) + [100, 255, 1000]


def _probe_week():
    """serials of a Monday … Sunday, from Python's calendar (1900 date system: ordinal - 693594 from 1900-03-01 on)"""
    monday = datetime.date(2024, 1, 1)
    assert monday.weekday() == 0
    return [(monday + datetime.timedelta(days=i)).toordinal() - 693594 for i in range(7)]


def _outcome(fn, *args):
    """('int', k) | ('err', code) | ('bad', description)"""
    from xlcalculator.xlfunctions import func_xltypes, xlerrors
    try:
        r = fn(*args)
    except Exception as exc:  # noqa: BLE001 - any exception is an observation, not a translator failure
        return ('bad', type(exc).__name__)
    if isinstance(r, xlerrors.ExcelError):
        return ('err', str(r.value))
    v = r.value if isinstance(r, func_xltypes.Number) else r
    if isinstance(v, bool):
        return ('bad', 'bool')
    if isinstance(v, int):
        return ('int', v)
    if isinstance(v, float) and v == int(v):
        return ('int', int(v))
    return ('bad', repr(v)[:40])


def weekday_tables():
    from xlcalculator.xlfunctions import xl
    import xlcalculator  # noqa: F401
    fn = xl.FUNCTIONS['WEEKDAY']
    week = _probe_week()

    def row(*rt):
        outs = [_outcome(fn, n, *rt) for n in week]
        if all(o[0] == 'err' for o in outs):
            return None
        return tuple(o[1] if o[0] == 'int' else BAD for o in outs)

    default = row()
    if default is None:
        default = (BAD,) * 7
    rows = []
    for k in CANDIDATES:
        t = row(k)
        if t is not None:
            rows.append((k, t))
    return default, rows


def source_note(default, rows):
    """informational only: compare with tuple literals found in the source of date.py (never raises)"""
    try:
        from xlcalculator.xlfunctions import date
        tree = ast.parse(inspect.getsource(date))
        found = set()
        for node in ast.walk(tree):
            if isinstance(node, ast.Tuple) and len(node.elts) == 7:
                try:
                    t = ast.literal_eval(node)
                except Exception:  # noqa: BLE001
                    continue
                if all(isinstance(x, int) and not isinstance(x, bool) for x in t):
                    found.add(t)
        observed = {default} | {t for _, t in rows}
        if found and not observed <= found:
            print('extract: note (c18_date): observed WEEKDAY rows that are not tuple literals of date.py: '
                  + ', '.join(map(str, sorted(observed - found))))
    except Exception as exc:  # noqa: BLE001
        print(f'extract: note (c18_date): source of date.py not inspected ({type(exc).__name__})')


def emit():
    default, rows = weekday_tables()
    source_note(default, rows)

    def tup(t):
        return '[' + ', '.join(integer(x) for x in t) + ']'
    body = f'''namespace XlVerif.Gen
/-- `WEEKDAY` with `return_type` omitted, observed on a Monday … Sunday (index = `date.weekday()`). -/
def weekdayDefault : List Int := {tup(default)}
/-- `WEEKDAY(serial, k)` observed on a Monday … Sunday for every candidate `k` that is answered with numbers
    (ascending `k`); every other candidate of the probed window answers with an Excel error (`#NUM!` in the
    model).  `{BAD}` marks an answer that is neither a whole number nor an Excel error. -/
def weekdayTables : List (Int × List Int) := {lst([f'({integer(k)}, {tup(t)})' for k, t in rows])}
end XlVerif.Gen
'''
    return {'C18Date': body}
