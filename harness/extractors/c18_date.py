"""C18 tables: the WEEKDAY tuples per return type (they exist only as an if-chain of tuple literals in
date.py, so they are read from the source with `ast`), EXCEL_EPOCH and the leap-day pivots of
utils.number_to_datetime / datetime_to_number are NOT tables (they are modelled by hand)."""
import ast
import inspect

from ._lean import integer, lst


def _tuple_of(body):
    """The value of `weekDays = (…)` in a statement list."""
    for st in body:
        if (isinstance(st, ast.Assign) and len(st.targets) == 1 and isinstance(st.targets[0], ast.Name)
                and st.targets[0].id == 'weekDays'):
            tup = ast.literal_eval(st.value)
            if not (isinstance(tup, tuple) and all(isinstance(x, int) for x in tup)):
                raise ValueError(f'weekDays is not a tuple of ints: {tup!r}')
            return tup
    raise ValueError('branch without a weekDays tuple')


def _indexed_by_weekday(body):
    """The branch must end in `return weekDays[date.weekday()]` (Monday = 0)."""
    ret = body[-1]
    ok = (isinstance(ret, ast.Return) and isinstance(ret.value, ast.Subscript)
          and isinstance(ret.value.value, ast.Name) and ret.value.value.id == 'weekDays'
          and ast.unparse(ret.value.slice) == 'date.weekday()')
    if not ok:
        raise ValueError('branch does not return weekDays[date.weekday()]: ' + ast.unparse(ret))


def _key_of(test):
    """`return_type is None` -> None ; `int(return_type) == k` -> k."""
    src = ast.unparse(test)
    if src == 'return_type is None':
        return None
    if (isinstance(test, ast.Compare) and len(test.ops) == 1 and isinstance(test.ops[0], ast.Eq)
            and ast.unparse(test.left) == 'int(return_type)'):
        k = ast.literal_eval(test.comparators[0])
        if isinstance(k, int):
            return k
    raise ValueError(f'unrecognised WEEKDAY branch condition: {src}')


def weekday_tables():
    from xlcalculator.xlfunctions import date
    fn = inspect.unwrap(date.WEEKDAY)
    tree = ast.parse(inspect.getsource(date))
    fdef = [n for n in tree.body if isinstance(n, ast.FunctionDef) and n.name == 'WEEKDAY']
    if len(fdef) != 1:
        raise ValueError('WEEKDAY not found in date.py')
    chain = [n for n in fdef[0].body if isinstance(n, ast.If)]
    if len(chain) != 1:
        raise ValueError('WEEKDAY: expected exactly one if-chain')
    node, default, rows = chain[0], None, []
    while True:
        key = _key_of(node.test)
        tup = _tuple_of(node.body)
        _indexed_by_weekday(node.body)
        if key is None:
            default = tup
        else:
            rows.append((key, tup))
        if len(node.orelse) == 1 and isinstance(node.orelse[0], ast.If):
            node = node.orelse[0]
            continue
        if not (len(node.orelse) == 1 and isinstance(node.orelse[0], ast.Raise)
                and 'NumExcelError' in ast.unparse(node.orelse[0])):
            raise ValueError('WEEKDAY: the chain does not end in raise NumExcelError')
        break
    if default is None:
        raise ValueError('WEEKDAY: no branch for an omitted return_type')
    del fn
    return default, rows


def emit():
    default, rows = weekday_tables()

    def tup(t):
        return '[' + ', '.join(integer(x) for x in t) + ']'
    body = f'''namespace XlVerif.Gen
/-- `WEEKDAY` with `return_type` omitted: the tuple indexed by `date.weekday()` (Monday = 0). -/
def weekdayDefault : List Int := {tup(default)}
/-- `WEEKDAY`: the `elif int(return_type) == k: weekDays = (…)` chain, in source order;
    any other return type raises `#NUM!`. -/
def weekdayTables : List (Int × List Int) := {lst([f'({integer(k)}, {tup(t)})' for k, t in rows])}
end XlVerif.Gen
'''
    return {'C18Date': body}
