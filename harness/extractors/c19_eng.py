"""C19: what `Gen.C19Eng` holds is obtained by PROBING the registered functions (`xl.FUNCTIONS[...]`
after `import xlcalculator`), not by reading module constants or source text: a refactoring that keeps
the behaviour (tables built differently, renamed helpers, a regex instead of a set) generates the same
file, and a change of behaviour (a bound, a digit, a width, a swapped wrapper) changes it.

probed                                   how
---------------------------------------  -----------------------------------------------------------------
wrappers (origin, destination, places?)  each registered name is matched against the twelve reference
                                         conversions on a handful of arguments; `places?` = a second
                                         argument is accepted (no TypeError)
permittedDigits per base                 X2DEC on every single character of a universe of ~1500 code
                                         points (all of U+0000..U+024F, the digit/letter look-alikes of
                                         other scripts): permitted = the answer is not #NUM!
digitsPerCharacter                       two-character texts: accepted iff both characters are permitted
baseNumbers                              X2DEC("10")
signWidths (origin)                      the k with X2DEC(digits of 2^k) = -2^k  -> k+1
bitWidths (destination)                  DEC2X(-1) = digits of 2^w - 1
maxDigits per base                       X2DEC("0"*k), k = 1..40
bounds per (origin, destination)         smallest / largest accepted integer by bisection (through the
                                         reference digits of the origin base when it is not decimal)
placesMin, placesMax                     DEC2X(0, p), p = -3..15, on all places-taking functions
upperCase, negativeKeepsDigits           outputs of DEC2HEX(-1), DEC2HEX(171), X(-1, 3)

Module constants (BIT_WIDTHS, BASE_NUMBERS) are read only as a fallback when a probe is inconclusive
(which happens only when the behaviour is already broken), and reading them never raises.  `emit()`
itself raises only if the registry cannot be imported at all.
"""
from ._lean import chars, lst

ORDER = ['bin', 'oct', 'dec', 'hex']
RADIX = {'bin': 2, 'oct': 8, 'hex': 16}
FMT = {'bin': 'b', 'oct': 'o', 'hex': 'X'}
NOMINAL_BITS = {'bin': 10, 'oct': 30, 'hex': 40}
TWELVE = ['BIN2DEC', 'BIN2HEX', 'BIN2OCT', 'DEC2BIN', 'DEC2HEX', 'DEC2OCT',
          'HEX2BIN', 'HEX2DEC', 'HEX2OCT', 'OCT2BIN', 'OCT2DEC', 'OCT2HEX']
NUM, VALUE = '#NUM!', '#VALUE!'


def universe():
    cps = list(range(0x0000, 0x0250))
    for lo, hi in ((0x0660, 0x066A), (0x06F0, 0x06FA), (0x0966, 0x0970), (0x2070, 0x207A), (0x2080, 0x208A),
                   (0x2160, 0x2170), (0x2460, 0x2469), (0xFF10, 0xFF1A), (0xFF21, 0xFF3B), (0xFF41, 0xFF5B),
                   (0x1D7CE, 0x1D800), (0x0391, 0x03A0), (0x0410, 0x0420)):
        cps.extend(range(lo, hi))
    return [chr(c) for c in cps if not (0xD800 <= c < 0xE000)]


def outcome(f, *args):
    """('v', python value) | ('e', '#NUM!') | ('x', 'ExceptionClass')"""
    from xlcalculator.xlfunctions import xlerrors
    try:
        r = f(*args)
    except Exception as exc:  # noqa: BLE001 - an escaping exception is an outcome of the probe
        return ('x', type(exc).__name__)
    if isinstance(r, xlerrors.ExcelError):
        return ('e', str(r.value))
    return ('v', getattr(r, 'value', r))


def ref_digits(base, n):
    return format(n & ((1 << NOMINAL_BITS[base]) - 1), FMT[base])


def ref_outcome(o, d, x):
    """reference outcome of converting argument x from side o to side d (ten-digit two's complement)"""
    if o == 'dec':
        if not isinstance(x, int):
            return None
        n = x
    else:
        s = str(x)
        if not (1 <= len(s) <= 10) or any(c not in '0123456789ABCDEFabcdef'[:RADIX[o] if o != 'hex' else 22]
                                          for c in s):
            return ('e', NUM)
        v = int(s, RADIX[o])
        n = v - (1 << NOMINAL_BITS[o]) if v >= (1 << (NOMINAL_BITS[o] - 1)) else v
    if d == 'dec':
        return ('v', n)
    if not (-(1 << (NOMINAL_BITS[d] - 1)) <= n < (1 << (NOMINAL_BITS[d] - 1))):
        return ('e', NUM)
    return ('v', ref_digits(d, n))


MATCH_ARGS = [-1, -300, -513, 0, 7, 9, 15, 255, 600, 70000, 1 << 30, '10', '17', '1F', '777', '1111111111', '7777777777',
              'FFFFFFFFFF', 'FFFFFFFE00', '3777777000']


def probe_wrapper(f):
    """(origin, destination, takes places?) of a registered function, or None."""
    got = [outcome(f, x) for x in MATCH_ARGS]
    best, best_score, tie = None, -1.0, False
    for o in ORDER:
        for d in ORDER:
            if o == d:
                continue
            hit = total = 0
            for x, g in zip(MATCH_ARGS, got):
                r = ref_outcome(o, d, x)
                if r is None:
                    continue
                total += 1
                if r == g and type(r[1]) is type(g[1]):
                    hit += 1
            score = hit / total if total else 0.0
            if score > best_score:
                best, best_score, tie = (o, d), score, False
            elif score == best_score:
                tie = True
    if best is None or tie or best_score < 0.6:
        return None
    o, d = best
    arg = 1 if o == 'dec' else '1'
    takes = outcome(f, arg, 1) != ('x', 'TypeError')
    return (o, d, takes)


def bisect_largest(accepted, lo, hi):
    """largest n in [lo, hi] with accepted(n), assuming accepted(lo) and monotone; lo if none beyond."""
    if accepted(hi):
        return hi
    while hi - lo > 1:
        mid = (lo + hi) // 2
        if accepted(mid):
            lo = mid
        else:
            hi = mid
    return lo


def fallback_constant(name, base):
    """informational fallback: a module constant keyed by the builtin; never raises"""
    try:
        import importlib
        eng = importlib.import_module('xlcalculator.xlfunctions.engineering')
        table = getattr(eng, name, None)
        key = {'bin': bin, 'oct': oct, 'hex': hex}[base]
        v = table.get(key) if isinstance(table, dict) else None
        return int(v) if isinstance(v, int) and not isinstance(v, bool) else None
    except Exception:  # noqa: BLE001
        return None


def probe_tables():
    """Plain-Python description of the behaviour of the registered functions (see module docstring)."""
    from xlcalculator.xlfunctions import xl
    import xlcalculator  # noqa: F401
    F = xl.FUNCTIONS
    t = {'wrappers': [], 'digits': {}, 'per_character': True, 'bases': {}, 'sign_widths': {}, 'widths': {},
         'max_digits': {}, 'bounds': [], 'places_min': 1, 'places_max': 0, 'upper': True, 'neg_keeps': True,
         'notes': []}

    # ---- which conversion each registered name performs
    by_pair = {}
    for name in TWELVE:
        f = F.get(name)
        if f is None:
            continue
        w = probe_wrapper(f)
        if w is None:
            t['notes'].append(f'{name}: conversion not recognised')
            continue
        t['wrappers'].append((name, w[0], w[1], w[2]))
        by_pair.setdefault((w[0], w[1]), f)

    def reader(base):       # a function that reads digit strings of `base`, preferring X2DEC
        for d in ('dec', 'bin', 'oct', 'hex'):
            if (base, d) in by_pair:
                return by_pair[(base, d)], d
        return None, None

    def writer(base):       # a function that writes digits of `base`, preferring DEC2X
        for o in ('dec', 'bin', 'oct', 'hex'):
            if (o, base) in by_pair:
                return by_pair[(o, base)], o
        return None, None

    uni = universe()
    for base in ('bin', 'oct', 'hex'):
        f, d = reader(base)
        if f is not None:
            # ---- permitted characters: everything that is not refused with #NUM!
            perm = [c for c in uni if outcome(f, c) != ('e', NUM)]
            t['digits'][base] = ''.join(sorted(perm))
            # ---- validation is per character: a two-character text passes iff both characters do
            refused = ['2', '8', 'G', 'g', ' ', '-', '+', '.', '_', 'x', '\n', '１', '١']
            refused = [c for c in refused if c not in perm]
            for a in perm:
                for b in perm:
                    if outcome(f, a + b) == ('e', NUM):
                        t['per_character'] = False
                for b in refused:
                    if outcome(f, a + b) != ('e', NUM) or outcome(f, b + a) != ('e', NUM):
                        t['per_character'] = False
            # ---- the radix of int(text, base)
            r = outcome(f, '10') if d == 'dec' else None
            if r is not None and r[0] == 'v' and isinstance(r[1], int) and not isinstance(r[1], bool):
                t['bases'][base] = int(r[1])
            else:
                v = fallback_constant('BASE_NUMBERS', base)
                if v is not None:
                    t['bases'][base] = v
                    t['notes'].append(f'{base}: radix from the module constant')
            # ---- the sign bit of the origin
            hits = []
            if d == 'dec':
                k = 0
                while len(format(1 << k, FMT[base])) <= 12:
                    if outcome(f, format(1 << k, FMT[base])) == ('v', -(1 << k)):
                        hits.append(k)
                    k += 1
            if len(hits) == 1:
                t['sign_widths'][base] = hits[0] + 1
            else:
                v = fallback_constant('BIT_WIDTHS', base)
                if v is not None:
                    t['sign_widths'][base] = v
                    t['notes'].append(f'{base}: sign width from the module constant')
            # ---- how many digits are read
            ks = [k for k in range(1, 41) if outcome(f, '0' * k)[0] == 'v']
            if ks and ks == list(range(1, ks[-1] + 1)):
                t['max_digits'][base] = ks[-1]
        g, o = writer(base)
        if g is not None:
            # ---- the wrap of a negative number in the destination
            r = outcome(g, -1) if o == 'dec' else None
            w = None
            if r is not None and r[0] == 'v' and isinstance(r[1], str):
                try:
                    v = int(r[1], RADIX[base])
                    if v > 0 and (v + 1) & v == 0:
                        w = (v + 1).bit_length() - 1
                except ValueError:
                    pass
            if w is None:
                w = fallback_constant('BIT_WIDTHS', base)
                if w is not None:
                    t['notes'].append(f'{base}: wrap width from the module constant')
            if w is not None:
                t['widths'][base] = w

    # ---- the accepted integers of every conversion, by bisection
    for (o, d), f in sorted(by_pair.items(), key=lambda kv: (ORDER.index(kv[0][0]), ORDER.index(kv[0][1]))):
        if o == 'dec':
            def accepted(n, f=f):
                return outcome(f, n)[0] == 'v'
            top, bottom = 1 << 70, -(1 << 70)
        else:
            def accepted(n, f=f, o=o):
                return outcome(f, ref_digits(o, n))[0] == 'v'
            top, bottom = (1 << (NOMINAL_BITS[o] - 1)) - 1, -(1 << (NOMINAL_BITS[o] - 1))
        if not accepted(0):
            t['notes'].append(f'{o}->{d}: 0 is not accepted')
            continue
        hi = bisect_largest(accepted, 0, top)
        lo = -bisect_largest(lambda m: accepted(-m), 0, -bottom)
        t['bounds'].append((o, d, lo, hi))

    # ---- places
    ranges = set()
    for name, o, d, takes in t['wrappers']:
        if not takes:
            continue
        f = F[name]
        arg = 0 if o == 'dec' else '0'
        ok = [p for p in range(-3, 16) if outcome(f, arg, p)[0] == 'v']
        if ok and ok == list(range(ok[0], ok[-1] + 1)):
            ranges.add((ok[0], ok[-1]))
        else:
            ranges.add(None)
    if len(ranges) == 1 and None not in ranges:
        t['places_min'], t['places_max'] = next(iter(ranges))
    elif ranges:
        t['notes'].append(f'places ranges differ between functions: {sorted(map(str, ranges))}')
        first = [r for r in ranges if r is not None]
        if first:
            t['places_min'], t['places_max'] = sorted(first)[0]

    # ---- upper case, and a negative result keeps its digits whatever `places` says
    outs = []
    for name, o, d, takes in t['wrappers']:
        if d == 'dec':
            continue
        f = F[name]
        neg = -1 if o == 'dec' else ref_digits(o, -1)
        pos = (171 if o != 'bin' else 5) if o == 'dec' else ref_digits(o, 171 if o != 'bin' else 5)
        for r in (outcome(f, neg), outcome(f, pos)):
            if r[0] == 'v' and isinstance(r[1], str):
                outs.append(r[1])
        if takes:
            if outcome(f, neg, 3) != outcome(f, neg) or outcome(f, neg)[0] != 'v':
                t['neg_keeps'] = False
    t['upper'] = bool(outs) and all(s == s.upper() for s in outs)
    if not any(takes for _, _, _, takes in t['wrappers']):
        t['neg_keeps'] = False
    return t


def digest(t):
    """the string digest the Lean driver prints for `C19 TABLES` (twin of Drv/C19.lean `tables`)"""
    def by_base(d):
        return ','.join(f'{k}:{d[k]}' for k in ORDER if k in d)
    return {
        'digits': by_base({k: '.'.join(str(ord(c)) for c in v) for k, v in t['digits'].items()}),
        'percharacter': 'true' if t['per_character'] else 'false',
        'bases': by_base(t['bases']),
        'signwidths': by_base(t['sign_widths']),
        'widths': by_base(t['widths']),
        'maxdigits': by_base(t['max_digits']),
        'bounds': ','.join(f'{o}>{d}:{lo}..{hi}' for o, d, lo, hi in t['bounds']),
        'places': f"{t['places_min']}..{t['places_max']}",
        'upper': 'true' if t['upper'] else 'false',
        'negkeeps': 'true' if t['neg_keeps'] else 'false',
        'wrappers': ','.join(f'{n}:{o}>{d}' + ('+p' if p else '') for n, o, d, p in t['wrappers']),
    }


def emit():
    t = probe_tables()

    def by_base(d, f):
        return [f'(.{k}, {f(d[k])})' for k in ORDER if k in d]

    def integer(z):
        return f'({int(z)} : Int)'

    digits = by_base(t['digits'], chars)
    bases = by_base(t['bases'], lambda v: str(int(v)) if v >= 0 else '0')
    sign_widths = by_base(t['sign_widths'], integer)
    widths = by_base(t['widths'], integer)
    max_digits = by_base(t['max_digits'], lambda v: str(int(v)))
    bounds = [f'(.{o}, .{d}, {integer(lo)}, {integer(hi)})' for o, d, lo, hi in t['bounds']]
    wrappers = [f'({chars(n)}, .{o}, .{d}, {"true" if p else "false"})' for n, o, d, p in t['wrappers']]
    notes = ''.join(f'-- probe note: {n}\n' for n in t['notes'])
    b = lambda x: 'true' if x else 'false'   # noqa: E731

    body = f'''{notes}namespace XlVerif.Gen.C19Eng
/-- The sides of a conversion: the bases `bin`, `oct`, `hex` and decimal numbers. -/
inductive EBase | bin | oct | dec | hex
  deriving DecidableEq, Repr, Inhabited
/-- Per base: the characters a digit string may consist of (every character X2DEC does not refuse with
    #NUM!, out of a universe of ~1500 code points; sorted by code point). -/
def permittedDigits : List (EBase × List Char) := {lst(digits, 'EBase × List Char')}
/-- Digit validation is per character: a two-character text passes iff both characters are permitted. -/
def digitsPerCharacter : Bool := {b(t['per_character'])}
/-- Per base: the radix digit strings are read in (X2DEC("10")). -/
def baseNumbers : List (EBase × Nat) := {lst(bases, 'EBase × Nat')}
/-- Per origin base: width w such that bit w−1 of a digit string is the sign. -/
def signWidths : List (EBase × Int) := {lst(sign_widths, 'EBase × Int')}
/-- Per destination base: width w such that a negative number is written as its value + 2^w. -/
def bitWidths : List (EBase × Int) := {lst(widths, 'EBase × Int')}
/-- Per origin base: the largest number of digits that is read. -/
def maxDigits : List (EBase × Nat) := {lst(max_digits, 'EBase × Nat')}
/-- Per conversion (origin, destination): the smallest and the largest integer that is converted. -/
def bounds : List (EBase × EBase × Int × Int) := {lst(bounds, 'EBase × EBase × Int × Int')}
/-- The accepted `places` values. -/
def placesMin : Int := {integer(t['places_min'])}
def placesMax : Int := {integer(t['places_max'])}
/-- Digits are written in upper case. -/
def upperCase : Bool := {b(t['upper'])}
/-- A negative result keeps its digits whatever (valid) `places` says. -/
def negativeKeepsDigits : Bool := {b(t['neg_keeps'])}
/-- What each registered name converts: name, origin, destination, takes `places`? -/
def wrappers : List (List Char × EBase × EBase × Bool) := {lst(wrappers, 'List Char × EBase × EBase × Bool')}
end XlVerif.Gen.C19Eng
'''
    return {'C19Eng': body}
