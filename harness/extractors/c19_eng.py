"""C19: the tables of xlcalculator/xlfunctions/engineering.py, read from the *running* module.

PERMITTED_DIGITS, BIT_WIDTHS, BASE_NUMBERS are dictionaries keyed by the builtins `bin`, `oct`, `hex`;
BOUNDS is keyed by frozensets of two of {bin, oct, hex, "dec"}.  Keys are printed as constructors of
`Gen.C19Eng.EBase`; an unknown key (a renamed base) makes the extractor fail, which the check reports
as a broken tie.  Rows are printed in a canonical order (bin < oct < dec < hex, characters by code
point) so that a formatting-only rewrite of the source does not change the generated file.
"""
from ._lean import chars, lst

ORDER = ['bin', 'oct', 'dec', 'hex']


def emit():
    import importlib
    eng = importlib.import_module('xlcalculator.xlfunctions.engineering')
    names = {bin: 'bin', oct: 'oct', hex: 'hex', eng.dec: 'dec'}

    def key(k):
        if k not in names:
            raise ValueError(f'engineering.py: unknown base key {k!r}')
        return names[k]

    def by_base(d, what):
        if not isinstance(d, dict):
            raise ValueError(f'engineering.{what} is not a dict')
        rows = [(key(k), v) for k, v in d.items()]
        return sorted(rows, key=lambda r: ORDER.index(r[0]))

    digits = [f'(.{k}, {chars("".join(sorted(str(c) for c in v)))})'
              for k, v in by_base(eng.PERMITTED_DIGITS, 'PERMITTED_DIGITS')]
    for _, v in by_base(eng.PERMITTED_DIGITS, 'PERMITTED_DIGITS'):
        if any(not (isinstance(c, str) and len(c) == 1) for c in v):
            raise ValueError('PERMITTED_DIGITS holds something that is not a single character')
    widths = []
    for k, v in by_base(eng.BIT_WIDTHS, 'BIT_WIDTHS'):
        if not (isinstance(v, int) and not isinstance(v, bool)):
            raise ValueError(f'BIT_WIDTHS[{k}] is not an int')
        widths.append(f'(.{k}, ({int(v)} : Int))')
    bases = []
    for k, v in by_base(eng.BASE_NUMBERS, 'BASE_NUMBERS'):
        if not (isinstance(v, int) and not isinstance(v, bool) and v >= 0):
            raise ValueError(f'BASE_NUMBERS[{k}] is not a natural number')
        bases.append(f'(.{k}, {int(v)})')
    bounds = []
    for fs, v in eng.BOUNDS.items():
        ks = sorted((key(k) for k in fs), key=ORDER.index)
        if len(ks) == 1:
            ks = ks * 2
        if len(ks) != 2:
            raise ValueError(f'BOUNDS key {fs!r} is not a set of one or two bases')
        if not (isinstance(v, int) and not isinstance(v, bool)):
            raise ValueError(f'BOUNDS[{fs!r}] is not an int')
        bounds.append((ORDER.index(ks[0]), ORDER.index(ks[1]), f'(.{ks[0]}, .{ks[1]}, ({int(v)} : Int))'))
    bounds = [b[2] for b in sorted(bounds)]

    # which (origin, destination) pair each registered wrapper passes to convert_bases: read from the
    # running functions by calling them with convert_bases replaced by a recorder
    wrappers = []
    from xlcalculator.xlfunctions import xl
    import xlcalculator  # noqa: F401
    seen = {}
    real_cb = eng.convert_bases

    def recorder(number, origin, destination, places=None):
        seen['call'] = (key(origin), key(destination), places is not None)
        return 0 if key(destination) == 'dec' else '0'
    for fname in ['BIN2DEC', 'BIN2HEX', 'BIN2OCT', 'DEC2BIN', 'DEC2HEX', 'DEC2OCT',
                  'HEX2BIN', 'HEX2DEC', 'HEX2OCT', 'OCT2BIN', 'OCT2DEC', 'OCT2HEX']:
        f = xl.FUNCTIONS.get(fname)
        if f is None or getattr(f, '__module__', '').rsplit('.', 1)[-1] != 'engineering':
            continue        # absence is reported by the registry obligation in Props/C19
        seen.clear()
        eng.convert_bases = recorder
        try:
            f(0)
        finally:
            eng.convert_bases = real_cb
        if 'call' not in seen:
            raise ValueError(f'{fname} does not call convert_bases')
        o, d, hp = seen['call']
        wrappers.append(f'({chars(fname)}, .{o}, .{d}, {"true" if hp else "false"})')

    body = f'''namespace XlVerif.Gen.C19Eng
/-- The keys of the engineering tables: the builtins `bin`, `oct`, `hex` and the string `"dec"`. -/
inductive EBase | bin | oct | dec | hex
  deriving DecidableEq, Repr, Inhabited
/-- `PERMITTED_DIGITS`: base, its set of characters (sorted by code point). -/
def permittedDigits : List (EBase × List Char) := {lst(digits)}
/-- `BIT_WIDTHS`. -/
def bitWidths : List (EBase × Int) := {lst(widths)}
/-- `BASE_NUMBERS`. -/
def baseNumbers : List (EBase × Nat) := {lst(bases)}
/-- `BOUNDS`: the two members of the frozenset key (ordered bin < oct < dec < hex), the bound. -/
def bounds : List (EBase × EBase × Int) := {lst(bounds)}
/-- What each registered wrapper hands to `convert_bases`: name, origin, destination, passes `places`? -/
def wrappers : List (List Char × EBase × EBase × Bool) := {lst(wrappers)}
end XlVerif.Gen.C19Eng
'''
    return {'C19Eng': body}
