#!/usr/bin/env python3
"""Rewrite the generated block of DESIGN.md (§0.3–§0.5) from known_findings.json, seeded/*/meta.json and the
evidence files."""
import json
import re
import subprocess
from pathlib import Path

VERIF = Path(__file__).resolve().parent.parent
BEGIN, END = '<!-- BEGIN GENERATED TABLES -->', '<!-- END GENERATED TABLES -->'


def main():
    kf = json.loads((VERIF / 'known_findings.json').read_text())['findings']
    log = subprocess.run(['git', '-C', '/repo', 'log', '--format=%h\t%s'], capture_output=True, text=True).stdout
    subjects = dict(l.split('\t', 1) for l in log.splitlines() if '\t' in l)
    out = [BEGIN, '']
    out.append('### 0.3 Repairs committed to /repo (`fix:` commits)\n')
    out.append('Each is one minimal unguarded commit; the unedited suite gives the baseline result (815 passed, the same 12 '
               'failures) with it. The check of the property models the repaired code and reports a VIOLATION if the defect '
               'returns (a `fixed` entry suppresses nothing).\n')
    out.append('| finding | property | commit | what failed | witness |')
    out.append('|---|---|---|---|---|')
    seen = set()
    for e in sorted((e for e in kf if e['status'] == 'fixed'), key=lambda e: (e['property'], e['id'])):
        c = e.get('commit', '')
        out.append(f"| {e['id']} | {e['property']} | `{c}` {subjects.get(c, '')[:70]} | {e['what'][:160]} | `{e['witness'][:60]}` |")
        seen.add(c)
    other = [f'`{h}` {s}' for h, s in subjects.items() if s.startswith('fix:') and h not in seen]
    if other:
        out.append('\nfix: commits not referenced by a finding entry: ' + '; '.join(other))
    out.append('\n### 0.4 Known findings kept (printed as `KNOWN-FINDING` lines; the check exits 0)\n')
    out.append('A finding is kept when its repair is not small and safe or would change the unedited suite. It is identified '
               'by its witness region AND the modelled wrong behaviour: any other failure of the same property is still a '
               'VIOLATION.\n')
    out.append('| finding | property | what fails | witness |')
    out.append('|---|---|---|---|')
    for e in sorted((e for e in kf if e['status'] == 'known'), key=lambda e: (e['property'], e['id'])):
        out.append(f"| {e['id']} | {e['property']} | {e['what'][:260]} | `{e['witness'][:70]}` |")
    out.append('\n### 0.5 Seeded changes (written by independent sub-agents from the property text alone) and which check catches them\n')
    out.append('Each was confirmed by the coordinator (demo passes on the clean tree and fails with the patch; unedited suite '
               'unchanged) and then run against the property\'s quick check with `harness/seedtest.sh`.\n')
    out.append('| seed | property | change | needs | result of the check |')
    out.append('|---|---|---|---|---|')
    for d in sorted((VERIF / 'seeded').glob('*/meta.json')):
        m = json.loads(d.read_text())
        note = (' — ' + m['note']) if m.get('note') else ''
        out.append(f"| {d.parent.name} | {m.get('property', '')} | {m.get('title', '')[:110]} | {str(m.get('needs', ''))[:150]} | "
                   f"{m.get('check_result', '')[:140]}{note[:220]} |")
    out.append('\n### 0.6 Per-property summary (from the last evidence files)\n')
    out.append('| property | obligations (theorems+examples) | discharged | correspondence cases | non-trivial | tier of last run | wall s |')
    out.append('|---|---|---|---|---|---|---|')
    for f in sorted((VERIF / 'evidence').glob('C*.json')):
        ev = json.loads(f.read_text())
        c = ev['coverage']
        out.append(f"| {ev['property_id']} | {c.get('obligations')} | {c.get('discharged')} | {c.get('evaluations')} | "
                   f"{c.get('distinct_nontrivial')} | {ev['tier']} | {ev['wall_s']} |")
    out += ['', END]
    p = VERIF / 'DESIGN.md'
    s = p.read_text()
    block = '\n'.join(out)
    if BEGIN in s:
        s = re.sub(re.escape(BEGIN) + r'.*?' + re.escape(END), lambda m: block, s, flags=re.S)
    else:
        a = s.index('### 0.3 Repairs committed')
        b = s.index('---------------------------------------------------------------------------------------------\n\n## 1.')
        s = s[:a] + block + '\n\n' + s[b:]
    p.write_text(s)
    print('DESIGN.md tables regenerated')


if __name__ == '__main__':
    main()
