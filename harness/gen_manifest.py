#!/usr/bin/env python3
"""Regenerate MANIFEST.json from the table below (keeps the file valid at all times)."""
import json
import os
import subprocess
from pathlib import Path

VERIF = Path(__file__).resolve().parent.parent
TECH = ('Lean 4 model + kernel-checked theorems (unbounded) + regenerated tables + differential '
        'correspondence against the running code')

# property id -> (level text, level note, design ref)
CLAIMED = {
    'C17': ('Lean theorems over a statement-by-statement model of text.py: closed forms of LEFT/RIGHT/MID/'
            'REPLACE for every text, position and count; FIND is the first occurrence >= start; the five '
            'algebraic laws of the statement, clipping, zero counts and the error cases. The model is tied to '
            'the running code by an exhaustive small-domain plus random differential run (direct calls and '
            'through formulas).',
            'Trusted: Lean kernel (axioms propext, Classical.choice, Quot.sound), the hand-written model '
            '(validated by correspondence, not proved equal to the Python), Python str.upper/lower for '
            'non-ASCII, argument coercion (C08).', '§4 C17'),
}

NOT_YET = 'check not built yet in this session (framework under construction); see DESIGN.md §4'


def main():
    props = [json.loads(l) for l in (VERIF / 'properties.jsonl').read_text().splitlines() if l.strip()]
    commits = subprocess.run(['git', '-C', '/repo', 'log', '--format=%h %s'], capture_output=True,
                             text=True).stdout.splitlines()
    checks, na = [], []
    for p in props:
        pid = p['id']
        if pid in CLAIMED and (VERIF / 'harness' / 'props' / f'{pid.lower()}.py').exists():
            text, note, ref = CLAIMED[pid]
            checks.append({
                'property_id': pid,
                'quick_cmd': f'./check {pid} --tier quick',
                'thorough_cmd': f'./check {pid} --tier thorough',
                'evidence_file': f'evidence/{pid}.json',
                'replay_cmd_template': f'./check {pid} --replay {{path}}',
                'engine': 'xlverif',
                'level_claimed': {'category': 'proof', 'text': text, 'design_ref': ref},
                'level_note': note,
                'technique': TECH,
            })
        else:
            na.append({'property_id': pid, 'reason': NOT_YET})
    manifest = {
        'version': 1,
        'setup_cmd': './setup.sh',
        'hooks': {
            'guard': 'XLCALCULATOR_VERIF',
            'enable': 'no source hooks are used: every observable is reached through the public API',
            'baseline_off_cmd': 'cd /repo && /venv/bin/python -m pytest -ra -q -p no:cacheprovider '
                                '--timeout=900 --continue-on-collection-errors',
            'source_commits': [],
            'add_only': True,
        },
        'engines': [
            {'name': 'xlverif', 'path': 'lean/ + harness/',
             'serves_properties': [c['property_id'] for c in checks],
             'kind_free_text': 'Lean 4 Lake project (models, specs, theorems, line-protocol driver) + Python '
                               'harness (translator extract.py, differential correspondence, audit)'}],
        'checks': checks,
        'not_applicable': na,
        'notes': 'fix: commits in /repo (genuine defects repaired): ' +
                 '; '.join(c for c in commits if ' fix: ' in c)[:6000],
    }
    (VERIF / 'MANIFEST.json').write_text(json.dumps(manifest, indent=1) + '\n')
    print(f'MANIFEST.json: {len(checks)} checks, {len(na)} not_applicable')


if __name__ == '__main__':
    main()
