#!/usr/bin/env python3
"""Regenerate MANIFEST.json from the table below (keeps the file valid at all times)."""
import json
import os
import subprocess
from pathlib import Path

VERIF = Path(__file__).resolve().parent.parent
TECH = ('Lean 4 model + kernel-checked theorems (unbounded) + regenerated tables + differential '
        'correspondence against the running code')



def module_consts(path):
    """LEVEL_TEXT / LEVEL_NOTE / DESIGN_REF string constants of a property module (read with ast, so
    the module is not imported)."""
    import ast
    out = {}
    tree = ast.parse(path.read_text())
    for node in tree.body:
        if isinstance(node, ast.Assign) and len(node.targets) == 1 and isinstance(node.targets[0], ast.Name):
            try:
                out[node.targets[0].id] = ast.literal_eval(node.value)
            except Exception:
                pass
    return out


NOT_YET = 'check not built yet in this session (framework under construction); see DESIGN.md §4'


def main():
    props = [json.loads(l) for l in (VERIF / 'properties.jsonl').read_text().splitlines() if l.strip()]
    commits = subprocess.run(['git', '-C', '/repo', 'log', '--format=%h %s'], capture_output=True,
                             text=True).stdout.splitlines()
    checks, na = [], []
    for p in props:
        pid = p['id']
        mod = VERIF / 'harness' / 'props' / f'{pid.lower()}.py'
        consts = module_consts(mod) if mod.exists() else {}
        if consts.get('LEVEL_TEXT') and consts.get('CLAIM', True):
            text, note, ref = consts['LEVEL_TEXT'], consts.get('LEVEL_NOTE', ''), consts.get('DESIGN_REF', '')
            if consts.get('TRANSPORT'):
                tmod, tnames = consts['TRANSPORT']
                text += (' Transport to formula TEXTS in a compiled workbook (tokenizer -> parser -> compile -> evaluator, the '
                         'integrated pipeline model): ' + tmod.split('.')[-1] + '.' + ', '.join(tnames) + ' in lean/XlVerif/Props/X01.lean, '
                         're-built and audited by this check and counted as obligations when they check (that module depends on every '
                         "property's model: if it does not build, the evidence says so and this property's own theorems and "
                         'formula-route correspondence decide).')
            checks.append({
                'property_id': pid,
                'quick_cmd': f'./check {pid} --tier quick',
                'thorough_cmd': f'./check {pid} --tier thorough',
                'evidence_file': f'evidence/{pid}.json',
                'replay_cmd_template': f'./check {pid} --replay {{path}}',
                'engine': 'xlverif',
                'level_claimed': {'category': 'proof', 'text': text, 'design_ref': ref},
                'level_note': note,
                'technique': TECH,
            })
        else:
            na.append({'property_id': pid, 'reason': consts.get('NOT_APPLICABLE_REASON', NOT_YET)})
    manifest = {
        'version': 1,
        'setup_cmd': './setup.sh',
        'hooks': {
            'guard': 'XLCALCULATOR_VERIF',
            'enable': 'no source hooks are used: every observable is reached through the public API',
            'baseline_off_cmd': 'cd /repo && /venv/bin/python -m pytest -ra -q -p no:cacheprovider '
                                '--timeout=900 --continue-on-collection-errors',
            'source_commits': [],
            'add_only': True,
        },
        'engines': [
            {'name': 'xlverif', 'path': 'lean/ + harness/',
             'serves_properties': [c['property_id'] for c in checks],
             'kind_free_text': 'Lean 4 Lake project (models, specs, theorems, line-protocol driver) + Python '
                               'harness (translator extract.py, differential correspondence, audit)'}],
        'checks': checks,
        'not_applicable': na,
        'notes': 'fix: commits in /repo (genuine defects repaired): ' +
                 '; '.join(c for c in commits if ' fix: ' in c)[:6000],
    }
    (VERIF / 'MANIFEST.json').write_text(json.dumps(manifest, indent=1) + '\n')
    print(f'MANIFEST.json: {len(checks)} checks, {len(na)} not_applicable')


if __name__ == '__main__':
    main()
