#!/usr/bin/env python3
"""import_seed.py <Cxx> <k> "<verdict line>" [note]  — copy a confirmed seeded change from /tmp/seed/Cxx_out into
/verif/seeded/Cxx-k/ (patch.diff, demo.py, meta.json)."""
import json
import shutil
import sys
from pathlib import Path

prop, k, verdict = sys.argv[1], sys.argv[2], sys.argv[3]
note = sys.argv[4] if len(sys.argv) > 4 else ''
src = Path(f'/tmp/seed/{prop}_out')
dst = Path(__file__).resolve().parent.parent / 'seeded' / f'{prop}-{k}'
dst.mkdir(parents=True, exist_ok=True)
shutil.copy(src / f'mutant{k}.diff', dst / 'patch.diff')
shutil.copy(src / f'demo{k}.py', dst / 'demo.py')
meta = json.loads((src / f'meta{k}.json').read_text())
meta['confirmed'] = ('demo passes on the clean tree and fails with the patch; unedited suite unchanged '
                     '(12 failed, 815 passed); confirmed by the coordinator with harness/seedtest.sh in a scratch '
                     'worktree')
meta['check_result'] = verdict
if note:
    meta['note'] = note
meta['ran'] = f'harness/seedtest.sh {prop} seeded/{prop}-{k}/patch.diff seeded/{prop}-{k}/demo.py quick'
(dst / 'meta.json').write_text(json.dumps(meta, indent=1))
print('imported', dst)
