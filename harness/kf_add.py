#!/usr/bin/env python3
"""kf_add.py <property> <finding id> known|fixed "<what>" "<witness>" [commit]  — add/replace one entry
of known_findings.json under a lock (several agents may edit concurrently)."""
import fcntl
import json
import sys
from pathlib import Path

path = Path(__file__).resolve().parent.parent / 'known_findings.json'
prop, fid, status, what, witness = sys.argv[1:6]
commit = sys.argv[6] if len(sys.argv) > 6 else None
with open(str(path) + '.lock', 'w') as lk:
    fcntl.flock(lk, fcntl.LOCK_EX)
    data = json.loads(path.read_text())
    data['findings'] = [e for e in data['findings'] if not (e['id'] == fid and e['property'] == prop)]
    e = {'id': fid, 'property': prop, 'status': status, 'what': what, 'witness': witness}
    if commit:
        e['commit'] = commit
    data['findings'].append(e)
    path.write_text(json.dumps(data, indent=1))
print('ok', fid)
