"""C01 — formulas evaluate under Excel's operator precedence and associativity (DESIGN.md §4 C01).

For an abstract operator expression `e` (the sub-grammar `inC01` of lean/XlVerif/Spec/C02.lean: numeric
literals, plain cell references, unary minus, the twelve binary operators, written parentheses), a
blank-oracle seed and an assignment of numbers to the cells, the Lean driver returns the formula text
`render (oracle seed) e`, the value `denote e env` the statement gives it (Spec/C01.lean), the value the
Lean model of tokenizer/parser/OperatorNode.eval computes for that text, and the tree the text denotes.
This module puts the text into a cell of a compiled model of the REAL library and compares
`Evaluator.evaluate` with the Spec (the property) and with the model (model validation); on a sample it
also walks the real parse tree (model validation only).
"""
import hashlib
import json
import re
from fractions import Fraction

import common
from common import Result, parse_kv, un_frac
from props import c02 as g
from props.c02 import N, R, U, B, P, mkU, mkB, wire, parse_wire, cps, uncps, level, OPPREC, OPSYM, OPNAMES

LEVEL_TEXT = (
    'Lean theorems (kernel-checked; axioms propext, Classical.choice, Quot.sound): Props.C01.C01 - for '
    'EVERY well-formed operator expression e (numeric literals incl. percent and scientific form, cell references, '
    'written parentheses, unary minus, the twelve binary operators; the grammar Spec.C02.WF carries the precedence '
    'levels u- 7 > % > ^ 5 > * / 4 > + - 3 > & 2 > comparisons 1 and left associativity), EVERY placement of '
    'blanks/newlines b and every assignment of numbers to the cells, evaluateFormula (render b e) = denote e env '
    'for the statement-by-statement model of tokenizer.py, parser.py, OperatorNode/OperandNode/RangeNode.eval and '
    'the operator functions - unbounded, by composing Props.C02.parse_render (text -> tree, character level) with '
    'eval_denote (tree -> value, induction on e; int_of_text: the model\'s int(text) reads every -?digits+ text as the reference reading does, so texts produced by & may flow into arithmetic) and the table obligation op_func_table over the '
    'regenerated INFIX/PREFIX_OP_TO_FUNC maps; C01_div0; C01_parens_blanks_irrelevant (any two renderings that '
    'differ in redundant parentheses and blanks evaluate alike, errors included); the precedence/associativity '
    'statement itself: flat_text, wf_left_iff, wf_right_iff, flat_unique, left_assoc, neg_binds_tightest, '
    'neg_after_operator, prec_order, C01_flat_left, C01_flat_right; kernel-checked counter-example '
    'D3_paren_percent for the known finding. The model is tied to the running code by this differential run '
    'through compiled models (every ordered operator pair and triple exhaustively, comparison ties, #DIV/0! '
    'propagation, deeper trees sampled).')
LEVEL_NOTE = (
    'Full strength: no guard beyond the statement\'s own domain (the former NoTextArith guard is gone: (1&2)+3 = 15 '
    'is inside the theorem). Hypotheses: cells hold numbers, integral ones as Python ints (EnvOK); literals are '
    'finite doubles (LitsFinite). denote is undef - and nothing is claimed - where the statement is silent (text '
    'form of non-integers and booleans under &, non-integral exponents, 0^0, texts that are not -?digits+ in '
    'arithmetic: Excel and dateutil read 1-2 as a date). Trusted: Lean kernel, the hand-written '
    'tokenizer/parser/value-layer/evaluation models (validated by correspondence: 0 value or tree disagreements '
    'on ~5e5 formulas; not proved equal to the Python), the Spec semantics denote as a rendering of Excel\'s '
    'grammar, IEEE double arithmetic (ideal rationals in Lean; floats compared within 1e-9, rounding-sensitive '
    'inputs excluded by the driver\'s sens flag).')
DESIGN_REF = '§4 C01'

# theorems of the integrated pipeline model (Props/X01.lean) that carry this property's theorems to formula TEXTS in a
# compiled workbook; re-built and audited with this check (harness/common.prepare: soft obligations)
TRANSPORT = ('XlVerif.Props.X01', ['compile_operator_formula_denote', 'compile_transparent'])

TRUSTED = [
    'Lean 4 kernel; axioms propext, Classical.choice, Quot.sound only',
    'hand-written models lean/XlVerif/Model/Tokenizer.lean, Model/Parser.lean, Model/Value.lean and Model/C01.lean '
    'of xlcalculator/tokenizer.py, parser.py, ast_nodes.py and the operator functions, tied to the code by this '
    'correspondence run (not proved equal to the Python)',
    'the reference semantics lean/XlVerif/Spec/C01.lean (denote) and the grammar of Spec/C02.lean (Expr, WF, render) '
    'as the meaning of "the value of that expression under Excel\'s grammar"; the rendering without blanks is '
    'cross-checked here against an independent Python renderer',
    'Python float arithmetic (IEEE doubles): the Spec and the model compute with exact rationals',
]
ASSUMPTIONS = [
    'cells hold numbers only (int or float); every referenced cell exists in the model',
    'IEEE rounding is not modelled: the Spec is exact rational arithmetic; a float result of the library is '
    'accepted when |real - spec| <= 1e-9 * max(1, |spec|), an int result must equal the Spec exactly; inputs '
    'whose outcome depends on the rounding of an intermediate float (a comparison, a zero test of a divisor or '
    'an integrality test of an exponent applied to floats closer than 1e-9, e.g. (7/3)*3=7) are flagged `sens` '
    'by the driver, excluded from the value comparison and only counted; sampled trees whose exact intermediate '
    'values exceed 1e7 in magnitude are not generated (cancellation of large floats)',
    'where the statement is silent the Spec answers undef and the input is outside the domain (counted, not '
    'compared): the text form under & of a number that is not an integer by construction (after /, of a '
    'decimal, scientific or percent literal, of a float cell) and of a boolean; a non-integral exponent; 0^0 '
    '(Excel: #NUM!, the library and the usual convention: 1 - property C16 owns POWER); '
    'arithmetic on a text that is not a plain decimal integer (Excel and dateutil read 1-2 as a date)',
    '% only directly after a numeric literal without exponent (a reference or parenthesis followed by % is known '
    'finding D3, outside the generated grammar); scientific literals mE+dd / mE-dd with any decimal numeral m as '
    'mantissa (ddd, ddd.ddd, ddd., .ddd - not only Excel\'s normalised d[.ddd]; repair D0101); '
    'no unary plus, no strings, booleans, error literals or function calls in the formulas',
    'blanks and newlines only where the statement allows them (around operators, parentheses, leading/trailing)',
    'generator caps (not exclusions of the comparison): exponents above 400 and values beyond 1e300 are not '
    'generated - doubles overflow there, and the COMPILED Lean driver panics ("Nat.pow exponent is too big") '
    'when Model/Value.lean\'s float(text) evaluates 10^e for |e| >= 2^24 (e.g. the literal 1E+99999999999); the '
    'theorems are unaffected (they are about the definitions, not the compiled code)',
    'observable 2 (the parse tree) and every model/code comparison are model validation only: a disagreement '
    'there is reported as model drift, never as a violation of C01',
]

ALLOPS = OPNAMES + ['u']              # the 13 operators
TOL = Fraction(1, 10 ** 9)
REL_TOL = Fraction(1, 10 ** 12)         # stream 'tiny' (sums of same-sign terms, products, quotients: no cancellation)
MAG_LIMIT = 10 ** 7                   # sampled trees: largest exact intermediate value generated
FLOAT_LIMIT = 10 ** 300               # every stream: beyond it doubles overflow
EXP_LIMIT = 400                       # every stream: largest exponent generated
BATCH = 50                            # formulas per compiled model
SHEET = 'Sheet1'

ENVS = [
    (('A1', 7), ('B1', 3), ('C1', 2), ('D1', 5)),
    (('A1', -4), ('B1', 6), ('C1', 3), ('D1', 2)),
    (('A1', 2.5), ('B1', 3), ('C1', 2), ('D1', 5)),
]
CELLS = [R('A1'), R('B1'), R('C1'), R('D1')]


def env_wire(env):
    items = []
    for a, v in env:
        if isinstance(v, int):
            items.append('%s~I:%d' % (a, v))
        else:
            q = Fraction(v)
            items.append('%s~F:%d/%d' % (a, q.numerator, q.denominator))
    return '|'.join(items)


def env_of_cells(cells):
    out = []
    for a, v in sorted(cells.items()):
        a = a.split('!')[-1]
        out.append((a, v))
    return tuple(out)


# ------------------------------------------------------------------------------------------ the real code

def _outcome(fn, *args):
    """canonical wire form of the result; an exception -> X:<class> (the RuntimeError the evaluator wraps
    around an exception raised while evaluating is replaced by the original class)"""
    try:
        return common.canon(fn(*args))
    except RecursionError:
        return 'X:RecursionError'
    except Exception as exc:  # noqa: BLE001 - every exception class is an outcome
        inner = exc
        hops = 0
        while isinstance(inner, RuntimeError) and inner.__context__ is not None and hops < 50:
            inner = inner.__context__
            hops += 1
        return 'X:' + type(inner).__name__


def _load(env, texts):
    from xlcalculator import ModelCompiler, Evaluator
    d = {}
    for a, v in env:
        d['%s!%s' % (SHEET, a)] = v
    for i, t in enumerate(texts):
        d['%s!Z%d' % (SHEET, i + 1)] = t
    return Evaluator(ModelCompiler().read_and_parse_dict(d))


class _Timeout(BaseException):
    """raised by the interval timer; a BaseException so that the evaluator's `except Exception` lets it pass"""


def _on_alarm(signum, frame):
    raise _Timeout()


class deadline:
    """a wall-clock limit around calls of the real code (a changed precedence can turn 7^3^2^5 into
    7^(3^(2^5)), an integer of 10^15 digits)"""

    def __init__(self, seconds):
        self.seconds = seconds

    def __enter__(self):
        import signal
        self.old = signal.signal(signal.SIGALRM, _on_alarm)
        signal.setitimer(signal.ITIMER_REAL, self.seconds)

    def __exit__(self, *exc):
        import signal
        signal.setitimer(signal.ITIMER_REAL, 0)
        signal.signal(signal.SIGALRM, self.old)
        return False


def real_eval_one(env, text, limits=(2, 8)):
    def go():
        return _load(env, [text]).evaluate('%s!Z1' % SHEET)
    for lim in limits:
        try:
            with deadline(lim):
                return _outcome(go)
        except _Timeout:
            continue
    return 'X:Timeout'


def real_eval_chunk(job):
    """the values of up to BATCH formulas in one compiled model (all share the cell values); if the model
    cannot be loaded (a tokenizer crash on one text makes the whole model unloadable) or the chunk takes
    unreasonably long: one model per formula"""
    env, texts = job
    try:
        with deadline(10):
            try:
                ev = _load(env, texts)
            except Exception:  # noqa: BLE001
                ev = None
            if ev is not None:
                return [_outcome(ev.evaluate, '%s!Z%d' % (SHEET, i + 1)) for i in range(len(texts))]
    except _Timeout:
        pass
    return [real_eval_one(env, t) for t in texts]


# ------------------------------------------------------------------------------------------ comparison

def meets_spec(spec, real, relative=False):
    if spec.startswith('F:'):
        q = un_frac(spec[2:])
        if real.startswith('I:'):
            return Fraction(int(real[2:])) == q
        if real.startswith('F:'):
            if relative:        # streams without cancellation: every float operation is exact to half an ulp
                return abs(un_frac(real[2:]) - q) <= REL_TOL * abs(q)
            return abs(un_frac(real[2:]) - q) <= TOL * max(1, abs(q))
        return False
    return spec == real


def same_outcome(impl, real):
    """model value vs real value: numbers numerically (same tolerance), everything else exactly"""
    if impl == real:
        return True
    a, b = common.num_value(impl), common.num_value(real)
    if a is None or b is None:
        return False
    if impl[0] != real[0]:           # int vs float
        return False
    return abs(a - b) <= TOL * max(1, abs(b))


def kind_of(w):
    return {'I': 'number', 'F': 'number', 'T': 'text', 'B': 'bool', 'E': 'error', 'X': 'exception',
            'N': 'nonfinite', 'Z': 'blank', 'U': 'undef'}.get(w[:1], 'other')


# ------------------------------------------------------------------------------------------ expression helpers

def ops_of(e, out):
    k = e[0]
    if k == 'u':
        out.append('u')
        ops_of(e[1], out)
    elif k == 'p':
        ops_of(e[1], out)
    elif k == 'b':
        out.append(e[1])
        ops_of(e[2], out)
        ops_of(e[3], out)
    return out


def redundant(e, leaves, subs, whole, top=True):
    """extra written parentheses: around every leaf / around every proper operator subtree / around the whole"""
    k = e[0]
    if k in ('n', 'r'):
        x = P(e) if leaves else e
        return P(x) if (top and whole) else x
    if k == 'p':
        x = P(redundant(e[1], leaves, subs, False, False))
    elif k == 'u':
        x = U(redundant(e[1], leaves, subs, False, False))
        if subs and not top:
            x = P(x)
    else:
        x = B(e[1], redundant(e[2], leaves, subs, False, False), redundant(e[3], leaves, subs, False, False))
        if subs and not top:
            x = P(x)
    return P(x) if (top and whole) else x


RED_STYLES = [('leaves', (True, False, False)), ('subtrees', (False, True, False)), ('whole', (False, False, True)),
              ('all', (True, True, True))]


def lit_value(e):
    digits = e[1] + (e[2] or '')
    q = Fraction(int(digits)) * Fraction(10) ** ((int(e[3]) if e[3] is not None else 0) - len(e[2] or ''))
    return q / 100 if e[4] else q


INTTEXT = re.compile(r'-?[0-9]+\Z')


def rough(e, env, mag):
    """generator-side estimate (NOT part of any verdict): the exact value of a subexpression where it is a
    number / integer text / boolean, else None; mag[0] = the largest magnitude of a numeric value met, mag[1]
    = the largest magnitude of an exponent.  Used only to keep the generated formulas free of huge
    intermediate values (float overflow; the compiled driver cannot raise to exponents >= 2^24)."""
    k = e[0]
    if k == 'n':
        v = lit_value(e)
    elif k == 'r':
        v = Fraction(dict(env)[e[3]])
    elif k == 'p':
        return rough(e[1], env, mag)
    elif k == 'u':
        v = _num(rough(e[1], env, mag))
        v = None if v is None else -v
    else:
        op = e[1]
        l, r = rough(e[2], env, mag), rough(e[3], env, mag)
        if op == 'cat':
            tl, tr = _txt(l), _txt(r)
            return None if tl is None or tr is None else tl + tr
        if OPPREC[op] == 1:
            kl, kr = _key(l), _key(r)
            if kl is None or kr is None:
                return None
            return {'eq': kl == kr, 'ne': kl != kr, 'lt': kl < kr, 'gt': kl > kr, 'le': kl <= kr, 'ge': kl >= kr}[op]
        a, b = _num(l), _num(r)
        if op == 'pow' and b is not None and abs(b) > mag[1]:
            mag[1] = abs(b)
        if a is None or b is None:
            return None
        if op == 'add':
            v = a + b
        elif op == 'sub':
            v = a - b
        elif op == 'mul':
            v = a * b
        elif op == 'div':
            if b == 0:
                return None
            v = a / b
        else:
            if b.denominator != 1 or (a == 0 and b < 0):
                return None
            if abs(b) * max(a.numerator.bit_length(), a.denominator.bit_length()) > 4000:
                mag[0] = float('inf')
                return None
            v = a ** int(b)
    if isinstance(v, Fraction) and abs(v) > mag[0]:
        mag[0] = abs(v)
    return v


def _num(v):
    if isinstance(v, bool):
        return Fraction(int(v))
    if isinstance(v, Fraction):
        return v
    if isinstance(v, str) and INTTEXT.match(v):
        return Fraction(int(v))
    return None


def _key(v):
    if isinstance(v, bool):
        return (2, int(v))
    if isinstance(v, Fraction):
        return (0, v)
    if isinstance(v, str):
        return (1, v.upper())
    return None


def _txt(v):
    if isinstance(v, str):
        return v
    if isinstance(v, Fraction) and not isinstance(v, bool) and v.denominator == 1:
        return str(v.numerator)
    return None


# ------------------------------------------------------------------------------------------ the checker

class Checker:
    def __init__(self, ctx, res, workers=0):
        self.ctx, self.res = ctx, res
        self.buf = []
        self.nviol = 0
        self.ndrift = 0
        self.ncase = 0
        self.pool = None
        self.workers = workers
        self.opcount = {}
        self.per_stream = {}
        self.timeouts = []
        self.odd = []

    def add(self, stream, seed, e, env, limit=FLOAT_LIMIT):
        mag = [Fraction(0), Fraction(0)]
        rough(e, env, mag)
        if mag[1] > EXP_LIMIT or mag[0] > limit:
            self.res.count('not-generated:%s(%s)' % (stream, 'exponent above %d' % EXP_LIMIT if mag[1] > EXP_LIMIT
                                                     else 'intermediate value above %.0e' % limit))
            return False
        self.buf.append((stream, seed, e, wire(e), env))
        if len(self.buf) >= 20000:
            self.flush()
        return True

    def _map(self, jobs):
        if self.workers > 1 and len(jobs) >= 4 * self.workers:
            if self.pool is None:
                import multiprocessing
                self.pool = multiprocessing.get_context('fork').Pool(self.workers)
            return self.pool.map(real_eval_chunk, jobs, chunksize=4)
        return [real_eval_chunk(j) for j in jobs]

    def flush(self):
        buf, self.buf = self.buf, []
        if not buf:
            return
        lines = ['C01\teval\t%d\t%s\t%s' % (seed, w, env_wire(env)) for _, seed, _, w, env in buf]
        resp = self.ctx.driver.batch(lines, timeout=1200)
        ds = []
        by_env = {}
        for i, ((stream, seed, e, w, env), r) in enumerate(zip(buf, resp)):
            d = parse_kv(r)
            if 'text' not in d or 'spec' not in d or 'impl' not in d or 'tree' not in d:
                raise RuntimeError(f'driver answered {r[:200]!r} for expr {w[:300]!r} seed {seed}')
            if d.get('wf') != '1':
                raise RuntimeError(f'the generator produced an expression the Spec calls ill-formed: {w[:400]!r}')
            if d.get('dom') != '1':
                raise RuntimeError(f'the generator produced an expression outside the grammar of C01: {w[:400]!r}')
            text = uncps(d['text'])
            mine = g.render0(e)
            if seed == 0:
                if text != mine:
                    raise RuntimeError(f'Spec render differs from the independent renderer: {text!r} vs {mine!r}')
            else:
                if text.replace(' ', '').replace('\n', '') != mine.replace(' ', '').replace('\n', ''):
                    raise RuntimeError(f'Spec render (seed {seed}) differs from the independent renderer beyond '
                                       f'blanks: {text!r} vs {mine!r}')
                if seed in (1, 2):
                    b = ' ' if seed == 1 else '\n'
                    if not (text.startswith('=' + b) and text.endswith(b)):
                        raise RuntimeError(f'Spec render with seed {seed} has no leading/trailing blank: {text!r}')
            d['_text'] = text
            ds.append(d)
            by_env.setdefault(env, []).append(i)
        jobs, where = [], []
        for env, idx in by_env.items():
            for j in range(0, len(idx), BATCH):
                part = idx[j:j + BATCH]
                jobs.append((env, [ds[i]['_text'] for i in part]))
                where.append(part)
        reals = [None] * len(buf)
        for part, vals in zip(where, self._map(jobs)):
            for i, v in zip(part, vals):
                reals[i] = v
        for item, d, real in zip(buf, ds, reals):
            self.check_one(item, d, real)

    def check_one(self, item, d, real):
        stream, seed, e, w, env = item
        res = self.res
        text, spec, impl = d['_text'], d['spec'], d['impl']
        sens = d.get('sens') == '1'
        self.ncase += 1
        res.evaluations += 1
        ops = ops_of(e, [])
        st = self.per_stream.setdefault(stream, {'cases': 0, 'undef': 0, 'sens': 0})
        st['cases'] += 1
        res.count('blanks:' + (str(seed) if seed < 3 else 'random'))
        for o in ops:
            self.opcount[o] = self.opcount.get(o, 0) + 1
        res.count('operators-per-formula:' + (str(len(ops)) if len(ops) < 4 else '4-7' if len(ops) < 8
                                              else '8-15' if len(ops) < 16 else '16+'))
        if len(ops) >= 2:
            res.nontrivial.add(hashlib.blake2b(text.encode(), digest_size=8).digest())
        if len(text) <= 60 and self.ncase % 997 == 5:
            res.sample({'formula': text, 'cells': dict(env), 'spec': spec, 'real': real}, limit=12)
        inp = {'formula': text, 'cells': {'%s!%s' % (SHEET, a): v for a, v in env}, 'expr': w, 'seed': seed,
               'stream': stream}
        compared = spec != 'U' and not sens
        if real == 'X:Timeout':
            # infrastructure, not a verdict: reported at the end (see `finish`)
            self.timeouts.append(inp)
            res.count('real-evaluation-timeout')
            return
        if spec == 'U':
            st['undef'] += 1
            res.count('outside_domain:spec-undef(' + kind_of(real) + ')')
            if real.startswith('X:') and len(self.odd) < 5:
                self.odd.append(f'{text!r} cells {dict(env)} -> {real}')
        elif sens:
            st['sens'] += 1
            res.count('outside_domain:rounding-sensitive')
        else:
            res.count('outcome:' + kind_of(spec.replace('F:', 'I:', 1)))
        if compared and not meets_spec(spec, real, relative=(stream == 'tiny')):
            if real.startswith('X:'):
                what = 'evaluating an operator formula raised ' + real[2:]
            elif spec.startswith('E:'):
                what = 'an operator formula whose value is ' + common.WIRE_CODE.get(spec[2:], spec) + \
                       ' evaluated to something else'
            else:
                what = 'an operator formula evaluated to a value other than the one Excel\'s grammar gives it'
            self.violation({'what': what, 'input': inp, 'expected': spec, 'got': real})
        elif compared and not same_outcome(impl, real):
            self.drift({'kind': 'value', 'stream': stream, 'formula': text, 'cells': dict(env), 'expr': w,
                        'seed': seed, 'impl_model': impl, 'real': real, 'spec': spec})
        elif not compared and not same_outcome(impl, real):
            res.count('model-differs-outside-domain(expected: Ext placeholders / rounding)')
        # observable 2: the parse tree (model validation only), on a sample
        if self.ncase % 5 == 0 or stream == 'regression':
            rt = g.real_tree(text)
            res.count('tree-walk-compared')
            if not g.same_tree(rt, d['tree']) and not (compared and not meets_spec(spec, real)):
                self.drift({'kind': 'tree', 'stream': stream, 'formula': text, 'expr': w, 'seed': seed,
                            'tree_spec': d['tree'], 'real': rt})

    def violation(self, v):
        self.nviol += 1
        vs = self.res.violations
        vs.append(v)
        if len(vs) > 1500:
            self._trim()

    def _trim(self):
        vs = self.res.violations
        head = [x for x in vs if x['input'].get('stream') == 'regression']
        rest = sorted((x for x in vs if x['input'].get('stream') != 'regression'),
                      key=lambda x: len(x['input'].get('formula', '')))
        self.res.violations = head + rest[:300]

    def drift(self, dct):
        self.ndrift += 1
        if len(self.res.drift) < 200:
            self.res.drift.append(dct)

    def finish(self):
        self.flush()
        if self.pool is not None:
            self.pool.close()
            self.pool.join()
            self.pool = None
        self._trim()
        for k, v in sorted(self.opcount.items()):
            self.res.count('operator:' + (OPSYM.get(k, 'unary-minus')), v)
        for s, c in self.per_stream.items():
            self.res.count('stream:' + s, c['cases'])
            if c['undef']:
                self.res.count('outside_domain:stream-%s:spec-undef' % s, c['undef'])
            if c['sens']:
                self.res.count('outside_domain:stream-%s:rounding-sensitive' % s, c['sens'])
        if self.timeouts:
            msg = (f'{len(self.timeouts)} formulas did not finish evaluating within 8 s (not compared), first: '
                   f'{self.timeouts[0]["formula"]!r} cells {self.timeouts[0]["cells"]}')
            if not self.nviol:
                raise RuntimeError(msg)
            self.res.notes.append(msg)
        if self.odd:
            self.res.notes.append('outside the domain (the Spec is silent, nothing compared) the library raised an '
                                  'exception for: ' + '; '.join(self.odd))
        if self.nviol:
            self.res.count('violating-cases', self.nviol)
        if self.ndrift:
            self.res.notes.append(f'{self.ndrift} model/implementation differences inside the domain (model '
                                  f'drift; the code meets the Spec there)')


# ------------------------------------------------------------------------------------------ generators

LEAF_VARIANTS = [
    ('neg-cell', lambda c: mkU(c)),
    ('pct', lambda c: N('50', pct=True)),
    ('pct-decimal', lambda c: N('12', '5', pct=True)),
    ('paren-cell', lambda c: P(c)),
    ('int', lambda c: N('4')),
    ('decimal', lambda c: N('1', '5')),
    ('sci+', lambda c: N('1', '5', '+2')),
    ('sci-', lambda c: N('2', None, '-1')),
    ('sci-wide', lambda c: N('20', None, '-1')),      # mantissa other than Excel's normalised d[.ddd] (D0101)
]
TRIPLE_VARIANTS = [LEAF_VARIANTS[0], LEAF_VARIANTS[1], LEAF_VARIANTS[3]]


def pair_shapes(o1, o2, lv):
    """the two trees over the ordered operator pair (o1 written before o2); with unary minus the forms
    -(a o b), (-a) o b, a o (-b), --a, -(-a).  Returns [(name, expr)] with minimal parentheses."""
    a, b, c = lv[0], lv[1], lv[2]
    if o1 != 'u' and o2 != 'u':
        return [('L', mkB(o2, mkB(o1, a, b), c)), ('R', mkB(o1, a, mkB(o2, b, c)))]
    if o1 == 'u' and o2 == 'u':
        return [('uu', mkU(mkU(a))), ('u(u)', U(P(mkU(a))))]
    if o1 == 'u':
        return [('-(aob)', mkU(mkB(o2, a, b))), ('(-a)ob', mkB(o2, mkU(a), b))]
    return [('ao(-b)', mkB(o1, a, mkU(b))), ('ao(-(b))', mkB(o1, a, mkU(P(b))))]


def flat_text_of_pair(o1, o2):
    if o1 != 'u' and o2 != 'u':
        return '=A1%sB1%sC1' % (OPSYM[o1], OPSYM[o2])
    if o1 == 'u' and o2 == 'u':
        return '=--A1'
    if o1 == 'u':
        return '=-A1%sB1' % OPSYM[o2]
    return '=A1%s-B1' % OPSYM[o1]


def build_flat(operands, ops):
    """the tree of the flat text x0 o1 x1 o2 x2 ... by precedence and left associativity (shunting yard in
    Python, independent of the Spec; the result must be WF without any written parentheses)"""
    out, st = [operands[0]], []

    def reduce():
        o = st.pop()
        r = out.pop()
        l = out.pop()
        out.append(B(o, l, r))
    for o, x in zip(ops, operands[1:]):
        while st and OPPREC[st[-1]] >= OPPREC[o]:
            reduce()
        st.append(o)
        out.append(x)
    while st:
        reduce()
    return out[0]


def flat_triple(t, leaves):
    """flat text for an ordered triple of the 13 operators: binary ones chain the operands, a unary minus is
    a prefix of the operand that follows it"""
    operands, ops, pending, i = [], [], 0, 0
    for o in t:
        if o == 'u':
            pending += 1
        else:
            x = leaves[i]
            i += 1
            for _ in range(pending):
                x = U(x)
            pending = 0
            operands.append(x)
            ops.append(o)
    x = leaves[i]
    for _ in range(pending):
        x = U(x)
    operands.append(x)
    e = build_flat(operands, ops)
    expect = '=' + ''.join(''.join(g.render_items(x, [])) + (OPSYM[o] if j < len(ops) else '')
                           for j, (x, o) in enumerate(zip(operands, ops + ['add'])))
    if g.render0(e) != expect:
        raise RuntimeError(f'flat triple {t}: built {g.render0(e)!r}, wanted {expect!r}')
    return e


def triple_shapes(o1, o2, o3, lv):
    a, b, c, d = lv
    return [mkB(o3, mkB(o2, mkB(o1, a, b), c), d),
            mkB(o3, mkB(o1, a, mkB(o2, b, c)), d),
            mkB(o2, mkB(o1, a, b), mkB(o3, c, d)),
            mkB(o1, a, mkB(o3, mkB(o2, b, c), d)),
            mkB(o1, a, mkB(o2, b, mkB(o3, c, d)))]


SAMEPREC = g.SAMEPREC
SMALL_LITS = [N('1'), N('2'), N('3'), N('4'), N('6'), N('9'), N('10'), N('0')]
OTHER_LITS = [N('0', '5'), N('1', '5'), N('2', '25'), N('0', '25'), N('50', pct=True), N('12', '5', pct=True),
              N('200', pct=True), N('1', '5', '+2'), N('2', None, '-1'), N('5', None, '+0'), N('1', '25', '+1'),
              # any decimal numeral as mantissa (D0101), `.5`, `5.`
              N('80', None, '-3'), N('12', None, '+1'), N('0', '5', '+1'), N('12', '5', '+0'), N('100', None, '-2'),
              N('', '5', '+1'), N('5', '', '-1'), N('', '25'), N('3', ''), N('', '5', pct=True)]
OP_WEIGHTED = (['pow'] * 3 + ['mul'] * 4 + ['div'] * 4 + ['add'] * 4 + ['sub'] * 4 + ['cat'] * 2
               + ['eq', 'ne', 'lt', 'gt', 'le', 'ge'])


def rnd_leaf(rng):
    k = rng.random()
    if k < .6:
        return rng.choice(CELLS)
    if k < .85:
        return rng.choice(SMALL_LITS)
    return rng.choice(OTHER_LITS)


def rnd_exponent(rng):
    k = rng.random()
    x = N(str(rng.randint(1, 3))) if k < .6 else rng.choice((R('C1'), R('B1'), R('C1'), N('0')))
    if rng.random() < .15:
        x = U(x)
    return x


def rnd_tree(rng, budget, depth, red, prefer=None):
    """a well-formed operator expression of at most `budget` nodes and depth <= 7"""
    if budget <= 1 or depth >= 7 or rng.random() < (.1 if budget <= 8 else .02):
        return rnd_leaf(rng)

    def child(b, prefer=None):
        return rnd_tree(rng, max(1, b), depth + 1, red, prefer), rng.random() < red
    k = rng.random()
    if k < .12:
        x, rx = child(budget - 1)
        return U(P(x) if (level(x) < 7 or rx) else x)
    if k < .17:
        return P(rnd_tree(rng, budget - 1, depth + 1, red))
    if budget < 3:
        return rnd_leaf(rng)
    op = rng.choice(SAMEPREC[prefer]) if prefer is not None and rng.random() < .4 else rng.choice(OP_WEIGHTED)
    p = OPPREC[op]
    if op == 'pow' and rng.random() < .85:
        l, rl = child(min(budget - 2, 4) if rng.random() < .7 else budget - 2, p)
        r, rr = rnd_exponent(rng), rng.random() < red
    else:
        a, b = g.split_budget(rng, budget - 1, 2)
        (l, rl), (r, rr) = child(a, p), child(b, p)
    l = P(l) if (level(l) < p or rl) else l
    r = P(r) if (level(r) <= p or rr) else r
    return B(op, l, r)


def depth_of(e):
    k = e[0]
    if k in ('u', 'p'):
        return 1 + depth_of(e[1])
    if k == 'b':
        return 1 + max(depth_of(e[2]), depth_of(e[3]))
    return 1


def div0_cases():
    a, b = CELLS[0], CELLS[1]
    zero, one, two = N('0'), N('1'), N('2')
    dz = mkB('div', one, zero)
    out = [mkB('div', a, mkB('sub', b, b)), mkB('div', a, zero), mkB('div', zero, zero),
           mkB('add', mkB('div', one, mkB('sub', a, a)), one), mkB('pow', zero, mkU(one)),
           mkB('pow', P(zero), P(mkU(one))), mkB('pow', mkB('sub', a, a), mkU(one)),
           mkB('div', a, mkB('sub', b, N('3'))), mkB('div', a, mkB('mul', zero, b)),
           mkB('div', a, N('0', '0')), mkB('div', a, N('0', pct=True)), mkB('div', a, mkU(zero)),
           mkU(dz), mkU(mkU(dz)), P(dz), mkB('add', dz, dz), mkB('eq', dz, dz),
           # flat texts
           B('mul', B('div', one, zero), two), B('div', B('mul', two, one), zero), B('div', B('pow', two, one), zero),
           B('div', one, B('pow', zero, two)), B('sub', B('add', a, B('div', b, zero)), one),
           B('cat', B('div', one, zero), one), B('lt', one, B('div', two, zero)),
           B('div', B('div', a, zero), zero), mkB('div', a, mkB('sub', a, a)), mkB('pow', zero, mkU(b))]
    for o in OPNAMES:
        out.append(mkB(o, dz, b))
        out.append(mkB(o, a, dz))
        out.append(mkB(o, dz, mkB('pow', zero, mkU(one))))
        out.append(mkB(o, mkB('div', a, mkB('sub', b, b)), mkB('add', a, b)))
        out.append(mkB(o, mkB('sub', a, b), mkB('div', zero, zero)))
    return out


def comparison_cases():
    """every comparison operator on every ordered pair of three numbers, three integer texts and three
    booleans (with ties in each kind): Excel orders numbers < texts < booleans"""
    a, b, c, d = CELLS
    vals = [a, b, mkB('sub', mkB('add', a, b), b),                        # numbers: a, b, a again
            mkB('cat', a, b), mkB('cat', b, a), mkB('cat', mkB('cat', a, N('0')), mkU(mkU(b))),   # texts
            mkB('lt', c, d), mkB('gt', c, d), mkB('ne', c, d),            # booleans: c<d, c>d, c<>d
            mkB('mul', c, d), mkB('add', a, b)]                           # numbers again (equal under 7,3,2,5)
    out = []
    for o in OPNAMES[6:]:
        for x in vals:
            for y in vals:
                out.append(mkB(o, x, y))
    return out


# ------------------------------------------------------------------------------------------ run

def load_corpus():
    out = []
    cdir = common.CORPUS / 'C01'
    if cdir.is_dir():
        for path in sorted(cdir.glob('*.json')):
            data = json.loads(path.read_text())
            for c in data.get('cases', []):
                out.append(c)
    return out


def run_replay(ctx, chk, res):
    obj = json.loads(open(ctx.replay).read())
    inp = obj.get('input')
    if isinstance(inp, dict) and 'expr' in inp:
        env = env_of_cells(inp.get('cells', {})) or ENVS[0]
        chk.add('replay', int(inp.get('seed', 0)), parse_wire(inp['expr']), env)
    else:
        res.notes.append('the replay file holds no failing input of C01 (nothing re-run)')
    chk.finish()
    res.rule = 'replay of one stored input'
    return res


def power_order_cases(ctx, res, chk):
    """model validation only (outside C01's grammar: string and error literals): POWER's two XlNumber
    parameters are validated IN ORDER (error argument -> returned; failing cast -> #VALUE!; then the next
    parameter), so a text base wins over an error exponent; the other operators return the first error."""
    env = ENVS[0]
    ops = ['^', '*', '/', '+', '-', '&', '=', '<>', '<', '>', '<=', '>=']
    errs = ['#NUM!', '#N/A', '#DIV/0!', '(1/0)']
    texts = ['"AB"', '"1x"', '("A"&"B")', '"12"', '(1&2)']
    forms = []
    for o in ops:
        for e in errs:
            for t in texts:
                forms += ['=%s%s%s' % (t, o, e), '=%s%s%s' % (e, o, t)]
            forms += ['=%s%s%s' % (e, o, e2) for e2 in errs if e2 != e][:2]
            forms += ['=A1%s%s' % (o, e), '=%s%sA1' % (e, o)]
    forms += ['="AB"^#NUM!', '=#NUM!^"AB"', '="AB"^"CD"', '=TRUE^#N/A', '=#N/A^TRUE', '=-"AB"', '=-#N/A', '=-(1/0)']
    resp = ctx.driver.batch(['C01\tevaltext\t%s\t%s' % (cps(t), env_wire(env)) for t in forms])
    for t, r in zip(forms, resp):
        impl = parse_kv(r).get('impl', '?')
        real = real_eval_one(env, t)
        res.evaluations += 1
        res.count('stream:power-order(model validation)')
        if not same_outcome(impl, real):
            chk.drift({'kind': 'value', 'stream': 'power-order', 'formula': t, 'impl_model': impl, 'real': real})


def user_spellings(ctx, res, chk):
    """numeric literals as a USER may write them in a formula given to read_and_parse_dict — beyond the form Excel
    stores: leading zeros, a lower-case `e`, an exponent without sign (outside Spec.C02.NumLit, hence outside the
    theorems), `.5` / `5.` and scientific literals whose mantissa is any decimal numeral, not only Excel's normalised
    d[.ddd] (`.5E+1`, `5.E-1`, `12E+3`, `80E-3`: inside NumLit since repair D0101 — the tokenizer used to glue the
    exponent sign only onto d[.ddd] and `=80E-3` evaluated to -3).  All are plain / percent / scientific numerals
    of the statement.  Oracle: exact decimal arithmetic; the Lean model is compared too (drift)."""
    from decimal import Decimal
    env = ENVS[0]
    a1 = Fraction(dict(env)['A1'])
    nums = ['.5', '5.', '.25', '0.5', '.25%', '5.%', '.5%', '01.50', '007', '1e2', '1E2', '1.5e+2', '1E+02', '1e-2',
            '2.50E-3', '.125', '10.', '0.', '.0',
            '.5E+1', '5.E-1', '12E+3', '80E-3', '0.5E+1', '.8e-1', '12.5E+0', '100E-2']
    forms, wants = [], []
    for n in nums:
        q = Fraction(Decimal(n.rstrip('%')))
        if n.endswith('%'):
            q /= 100
        for f, w in ((f'={n}+1', q + 1), (f'=2*{n}', 2 * q), (f'=-{n}', -q), (f'={n}^2', q * q), (f'=A1+{n}', a1 + q),
                     (f'={n}', q), (f'=({n})/4', q / 4), (f'= {n} - {n}', Fraction(0)), (f'={n}>=0', True)):
            forms.append(f); wants.append(w)
    resp = ctx.driver.batch(['C01\tevaltext\t%s\t%s' % (cps(t), env_wire(env)) for t in forms])
    for t, w, r in zip(forms, wants, resp):
        impl = parse_kv(r).get('impl', '?')
        real = real_eval_one(env, t)
        res.evaluations += 1
        res.count('stream:user-spellings')
        res.nontrivial.add(('user-spelling', t))
        v = common.num_value(real)
        if isinstance(w, bool):
            ok = real == ('B:1' if w else 'B:0')
        else:
            ok = v is not None and abs(v - w) <= REL_TOL * max(abs(w), Fraction(1, 10 ** 300))
        if not ok:
            chk.violation({'what': 'a formula with a numeric literal evaluated to a value other than the one the literal denotes',
                           'input': {'formula': t, 'cells': {'%s!%s' % (SHEET, a): x for a, x in env}, 'stream': 'user-spellings'},
                           'expected': str(w), 'got': real})
        elif not same_outcome(impl, real):
            chk.drift({'kind': 'value', 'stream': 'user-spellings', 'formula': t, 'impl_model': impl, 'real': real})


def d3_witness(ctx, res, chk):
    """known finding D3: `)%` and `ref%` are folded into `* 0.01` (outside the generated grammar)"""
    env = ENVS[0]
    wit = ['=2^(3)%', '=A1%']
    resp = ctx.driver.batch(['C01\tevaltext\t%s\t%s' % (cps(t), env_wire(env)) for t in wit])
    impl = [parse_kv(r).get('impl', '?') for r in resp]
    real = [real_eval_one(env, t) for t in wit]
    res.evaluations += len(wit)
    res.count('stream:D3-witness', len(wit))
    v = common.num_value(real[0])
    if v is not None and abs(v - Fraction(8, 100)) <= TOL:
        if same_outcome(impl[0], real[0]):
            res.known.setdefault('D3', []).append(wit[0])
        else:
            chk.drift({'kind': 'value', 'stream': 'D3', 'formula': wit[0], 'impl_model': impl[0], 'real': real[0]})
    elif v is not None and abs(v - Fraction(10210121257071934, 10 ** 16)) <= Fraction(1, 10 ** 6):
        res.notes.append(f'D3 witness {wit[0]!r} now evaluates to {float(v)!r} = 2^0.03, the Excel value: the '
                         f'finding seems repaired - extend the grammar of C01/C02 with a postfix %')
    else:
        res.notes.append(f'D3 witness {wit[0]!r} now gives {real[0]} (was 0.08 = (2^3)*0.01; Excel: 1.0210...)')
    if real[1] == 'X:ValueError':
        if impl[1] == 'X:ValueError':
            if 'D3' in res.known:
                res.known['D3'].append(wit[1])
        else:
            chk.drift({'kind': 'value', 'stream': 'D3', 'formula': wit[1], 'impl_model': impl[1], 'real': real[1]})
    else:
        res.notes.append(f'D3 witness {wit[1]!r} no longer raises ValueError (now {real[1]})')


def run(ctx):
    g._real_modules()
    rng = ctx.rng
    thorough = ctx.tier == 'thorough' or ctx.widen
    res = Result()
    chk = Checker(ctx, res, workers=12 if thorough else 0)
    if getattr(ctx, 'replay', None):
        return run_replay(ctx, chk, res)
    E1, E2, E3 = ENVS

    def rseed():
        return rng.randint(3, 10 ** 6)

    # 1. regression: D1 (a formula ending in a blank; fixed in /repo) and the corpus
    d1 = mkB('add', CELLS[0], N('1'))
    for seed in (1, 2):
        chk.add('regression', seed, d1, E1)
    for c in load_corpus():
        if 'expr' in c:
            chk.add('regression', int(c.get('seed', 0)), parse_wire(c['expr']),
                    env_of_cells(c.get('cells', {})) or E1)
    chk.flush()

    # 1b. tiny and huge magnitudes: sums of SAME-SIGN terms, products, quotients and powers of literals in
    # scientific notation / of tiny cell values — no cancellation, so the float result is the exact value to a few
    # ulp and is compared with a RELATIVE tolerance (an absolute one would accept 0 for 1.1E-16)
    ET = (('A1', 2e-9), ('B1', 3e-9), ('C1', 1e-18), ('D1', 1e-20))
    t8, t9, t16, t17, t18 = (N('1', None, '-%d' % k) for k in (8, 9, 16, 17, 18))
    t10, u10, big = N('1', '23456789', '-10'), N('1', None, '-10'), N('1', None, '+16')
    A, Bc, C, D = CELLS
    tiny = [mkB('add', mkB('mul', t8, t8), t17), mkB('add', t16, t16),
            mkB('div', N('1'), P(mkB('add', mkB('pow', t9, N('2')), t18))),
            mkB('add', mkB('mul', A, Bc), C), mkB('add', t10, u10), mkB('sub', mkU(t16), t16),
            mkB('add', mkB('add', D, D), D), mkB('mul', P(mkB('add', t16, t16)), big), mkB('add', C, D),
            mkB('sub', mkU(C), D), mkB('add', mkB('div', C, N('3')), D), mkB('add', N('0', '0001', pct=True), t8),
            mkB('mul', P(mkB('add', A, Bc)), P(mkB('add', C, D))), mkB('div', P(mkB('add', C, D)), P(mkB('add', A, Bc))),
            mkB('add', mkB('pow', N('1', pct=True), N('8')), t17), mkB('add', N('1', None, '-300'), N('2', None, '-300')),
            mkB('sub', N('1', None, '+300'), mkU(N('2', None, '+299')))]
    for e in tiny:
        for seed in (0, 1, rseed()):
            chk.add('tiny', seed, e, ET)
    chk.flush()

    # 2. every ordered pair of the 13 operators, both shapes (exhaustive)
    flat_wanted = {flat_text_of_pair(o1, o2) for o1 in ALLOPS for o2 in ALLOPS}
    flat_seen = set()
    nshape = 0
    for o1 in ALLOPS:
        for o2 in ALLOPS:
            for sname, e in pair_shapes(o1, o2, CELLS):
                nshape += 1
                flat_seen.add(g.render0(e))
                for env in ENVS:
                    chk.add('pairs', 0, e, env)
                for seed in (1, 2, rseed(), rseed()):
                    chk.add('pairs', seed, e, E1)
                if thorough:
                    for env in ENVS:
                        for rname, flags in RED_STYLES:
                            x = redundant(e, *flags)
                            for seed in (0, 1, 2, rseed(), rseed()):
                                chk.add('pairs', seed, x, env)
                else:
                    chk.add('pairs', rseed(), redundant(e, True, True, True), E1)
                    rname, flags = RED_STYLES[nshape % 3]
                    chk.add('pairs', 0, redundant(e, *flags), (E1, E2, E3)[nshape % 3])
                nleaf = 1 if (o1 == 'u' and o2 == 'u') else 2 if 'u' in (o1, o2) else 3
                for vi, (vname, mk) in enumerate(LEAF_VARIANTS):
                    positions = range(nleaf) if thorough else [(nshape + vi) % nleaf]
                    for pos in positions:
                        lv = list(CELLS)
                        lv[pos] = mk(lv[pos])
                        x = dict(pair_shapes(o1, o2, lv))[sname]
                        if thorough:
                            for seed in (0, 1, 2, rseed(), rseed()):
                                chk.add('pairs', seed, x, E1)
                            chk.add('pairs', 0, x, E2)
                            chk.add('pairs', rseed(), redundant(x, True, True, True), E3)
                        else:
                            chk.add('pairs', (0, 1, 2, rseed())[(nshape + vi) % 4], x, (E1, E1, E2, E3)[vi % 4])
    if not flat_wanted <= flat_seen:
        raise RuntimeError(f'flat texts of operator pairs not generated: {sorted(flat_wanted - flat_seen)[:5]}')
    res.count('pairs:ordered-pairs', len(ALLOPS) ** 2)
    res.count('pairs:trees', nshape)
    res.exhaustive = True
    chk.flush()

    # 3. every ordered triple of the 13 operators
    ntrip = 0
    for o1 in ALLOPS:
        for o2 in ALLOPS:
            for o3 in ALLOPS:
                ntrip += 1
                e = flat_triple((o1, o2, o3), CELLS)
                chk.add('triples-flat', 0, e, E1)
                chk.add('triples-flat', rseed(), e, (E2, E3)[ntrip % 2] if ntrip % 3 == 0 else E1)
                if thorough:
                    chk.add('triples-flat', 1, e, E2)
                    chk.add('triples-flat', 2, e, E3)
                    chk.add('triples-flat', rseed(), redundant(e, True, True, True), E1)
    res.count('triples:ordered-triples', ntrip)
    chk.flush()
    if thorough:
        n = 0
        for o1 in OPNAMES:
            for o2 in OPNAMES:
                for o3 in OPNAMES:
                    for si in range(5):
                        n += 1
                        e = triple_shapes(o1, o2, o3, CELLS)[si]
                        for seed in (0, 1, 2, rseed()):
                            chk.add('triples-shapes', seed, e, ENVS[(n + seed) % 3])
                            chk.add('triples-shapes', seed, redundant(e, *RED_STYLES[(n + seed) % 4][1]),
                                    ENVS[(n + seed + 1) % 3])
                        for vi, (vname, mk) in enumerate(TRIPLE_VARIANTS):
                            for pos in range(4):
                                lv = list(CELLS)
                                lv[pos] = mk(lv[pos])
                                x = triple_shapes(o1, o2, o3, lv)[si]
                                chk.add('triples-shapes', (0, 1, 2, rseed())[(n + vi + pos) % 4], x,
                                        ENVS[(n + vi + pos) % 3])
        chk.flush()

    # 4. sampled deeper trees (depth <= 7, <= 40 nodes)
    envs = list(ENVS)
    for _ in range(12 if thorough else 3):
        vals = rng.sample([-9, -7, -5, -3, -2, -1, 1, 2, 3, 4, 5, 6, 7, 8, 9, 10, 12], 4)
        if rng.random() < .5:
            vals[rng.randrange(4)] = rng.choice([0.5, 1.5, 2.5, -0.25, 0.75, 3.125])
        if rng.random() < .3:
            vals[rng.randrange(4)] = 0
        envs.append(tuple(zip(('A1', 'B1', 'C1', 'D1'), vals)))
    nsample = 250000 if thorough else 1500
    made = 0
    tries = 0
    while made < nsample:
        tries += 1
        if tries > 20 * nsample:
            raise RuntimeError('the sampled-tree generator rejects nearly everything')
        r = rng.random()
        budget = rng.randint(4, 10) if r < .35 else rng.randint(6, 25) if r < .8 else rng.randint(20, 40)
        e = rnd_tree(rng, budget, 0, rng.choice((0, .05, .1, .3)))
        if len(ops_of(e, [])) < 2:
            continue
        env = envs[rng.randrange(len(envs))] if rng.random() < .6 else envs[rng.randrange(3)]
        if chk.add('sampled', g.rnd_seed(rng), e, env, MAG_LIMIT):
            made += 1
    chk.flush()

    # 5. division by zero
    for e in div0_cases():
        for seed in (0, 1, rseed()):
            chk.add('div0', seed, e, E1)
        if thorough:
            chk.add('div0', 2, redundant(e, True, True, True), E2)
    chk.flush()

    # 5b. comparisons with ties and mixed kinds (> and >=, < and <= differ only on equal operands)
    for i, e in enumerate(comparison_cases()):
        chk.add('comparisons', (0, 1, 2, 0)[i % 4] if not thorough else 0, e, ENVS[i % 2] if i % 5 == 0 else E1)
        if thorough:
            chk.add('comparisons', rseed(), e, E2)
            chk.add('comparisons', 1 + i % 2, redundant(e, True, True, True), E3)
    chk.flush()

    # 6. known finding D3
    d3_witness(ctx, res, chk)
    power_order_cases(ctx, res, chk)
    user_spellings(ctx, res, chk)
    chk.finish()

    res.rule = (
        'abstract operator expressions (grammar Spec/C02.lean restricted by inC01: numeric literals plain/decimal/'
        'scientific/percent, cells A1..D1, unary minus, the 12 binary operators, written parentheses) are rendered '
        'by the Spec with a blank oracle (none / a space in every slot / a newline in every slot / pseudo-random '
        'runs), put into a cell of a compiled model (ModelCompiler.read_and_parse_dict, 50 formulas per model, the '
        'referenced cells holding numbers) and Evaluator.evaluate is compared with denote (Spec) and with the Lean '
        'model. Streams: regression D1; EXHAUSTIVE ordered pairs of the 13 operators in both tree shapes '
        '((a o1 b) o2 c, a o1 (b o2 c); -(a o b), (-a) o b, a o (-b), --a, -(-a)) with minimal parentheses (the '
        'flat text a o1 b o2 c of every ordered pair is among them) and redundant parentheses (around leaves / '
        'subtrees / the whole), leaf variants (-cell, 50%, 12.5%, (cell), integer, decimal, 1.5E+2, 2E-1), blank '
        'seeds 0,1,2 and two random ones, three cell assignments (7,3,2,5 / -4,6,3,2 / 2.5,3,2,5) - quick: a '
        'covering selection of parentheses style x seed x variant position, thorough: the full product; ordered '
        'triples: the flat text of all 13^3 triples (tree by precedence and left associativity built by an '
        'independent shunting yard; unary minus as a prefix of the following operand), thorough also all 5 tree '
        'shapes of 12^3 binary triples with minimal/redundant parentheses and leaf variants at each position; '
        'sampled trees of depth <= 7 and <= 40 nodes with random operators, leaves, parentheses, blanks and cell '
        'values (exponents mostly small integers; trees with an exact intermediate value above 1e7 are not '
        'generated); division by zero as a direct value and as left/right operand of every operator; every comparison '
        'on every ordered pair of 11 operands (numbers, integer texts, booleans, with ties in each kind). Every 5th '
        'case is also parsed with FormulaParser and the tree compared (model validation). Non-trivial = distinct '
        'formula texts with at least two operators')
    return res
