"""C02 — every well-formed formula parses to the tree its text denotes (DESIGN.md §4 C02).

For an abstract expression `e` (grammar `Expr` of lean/XlVerif/Spec/C02.lean) and a blank-oracle seed the
Lean driver returns the formula text `render (oracle seed) e`, the tree the text denotes (`treeOf e`, the
Spec) and the tree the Lean model of tokenizer.py/parser.py makes of that text.  This module parses the
text with the REAL `FormulaParser().parse`, walks the node tree into the same canonical text and compares:
real vs Spec is the property, real vs model is model validation.  A separate malformed stream compares
only the outcome class (parsed / exception class) of model and code.
"""
import hashlib
import json
import re
from fractions import Fraction

import common
from common import Result, parse_kv

LEVEL_TEXT = (
    'Lean theorem Props.C02.C02 (kernel-checked, axioms propext/Classical.choice/Quot.sound): for EVERY '
    'well-formed expression e of the formula grammar Spec.C02.Expr (calls with any number of non-empty arguments '
    'and an optional leading @, the twelve binary operators, unary minus, written parentheses - necessary or '
    'redundant -, plain/decimal/scientific numbers, percent literals, string literals of ARBITRARY content, '
    'TRUE/FALSE, the seven error literals, relative/$-absolute/sheet-qualified (plain or quoted, any characters) '
    'cell and range references) and EVERY blank oracle b (independent runs of blanks/newlines at every token '
    'boundary, leading and trailing ones included), (parse [] (render b e)).map shape = ok (treeOf e) for the '
    'statement-by-statement Lean model of tokenizer.py (all four passes) and parser.py (shunting yard, build_ast) '
    '- unbounded, by induction on e and on the character list; plus C02_no_eq (no leading =), string_roundtrip, '
    'quoted_sheet_roundtrip, errlit, lex_render, passes_render, sy_render (from the order/associativity '
    'conditions TableOK Gen.operators only), call_argcount, build_rpn, wfB_iff, and the kernel-checked '
    'counter-example D3_ref_percent for the known finding. The model is tied to the running code by this '
    'differential run: exhaustive two-level construct combinations, string and reference spelling families, '
    'random trees up to 40 (quick) / 400 (thorough) nodes, and a malformed stream for the error classes.')
LEVEL_NOTE = (
    'Nothing of the statement is left unproved at the model level (character level, whole grammar). Trusted: '
    'Lean kernel (axioms propext, Classical.choice, Quot.sound), the hand-written tokenizer/parser model '
    '(validated by correspondence - 0 disagreements on ~5e5 well-formed and ~9e4 malformed texts - not proved '
    'equal to the Python), the Spec grammar as a rendering of "the form Excel stores", the regenerated tables '
    'Gen.operators / Gen.tokErrorLiterals / Gen.tokOperators / Gen.tokComparators (table obligations tableOK_gen, '
    'errTableOK_gen re-proved on every run), double rounding of percent literals (compared within 2 ulp). '
    'Known finding D3: % after a reference or parenthesis is not a postfix operator (outside the grammar).')
DESIGN_REF = '§4 C02'

# theorems of the integrated pipeline model (Props/X01.lean) that carry this property's theorems to formula TEXTS in a
# compiled workbook; re-built and audited with this check (harness/common.prepare: soft obligations)
TRANSPORT = ('XlVerif.Props.X01', ['compile_text_total', 'toFx_total_on_wf'])

TRUSTED = [
    'Lean 4 kernel; axioms propext, Classical.choice, Quot.sound only',
    'hand-written models lean/XlVerif/Model/Tokenizer.lean and Model/Parser.lean of xlcalculator/tokenizer.py '
    'and parser.py, tied to the code by this correspondence run (not proved equal to the Python)',
    'the grammar of lean/XlVerif/Spec/C02.lean (Expr, WF, render, treeOf) as the meaning of "well-formed '
    'formula in the form Excel stores it"; its rendering without blanks is cross-checked here against an '
    'independent Python renderer',
    'Python float() and float division for percent literals (ideal rationals in Lean)',
]
ASSUMPTIONS = [
    'a percent literal (12.5%) is folded by the tokenizer into one number node holding float(token)/100; the '
    'Spec and the model hold the exact rational value/100; the two are compared numerically within 2 ulp '
    '(relative 4.5e-16), the rest of the tree is compared exactly',
    'the domain is the grammar of Spec/C02.lean: % only directly after a numeric literal without exponent '
    '(a reference or parenthesis followed by % is known finding D3 and outside the generated domain), '
    'numeric literals are decimal numerals ddd, ddd.ddd, ddd. or .ddd with an optional exponent E+dd / E-dd (the '
    'exponent sign is always written, as Excel stores it; the mantissa is any decimal numeral - not only Excel\'s '
    'normalised d[.ddd] - since repair D0101), no array constants {..}, no empty arguments, '
    'no space (intersection) or comma (union) operators, no defined names, no structured/bracketed references, '
    'no unary plus; quoted sheet names contain no ":"',
    'blanks and newlines are placed only where the statement allows them (around operators, parentheses, '
    'arguments, leading/trailing) - never between a function name and its "(" nor between two operands',
    'generator cap: exponents of scientific literals have at most 6 significant digits and malformed texts with a '
    '3+-digit exponent are skipped, because the COMPILED Lean driver panics ("Nat.pow exponent is too big") when '
    'Model/Value.lean\'s float(text) evaluates 10^e for |e| >= 2^24 (e.g. 1E+99999999999); the theorem C02 is '
    'unaffected (such literals are well-formed and covered by it)',
    'named_ranges = {} in every parse; names are not resolved (property C08 covers name resolution)',
    'the malformed stream is model validation only: a disagreement there is reported as model drift, never as '
    'a violation of C02',
]

# ------------------------------------------------------------------------------------------ grammar

OPS = [('pow', '^', 5), ('mul', '*', 4), ('div', '/', 4), ('add', '+', 3), ('sub', '-', 3), ('cat', '&', 2),
       ('eq', '=', 1), ('ne', '<>', 1), ('lt', '<', 1), ('gt', '>', 1), ('le', '<=', 1), ('ge', '>=', 1)]
OPSYM = {o: s for o, s, _ in OPS}
OPPREC = {o: p for o, _, p in OPS}
OPNAMES = [o for o, _, _ in OPS]
CODES = ['NULL', 'DIV0', 'VALUE', 'REF', 'NAME', 'NUM', 'NA']
SPECIAL = set(' \n"\'[#{;}+-*/^&=><%(,):@')
DELIMS = list('"\'!#%(),:;[]{}') + [' ', '\n', '=', '+', '-', '<', '>', '&', '@', '$']


def cps(s):
    return '.'.join(str(ord(c)) for c in s)


def uncps(w):
    return '' if w == '' else ''.join(chr(int(x)) for x in w.split('.'))


# abstract expressions are tuples:
#   ('n', ip, fp|None, exp|None, pct)   ('s', text)   ('T',)   ('F',)   ('e', CODE)
#   ('r', kind n|p|q, sheet, cell, cell|None)   ('u', X)   ('b', op, L, R)   ('p', X)   ('c', at, name, [args])

def N(ip, fp=None, exp=None, pct=False):
    return ('n', str(ip), fp, exp, bool(pct))


def S(s):
    return ('s', s)


TRUE, FALSE = ('T',), ('F',)


def E(code):
    return ('e', code)


def R(c1, c2=None, kind='n', sheet=''):
    return ('r', kind, sheet, c1, c2)


def U(x):
    return ('u', x)


def B(op, l, r):
    return ('b', op, l, r)


def P(x):
    return ('p', x)


def C(name, args=(), at=False):
    return ('c', bool(at), name, list(args))


def level(e):
    if e[0] == 'u':
        return 7
    if e[0] == 'b':
        return OPPREC[e[1]]
    return 9


def mkU(x):
    """unary minus with the parentheses WF requires"""
    return U(x if level(x) >= 7 else P(x))


def mkB(op, l, r):
    """binary operator with the parentheses WF requires"""
    p = OPPREC[op]
    return B(op, l if level(l) >= p else P(l), r if level(r) > p else P(r))


def wire_items(e, out):
    k = e[0]
    if k == 'n':
        out.append('n:%s:%s:%s:%d' % (e[1], '-' if e[2] is None else e[2], '-' if e[3] is None else e[3], e[4]))
    elif k == 's':
        out.append('s:' + cps(e[1]))
    elif k in ('T', 'F'):
        out.append(k)
    elif k == 'e':
        out.append('e:' + e[1])
    elif k == 'r':
        out.append('r:%s:%s:%s' % (e[1], cps(e[2]), e[3]) + ('' if e[4] is None else ':' + e[4]))
    elif k == 'u':
        out.append('u')
        wire_items(e[1], out)
    elif k == 'p':
        out.append('p')
        wire_items(e[1], out)
    elif k == 'b':
        out.append('b:' + e[1])
        wire_items(e[2], out)
        wire_items(e[3], out)
    elif k == 'c':
        out.append('c:%d:%s:%d' % (e[1], cps(e[2]), len(e[3])))
        for a in e[3]:
            wire_items(a, out)
    else:
        raise RuntimeError(f'bad expression {e!r}')
    return out


def wire(e):
    return ' '.join(wire_items(e, []))


def parse_wire(w):
    """wire form -> expression tuple (used by replays and corpus files)"""
    items = w.split(' ')
    pos = [0]

    def rd():
        if pos[0] >= len(items):
            raise RuntimeError('truncated wire form')
        t = items[pos[0]]
        pos[0] += 1
        if t == 'u':
            return U(rd())
        if t == 'p':
            return P(rd())
        if t in ('T', 'F'):
            return (t,)
        f = t.split(':')
        if f[0] == 'b' and len(f) == 2:
            l = rd()
            return B(f[1], l, rd())
        if f[0] == 'c' and len(f) == 4:
            return C(uncps(f[2]), [rd() for _ in range(int(f[3]))], f[1] == '1')
        if f[0] == 'n' and len(f) == 5:
            return N(f[1], None if f[2] == '-' else f[2], None if f[3] == '-' else f[3], f[4] == '1')
        if f[0] == 's' and len(f) == 2:
            return S(uncps(f[1]))
        if f[0] == 'e' and len(f) == 2:
            return E(f[1])
        if f[0] == 'r' and len(f) in (4, 5):
            return R(f[3], f[4] if len(f) == 5 else None, f[1], uncps(f[2]))
        raise RuntimeError(f'bad wire item {t!r}')
    e = rd()
    if pos[0] != len(items):
        raise RuntimeError('trailing wire items')
    return e


ERRTEXT = {'NULL': '#NULL!', 'DIV0': '#DIV/0!', 'VALUE': '#VALUE!', 'REF': '#REF!', 'NAME': '#NAME?',
           'NUM': '#NUM!', 'NA': '#N/A'}


def render_items(e, out):
    """independent renderer of the wire form without blanks (cross-check of the Spec's `render`)"""
    k = e[0]
    if k == 'n':
        out.append(e[1] + ('' if e[2] is None else '.' + e[2]) + ('' if e[3] is None else 'E' + e[3])
                   + ('%' if e[4] else ''))
    elif k == 's':
        out.append('"' + e[1].replace('"', '""') + '"')
    elif k == 'T':
        out.append('TRUE')
    elif k == 'F':
        out.append('FALSE')
    elif k == 'e':
        out.append(ERRTEXT[e[1]])
    elif k == 'r':
        sheet = {'n': '', 'p': e[2] + '!', 'q': "'" + e[2].replace("'", "''") + "'!"}[e[1]]
        out.append(sheet + e[3] + ('' if e[4] is None else ':' + e[4]))
    elif k == 'u':
        out.append('-')
        render_items(e[1], out)
    elif k == 'p':
        out.append('(')
        render_items(e[1], out)
        out.append(')')
    elif k == 'b':
        render_items(e[2], out)
        out.append(OPSYM[e[1]])
        render_items(e[3], out)
    elif k == 'c':
        out.append(('@' if e[1] else '') + e[2] + '(')
        for i, a in enumerate(e[3]):
            if i:
                out.append(',')
            render_items(a, out)
        out.append(')')
    return out


def render0(e):
    return '=' + ''.join(render_items(e, []))


# ------------------------------------------------------------------------------------------ real code

_mods = {}


def _real_modules():
    if not _mods:
        from xlcalculator import parser, ast_nodes
        _mods['parser'], _mods['ast'] = parser, ast_nodes
    return _mods['parser'], _mods['ast']


def walk(n, ast_nodes):
    """canonical text of the tree returned by FormulaParser.parse (the same text `treeW` prints)"""
    if n is None:
        return '?'
    t = getattr(n, 'token', None)
    if t is None:
        return '?'
    v = t.tvalue
    if isinstance(n, ast_nodes.FunctionNode):
        if not isinstance(v, str) or t.ttype != 'function':
            return '?'
        return '(c ' + cps(v) + ''.join(' ' + walk(a, ast_nodes) for a in getattr(n, 'args', [])) + ')'
    if isinstance(n, ast_nodes.OperatorNode):
        if not isinstance(v, str):
            return '?'
        if t.ttype == 'operator-infix':
            return '(b %s %s %s)' % (cps(v), walk(n.left, ast_nodes), walk(n.right, ast_nodes))
        if t.ttype == 'operator-prefix':
            return '(u %s %s)' % (cps(v), walk(n.right, ast_nodes))
        return '?'
    if t.ttype != 'operand':
        return '?'
    st = t.tsubtype
    if isinstance(n, ast_nodes.RangeNode):
        return '(r ' + cps(v) + ')' if st == 'range' and isinstance(v, str) else '?'
    if st == 'number':
        if isinstance(v, float):
            if v != v or v in (float('inf'), float('-inf')):
                return '(q %r)' % v
            f = Fraction(v)
            return '(q %d/%d)' % (f.numerator, f.denominator)
        return '(n ' + cps(v) + ')' if isinstance(v, str) else '?'
    if not isinstance(v, str):
        return '?'
    if st == 'text':
        return '(s ' + cps(v) + ')'
    if st == 'logical':
        return '(B 1)' if v == 'TRUE' else '(B 0)' if v == 'FALSE' else '?'
    if st == 'error':
        return '(e ' + cps(v) + ')'
    return '?'


def real_tree(text):
    parser, ast_nodes = _real_modules()
    try:
        root = parser.FormulaParser().parse(text, {})
    except RecursionError:
        return 'X:RecursionError'
    except Exception as exc:  # noqa: BLE001 - every exception class is an outcome
        return 'X:' + type(exc).__name__
    return walk(root, ast_nodes)


QRE = re.compile(r'\(q (-?\d+)/(\d+)\)')
QTOL = Fraction(45, 10 ** 17)


def same_tree(a, b):
    """equality of canonical trees; `(q num/den)` nodes (percent literals) are compared within 2 ulp"""
    if a == b:
        return True
    if '(q ' not in a or '(q ' not in b:
        return False
    qa, qb = QRE.findall(a), QRE.findall(b)
    if len(qa) != len(qb) or QRE.sub('(q #)', a) != QRE.sub('(q #)', b):
        return False
    for (n1, d1), (n2, d2) in zip(qa, qb):
        x, y = Fraction(int(n1), int(d1)), Fraction(int(n2), int(d2))
        if x != y and abs(x - y) > QTOL * max(abs(x), abs(y)):
            return False
    return True


HUGE_EXP = re.compile(r'[0-9.][eE][+-]?[0-9]{3}')


def outcome_class(w):
    return w if w.startswith('X:') else 'tree'


# ------------------------------------------------------------------------------------------ the checker

SIZE_BUCKETS = [(1, '1'), (5, '2-5'), (15, '6-15'), (40, '16-40'), (120, '41-120'), (400, '121-400')]


def size_bucket(n):
    for hi, name in SIZE_BUCKETS:
        if n <= hi:
            return name
    return '>400'


class Checker:
    def __init__(self, ctx, res):
        self.ctx, self.res = ctx, res
        self.buf = []
        self.bytes = 0
        self.texts = []          # reservoir of well-formed texts (input of the malformed stream)
        self.seen_texts = 0
        self.nviol = 0
        self.ndrift = 0
        self.mal_buf = []
        self.mal_seen = set()
        self.constructs = {}

    # ---- well-formed stream
    def add(self, stream, seed, e):
        w = wire(e)
        self.buf.append((stream, seed, e, w))
        self.bytes += len(w)
        if len(self.buf) >= 20000 or self.bytes > 24_000_000:
            self.flush()

    def flush(self):
        buf, self.buf, self.bytes = self.buf, [], 0
        if not buf:
            return
        lines = ['C02\texpr\t%d\t%s' % (seed, w) for _, seed, _, w in buf]
        resp = self.ctx.driver.batch(lines)
        for (stream, seed, e, w), r in zip(buf, resp):
            self.check_one(stream, seed, e, w, r)

    def check_one(self, stream, seed, e, w, r):
        res = self.res
        d = parse_kv(r)
        if 'text' not in d or 'tree' not in d or 'impl' not in d:
            raise RuntimeError(f'driver answered {r[:200]!r} for expr {w[:300]!r} seed {seed}')
        if d.get('wf') != '1':
            raise RuntimeError(f'the generator produced an expression the Spec calls ill-formed: {w[:400]!r}')
        text = uncps(d['text'])
        # the Spec's rendering against an independent renderer (guards against a degenerate `render`)
        mine = render0(e)
        if seed == 0:
            if text != mine:
                raise RuntimeError(f'Spec render differs from the independent renderer: {text!r} vs {mine!r} '
                                   f'for {w[:300]!r}')
        else:
            if text.replace(' ', '').replace('\n', '') != mine.replace(' ', '').replace('\n', ''):
                raise RuntimeError(f'Spec render (seed {seed}) differs from the independent renderer beyond '
                                   f'blanks: {text!r} vs {mine!r}')
            if seed in (1, 2):
                b = ' ' if seed == 1 else '\n'
                if not (text.startswith('=' + b) and text.endswith(b)):
                    raise RuntimeError(f'Spec render with seed {seed} has no leading/trailing blank: {text!r}')
        tree, impl = d['tree'], d['impl']
        real = real_tree(text)
        res.evaluations += 1
        res.count('stream:' + stream)
        res.count('blanks:' + (str(seed) if seed < 3 else 'random'))
        items = w.split(' ')
        res.count('size:' + size_bucket(len(items)))
        cnt = self.constructs
        for it in items:
            c0 = it[0]
            key = (it if c0 in 'bTFe' else ('call@' if it[2] == '1' else 'call') if c0 == 'c' else
                   ('percent-literal' if it.endswith(':1') else 'number') if c0 == 'n' else
                   'ref-' + {'n': 'no-sheet', 'p': 'plain-sheet', 'q': 'quoted-sheet'}[it[2]] if c0 == 'r' else
                   {'s': 'string', 'u': 'unary-minus', 'p': 'parentheses'}[c0])
            cnt[key] = cnt.get(key, 0) + 1
        res.count('outcome:' + outcome_class(real))
        if ' ' in text[1:] or '\n' in text:
            res.count('text-with-blanks')
        if '(c ' in tree or '(s ' in tree:
            res.nontrivial.add(hashlib.blake2b(tree.encode(), digest_size=8).digest())
        if len(text) <= 70 and res.evaluations % 1499 == 1:
            res.sample({'formula': text, 'tree': tree, 'real': real}, limit=12)
        self.seen_texts += 1
        if len(text) <= 400:
            if len(self.texts) < 60000:
                self.texts.append(text)
            else:
                j = self.ctx.rng.randrange(self.seen_texts)
                if j < len(self.texts):
                    self.texts[j] = text
        if not same_tree(real, tree):
            what = ('parsing a well-formed formula raised ' + real[2:] if real.startswith('X:')
                    else 'the parse tree of a well-formed formula differs from the tree its text denotes')
            self.violation({'what': what,
                            'input': {'formula': text, 'expr': w, 'seed': seed, 'stream': stream},
                            'expected': tree, 'got': real})
        elif not same_tree(impl, real):
            self.drift({'stream': stream, 'formula': text, 'expr': w, 'seed': seed, 'impl_model': impl,
                        'real': real})

    def violation(self, v):
        self.nviol += 1
        vs = self.res.violations
        vs.append(v)
        if len(vs) > 1500:
            head = [x for x in vs if x['input'].get('stream') == 'regression']
            rest = sorted((x for x in vs if x['input'].get('stream') != 'regression'),
                          key=lambda x: len(x['input'].get('formula', '')))
            self.res.violations = head + rest[:300]

    def drift(self, dct):
        self.ndrift += 1
        if len(self.res.drift) < 200:
            self.res.drift.append(dct)

    # ---- malformed stream (model validation)
    def add_malformed(self, kind, text):
        if text in self.mal_seen:
            return
        if HUGE_EXP.search(text):
            # the compiled Lean model evaluates 10^exponent for a percent literal and panics beyond 2^24;
            # float() gives inf/0.0 there, which the rational model cannot mirror either: skipped
            self.res.count('malformed-skipped:huge-exponent')
            return
        self.mal_seen.add(text)
        self.mal_buf.append((kind, text))
        if len(self.mal_buf) >= 20000:
            self.flush_malformed()

    def flush_malformed(self):
        buf, self.mal_buf = self.mal_buf, []
        if not buf:
            return
        resp = self.ctx.driver.batch(['C02\tshape\t' + cps(t) for _, t in buf])
        res = self.res
        for (kind, text), r in zip(buf, resp):
            d = parse_kv(r)
            if 'impl' not in d:
                raise RuntimeError(f'driver answered {r[:200]!r} for shape of {text!r}')
            impl = d['impl']
            res.evaluations += 1
            res.count('stream:malformed')
            res.count('malformed:' + kind)
            if impl == 'unsupported':
                res.count('malformed-outcome:model-unsupported(skipped)')
                continue
            real = real_tree(text)
            res.count('malformed-outcome:' + outcome_class(real))
            if outcome_class(real) != outcome_class(impl):
                self.drift({'stream': 'malformed', 'kind': kind, 'formula': text, 'impl_model': impl,
                            'real': real, 'difference': 'outcome class'})
            elif not real.startswith('X:') and not same_tree(real, impl):
                self.drift({'stream': 'malformed', 'kind': kind, 'formula': text, 'impl_model': impl,
                            'real': real, 'difference': 'tree'})

    def finish(self):
        self.flush()
        self.flush_malformed()
        vs = self.res.violations
        head = [x for x in vs if x['input'].get('stream') == 'regression']
        rest = sorted((x for x in vs if x['input'].get('stream') != 'regression'),
                      key=lambda x: len(x['input'].get('formula', '')))
        self.res.violations = head + rest[:300]
        for k, v in sorted(self.constructs.items()):
            self.res.count('construct:' + k, v)
        self.constructs = {}
        if self.nviol:
            self.res.count('violating-cases', self.nviol)
        if self.ndrift:
            self.res.notes.append(f'{self.ndrift} model/implementation differences (model drift; the code '
                                  f'meets the Spec there or the input is outside the grammar)')


# ------------------------------------------------------------------------------------------ fixed families

A1, B1 = R('A1'), R('B1')
ONE, TWO = N('1'), N('2')


def regression_cases():
    """the fixed defects D1 and D2 (inside the grammar: their return is an ordinary violation)"""
    out = []
    d1 = [mkB('add', A1, ONE), A1, C('SUM', [A1, ONE]), S('x'), mkB('cat', S('a'), S('b')), N('5', pct=True),
          P(A1), mkU(A1), C('NOW')]
    for e in d1:                       # D1: a formula ending in a blank / newline
        out += [(1, e), (2, e)]
    d2s = [': ', ':', ':OFFSET', ':INDEX', ':OFFSET(', 'A1:OFFSET(A1,1,1)', 'x:INDEX(1)', ':A10', '::', ':x:',
           'a:INDEX', ' :OFFSET', ':offset']
    for s in d2s:                      # D2: text literals beginning with ':' / containing ':OFFSET', ':INDEX'
        out += [(0, mkB('cat', mkB('cat', A1, S(s)), B1)), (0, S(s)), (1, C('IF', [A1, S(s), S(s)])),
                (0, mkB('cat', S(s), C('OFFSET', [A1, ONE, ONE]))), (0, C('SUM', [P(S(s)), P(ONE)])),
                (3, mkB('eq', S(s), P(mkB('add', A1, ONE))))]
    return out


def child_constructs():
    kids = [('int', N('42')), ('zero', N('0')), ('decimal', N('3', '14')), ('decimal0', N('0', '5')),
            ('sci+', N('1', '5', '+10')), ('sci-', N('2', None, '-05')), ('sci-long', N('6', '02214076', '+23')),
            # scientific literals whose mantissa is not Excel's normalised d[.ddd] (defect D0101), `.5`, `5.`
            ('sci-2digit', N('80', None, '-3')), ('sci-zero-lead', N('0', '5', '+1')),
            ('sci-long-int', N('12', '5', '+0')), ('sci-100', N('100', None, '-2')),
            ('sci-dot-lead', N('', '5', '+1')), ('sci-dot-trail', N('5', '', '-1')),
            ('dot-lead', N('', '5')), ('dot-trail', N('5', '')), ('pct-dot-lead', N('', '25', pct=True)),
            ('pct-dot-trail', N('7', '', pct=True)),
            ('pct', N('50', pct=True)),
            ('pct-decimal', N('12', '5', pct=True)), ('string', S('a b')), ('string-empty', S('')),
            ('string-quote', S('say "hi", (x)')), ('TRUE', TRUE), ('FALSE', FALSE)]
    kids += [('err-' + c, E(c)) for c in CODES]
    kids += [('cell', R('A1')), ('$cell', R('$B$2')), ('range', R('A1', 'B2')), ('$range', R('$A1', 'C$3')),
             ('sheet-plain', R('A1', None, 'p', 'Sheet1')), ('sheet-quoted', R('A1', None, 'q', 'My Sheet')),
             ('sheet-quoted-range', R('$A$1', 'B2', 'q', "O'Brien (2)")),
             ('sheet-plain-range', R('A1', 'B2', 'p', 'Sheet1'))]
    kids.append(('neg', mkU(A1)))
    kids.append(('neg-neg', mkU(mkU(TWO))))
    kids += [('bin-' + o, mkB(o, A1, TWO)) for o in OPNAMES]
    kids.append(('paren', P(A1)))
    kids.append(('paren-bin', P(mkB('add', A1, TWO))))
    for at in (False, True):
        tag = '@' if at else ''
        kids += [(tag + 'call0', C('NOW', [], at)), (tag + 'call1', C('ABS', [A1], at)),
                 (tag + 'call2', C('SUM', [A1, TWO], at))]
    return kids


def parent_constructs():
    """(name, builder taking the child and a flag `redundant`)"""
    def wrap(x, red):
        return P(x) if red else x
    ps = [('neg', lambda x, red: mkU(wrap(x, red)))]
    for o in OPNAMES:
        ps.append((f'bin-{o}-left', lambda x, red, o=o: mkB(o, wrap(x, red), R('C3'))))
        ps.append((f'bin-{o}-right', lambda x, red, o=o: mkB(o, N('7'), wrap(x, red))))
    ps.append(('paren', lambda x, red: P(wrap(x, red))))
    for at in (False, True):
        tag = '@' if at else ''
        ps.append((tag + 'call-only', lambda x, red, at=at: C('F', [wrap(x, red)], at)))
        ps.append((tag + 'call-first-of-2', lambda x, red, at=at: C('IF', [wrap(x, red), S('y')], at)))
        ps.append((tag + 'call-second-of-2', lambda x, red, at=at: C('IF', [R('D4'), wrap(x, red)], at)))
        ps.append((tag + 'call-middle-of-3', lambda x, red, at=at: C('IF', [N('9'), wrap(x, red), TRUE], at)))
    return ps


def string_family(thorough):
    printable = [chr(c) for c in range(32, 127)]
    strs = []
    for c in printable:
        strs += [c, c + c]
    for d in DELIMS:
        strs += [d, d + 'ab', 'ab' + d, 'a' + d + 'b', d + 'ab' + d]
    for d1 in DELIMS:
        for d2 in DELIMS:
            strs.append(d1 + d2)
            if thorough:
                strs += ['x' + d1 + d2, d1 + 'x' + d2, d1 + d2 + 'x']
    strs += ['"', '""', '"""', '""""', '"a"', 'a""b', '",', ',"', '")', '("', '"&"', '" & "']
    strs += ['é', '日本', '😀', '\xa0', 'a\xa0b', 'naïve café', 'Ω≈ç√', '\u200b', '日本語 テキスト', '\t', 'a\tb',
             '\r\n', 'É"ü']
    strs += ['=SUM(1,2)', 'SUM(1,2)', '#N/A', '#REF!', '#DIV/0!', '#', '#FOO', '1E+5', '1E', '1E+', '9.5E-3',
             ':OFFSET(', 'A1:OFFSET(A1,1,1)', ':INDEX', ':', 'TRUE', 'FALSE', '123', '12.5%', '50%', '-1',
             "'My Sheet'!A1", 'Sheet1!A1', '$A$1', 'A1:B2', '[1]Sheet1!A1', '{1,2;3,4}', '@SUM(', 'IF(', ')(',
             '((', '))', ',,', '', ' ', '  ', ' a ', '\n', 'line1\nline2', '= 1 + 2 ', 'a' * 300,
             '"' * 9, "'" * 7, 'He said ""hi""', 'x' + ''.join(DELIMS) + 'y', ''.join(printable)]
    seen, out = set(), []
    for s in strs:
        if s not in seen:
            seen.add(s)
            out.append(s)
    return out


def string_contexts():
    return [
        ('alone', lambda s: s),
        ('cat-left', lambda s: mkB('cat', s, A1)),
        ('cat-right', lambda s: mkB('cat', A1, s)),
        ('cat-both', lambda s: mkB('cat', mkB('cat', s, s), s)),
        ('call-only', lambda s: C('LEN', [s])),
        ('call-first', lambda s: C('IF', [s, ONE])),
        ('call-last', lambda s: C('IF', [TRUE, N('0'), s])),
        ('call-all', lambda s: C('CONCATENATE', [s, S(','), s])),
        ('eq', lambda s: mkB('eq', s, S('z'))),
        ('lt-right', lambda s: mkB('lt', B1, s)),
        ('paren', lambda s: P(s)),
        ('neg', lambda s: mkU(s)),
        ('nested', lambda s: C('IF', [mkB('ne', C('TRIM', [s]), S('')), mkB('cat', s, S(' ')), E('NA')], True)),
    ]


def ref_family(thorough):
    dollars = [('', ''), ('$', ''), ('', '$'), ('$', '$')]
    cols = ['A', 'XFD', 'BC'] if not thorough else ['A', 'Z', 'BC', 'AA', 'XFD', 'ABC']
    cells = []
    for c in cols:
        for (d1, d2) in dollars:
            cells.append(d1 + c + d2 + ('1' if c == 'A' else '1048576' if c == 'XFD' else '27'))
    pairs = [(c, None) for c in cells]
    for (d1, d2) in dollars:
        for (d3, d4) in dollars:
            pairs.append((d1 + 'A' + d2 + '1', d3 + 'C' + d4 + '12'))
            pairs.append((d1 + 'AB' + d2 + '10', d3 + 'XFD' + d4 + '99'))
    plain = ['Sheet1', '_x.y', 'S2', 'Données', 'Sheet_2', 'x', 'A1', 'TRUE', 'Лист1', 'S.1', '1E', '2024', 'a!b']
    quoted = ['My Sheet', "O'Brien", "'", "''", "'''", '2024', '1E', '1E+5', '1E+', 'a+b', 'a-b', 'Sales!', '!',
              'a!b', '"', 'say "x"', '(', ')', '(1)', ',', 'a,b', '#', '#REF!', '%', '50%', 'Données', '日本',
              'a\xa0b', ' ', ' lead', 'trail ', 'new\nline', 'Sheet1', 'TRUE', '[1]Sheet1', '[Book 1.xlsx]Data',
              'a&b', 'a=b', 'a<>b', 'a*b/c^d', '{x}', 'a;b', '@', '$A$1', "it's (a) \"test\", #1 50% + more",
              'SUM(', 'x' * 31]
    refs = []
    for c1, c2 in pairs:
        refs.append(R(c1, c2))
    for name in plain:
        for c1, c2 in (pairs if thorough else pairs[::5] + [pairs[-1]]):
            refs.append(R(c1, c2, 'p', name))
    for name in quoted:
        for c1, c2 in (pairs if thorough else pairs[::7] + [pairs[-1]]):
            refs.append(R(c1, c2, 'q', name))
    return refs


def ref_contexts():
    return [
        ('alone', lambda r: r),
        ('add-left', lambda r: mkB('add', r, ONE)),
        ('add-right', lambda r: mkB('add', ONE, r)),
        ('sub-both', lambda r: mkB('sub', r, r)),
        ('cmp', lambda r: mkB('ge', r, mkB('mul', r, TWO))),
        ('cat', lambda r: mkB('cat', S("'"), r)),
        ('neg', lambda r: mkU(r)),
        ('paren', lambda r: P(r)),
        ('call-only', lambda r: C('SUM', [r])),
        ('call-mid', lambda r: C('VLOOKUP', [S('k'), r, TWO, FALSE])),
        ('call-two', lambda r: C('SUMPRODUCT', [r, r], True)),
    ]


# ------------------------------------------------------------------------------------------ random trees

FNAMES = ['SUM', 'IF', 'VLOOKUP', '_xlfn.XLOOKUP', 'INDEX', 'OFFSET', 'MAX', 'MIN', 'AND', 'OR', 'NOT', 'IFERROR',
          'CONCATENATE', 'ROUND', 'LEN', 'LEFT', 'MID', 'DATE', 'NOW', 'PI', 'COUNTIF', 'SUMIFS', 'AVERAGE', 'ABS',
          'LOG10', 'ATAN2', 'N', 'T', '_xlfn.IFS', '_xlfn.CONCAT', '_xll.MyAddIn.Func', 'MATCH', 'CHOOSE', 'TEXT']
ODDNAMES = ['A1B', 'x.y_z', 'sum', 'Sum', 'Ünï', '日本', 'TRUE', 'FALSE', 'A1', 'ARRAY', 'ARRAYROW', '1E', '9',
            'a!b', 'x]', '$f', 'q?', 'a\tb', 'f.', '_', 'É', 'a\\b', 'a~b|c', 'OFFSET1', 'INDEXX', 'e', 'E', 'None']
STRCH = list('ab Z09"\'!#%(),:;[]{}<>=+-*/^&@$.\n') + ['é', '日', '\xa0', '😀', '\t', 'E', '1']
QSHEETCH = list("ab 1'!-+(),#%\"&=<>*/^{};@$.[]E") + ['é', '日', '\n']
PSHEETS = ['Sheet1', '_x.y', 'S2', 'Données', 'Sheet_2', 'Data', 'x', 'Лист1', '2024', 'A1', '1E']
COLCH = 'ABCDEFGHIJKLMNOPQRSTUVWXYZ'


def rnd_cell(rng):
    n = rng.choice((1, 1, 1, 2, 2, 3))
    return (('$' if rng.random() < .3 else '') + ''.join(rng.choice(COLCH) for _ in range(n))
            + ('$' if rng.random() < .3 else '') + str(rng.choice((rng.randint(1, 99), rng.randint(1, 1048576)))))


def rnd_digits(rng, n, first_nonzero=False):
    s = ''.join(rng.choice('0123456789') for _ in range(n))
    if first_nonzero and s[0] == '0':
        s = rng.choice('123456789') + s[1:]
    return s


def rnd_atom(rng):
    k = rng.random()
    if k < .25:
        j = rng.random()
        if j < .25:     # scientific: Excel's normalised mantissa d[.ddd], or any decimal numeral
            fp = None if rng.random() < .4 else rnd_digits(rng, rng.randint(1, 15))
            j2 = rng.random()
            ex = ('%02d' % rng.randint(0, 99) if j2 < .8 else rnd_digits(rng, rng.randint(1, 4)) if j2 < .95
                  else '00' + rnd_digits(rng, rng.randint(1, 6)))      # (the driver cannot run exponents >= 2^24)
            j3 = rng.random()
            if j3 < .55:
                ip = rng.choice('123456789')
            elif j3 < .85:
                ip = rnd_digits(rng, rng.choice((1, 2, 2, 3, 5, 9)))
            elif j3 < .93:
                ip, fp = '', rnd_digits(rng, rng.randint(1, 6))          # .5E+1
            else:
                ip, fp = rnd_digits(rng, rng.randint(1, 4)), ''          # 5.E-1
            return N(ip, fp, rng.choice('+-') + ex)
        ip = rnd_digits(rng, rng.choice((1, 1, 2, 3, 5, 9, 15, 20)), first_nonzero=rng.random() < .8)
        fp = None if rng.random() < .5 else rnd_digits(rng, rng.randint(1, 12))
        j3 = rng.random()
        if j3 < .04:
            ip, fp = '', rnd_digits(rng, rng.randint(1, 6))              # .5
        elif j3 < .08:
            fp = ''                                                      # 5.
        return N(ip, fp, None, rng.random() < .3)
    if k < .45:
        n = rng.choice((0, 1, 1, 2, 3, 4, 6, 8, 8, 20))
        return S(''.join(rng.choice(STRCH) for _ in range(n)))
    if k < .52:
        return rng.choice((TRUE, FALSE))
    if k < .60:
        return E(rng.choice(CODES))
    sk = rng.choice('nnnpq')
    if sk == 'n':
        name = ''
    elif sk == 'p':
        name = rng.choice(PSHEETS)
    else:
        name = ''.join(rng.choice(QSHEETCH) for _ in range(rng.randint(1, 8)))
    return R(rnd_cell(rng), rnd_cell(rng) if rng.random() < .4 else None, sk, name)


def rnd_name(rng):
    return rng.choice(FNAMES) if rng.random() < .8 else rng.choice(ODDNAMES)


def split_budget(rng, total, parts):
    """`parts` positive integers summing to at most `total` (total >= parts)"""
    cuts = sorted(rng.randint(0, total - parts) for _ in range(parts - 1))
    out, prev = [], 0
    for c in cuts + [total - parts]:
        out.append(c - prev + 1)
        prev = c
    return out


SAMEPREC = {p: [o for o in OPNAMES if OPPREC[o] == p] for p in (1, 2, 3, 4, 5)}


def rnd_expr(rng, budget, depth=0, red=0.08, prefer=None):
    """a well-formed expression of at most `budget` nodes (written parentheses count as nodes); `prefer` is
    the precedence of the enclosing binary operator: operands are biased towards operators of the same
    precedence, so that associativity chains (a-b+c, 2^3^2, a-(b-c)) are frequent"""
    if budget <= 1 or depth > 90 or rng.random() < (.08 if budget <= 10 else .01):
        return rnd_atom(rng)

    def child(b, prefer=None):
        x = rnd_expr(rng, max(1, b - 1), depth + 1, red, prefer)
        return (x, b > 1 and rng.random() < red)
    k = rng.random()
    if prefer is not None and budget >= 3 and rng.random() < .3:
        k = 0.0
    if k < .42 and budget >= 3:
        op = rng.choice(SAMEPREC[prefer]) if prefer is not None and rng.random() < .5 else rng.choice(OPNAMES)
        p = OPPREC[op]
        a, b = split_budget(rng, budget - 1, 2)
        (l, rl), (r, rr) = child(a, p), child(b, p)
        l = P(l) if (level(l) < p or rl) else l
        r = P(r) if (level(r) <= p or rr) else r
        return B(op, l, r)
    if k < .52:
        x, rx = child(budget - 1)
        return U(P(x) if (level(x) < 7 or rx) else x)
    if k < .60:
        return P(rnd_expr(rng, budget - 1, depth + 1, red))
    nmax = min(budget - 1, 30 if rng.random() < .05 else 5)
    n = rng.randint(0, nmax)
    if n == 0:
        return C(rnd_name(rng), [], rng.random() < .2)
    args = []
    for b in split_budget(rng, budget - 1, n):
        x, rx = child(b)
        args.append(P(x) if rx else x)
    return C(rnd_name(rng), args, rng.random() < .2)


def rnd_seed(rng):
    k = rng.random()
    if k < .12:
        return 0
    if k < .20:
        return 1
    if k < .26:
        return 2
    return rng.randint(3, 10 ** 6)


# ------------------------------------------------------------------------------------------ malformed texts

MAL_FIXED = [
    '=SUM(1,,2)', '=SUM(,)', '=SUM(1,)', '=SUM(,1)', '=SUM(,,)', '=IF(A1,,)', '=1)', '=1+', '=*2', '=)', '=(', '=',
    '', ' ', '==', '=()', '=SUM(', '=SUM(1', '=SUM(1,2', '=SUM)', '=((1)', '=(1))', '="abc', "='abc", "='abc'",
    '="a"b"', '=#FOO', '=#', '=#N/A!', '=#REF', '={1,2;3}', '={1,2}', '={}', '=}', '={', '=;', '=A1 B1', '=1 2',
    '=SUM(1 2)', '=SUM(A1 B1)', '=(A1)(B1)', '=A1%', '=(A1)%', '=2^(3)%', '=SUM(1)%', '=1%%', '=1 %', '=%', '=a%b',
    '="x"%', '=TRUE%', '=+A1', '=++1', '=1++2', '=1+-2', '=1--2', '=-', '=--', '=1-', '=1,', '=,1', '=a,b', '=,',
    '=1<>', '=<>1', '=1=<2', '=1><2', '=1=>2', '=1<<2', '=A1:', '=:A1', '=A1:B2:C3', '=A1:OFFSET(A1,1,1)',
    '=A1:INDEX(B1:B9,2)', '=SUM(A1:OFFSET(A1,1,1))', '=:OFFSET(A1,1,1)', '=[1]Sheet1!A1', '=[Book.xlsx]S!A1',
    '=Table1[Col]', '=[', '=]', '=A1]', '=1e5', '=1E5', '=12E+1', '=1.E+1', '=1.5E+2-1', '=0E+1', '=1E+', '=1E-',
    '=1E+1%', '=.5', '=5.', '=1.2.3', '=1..2', '=@', '=@A1', '=@SUM', '=@@SUM(1)', '=SUM@(1)', '=1@2', '=$', '=!',
    '=!A1', "=''!A1", "='a'b'!A1", "='a'", '="a""', '=""""', '="', "='", '= ', '=\n', '=  1', '1+2', ' =1', '= =1',
    '=SUM (1)', '=SUM( )', '=SUM(\n)', '=( )', '=1 +', '=1 ) ', '=TRUE FALSE', '=true', '=True', '=nan', '=inf',
    '=1_0', '=Infinity', '=-inf', '=None', '=SUM(None)', '=SUM(1,None)', '=(1,2)', '=(1;2)', '=SUM((1,2))',
    '=SUM(1;2)', '=2 ^ 3 ^ 2', '=-2^2', '=2^-2', '=-A1%', '=50%%', '=(1+2', '=1+2)', '=IF(1,(2,3)', '=IF((1,2),3)',
    '=SUM(1,2))', '=SUM((1,2)', '=A1&', '=&A1', '="a"&', '=A1 & & B1', '=1 + * 2', '=1 2 3', '=A1 B1 C1',
    '=(A1 B1)', '=SUM(A1:A3 B1:B3)', '=#N/A #N/A', '="a" "b"', '=1 (2)', '=(1) 2', '=SUM(1) SUM(2)', '=SUM(1)(2)',
    '=1(2)', '=A1(2)', '="a"(1)', '=(1)SUM(2)', "='S 1'!A1 'S 1'!A2", '=A1.B1', '=A1!B1!C1', '=Sheet1!', '=!',
    '=#NULL!#NULL!', '=#N/A#N/A', '=#N/A1', '=1#N/A', '=A1"x"', "=A1'x'", '=SUM{1}', '=SUM(1}', '=SUM(1;)',
    '={1,2;3,4}+1', '=SUM({1,2})', '={"a",TRUE}', '={1,{2}}', '=\t1', '=1\t+2', '=1\r\n+2', '=１＋２',
]

MAL_ALPHA = list('A1b2+-*/^&=<>()," \'!$:;{}#%.E@\n') + ['SUM(', 'IF(', '1E', 'TRUE', '#N/A', '"x"', "'s t'!", 'A1', ',,',
                                                         '<>', '<=', ')', '(', '%', '1.5', ':OFFSET(', ':']
MAL_INS = list('"\'#%{};,:!@$ +-*/^&=<>()[]1AE.\n')


def mutate_text(rng, t):
    """break a well-formed text; returns (kind, text)"""
    k = rng.randrange(11)
    body = t
    if len(body) < 2:
        return 'insert-char', body + rng.choice(MAL_INS)
    if k == 0:
        idx = [i for i, c in enumerate(body) if c in '()']
        if idx:
            i = rng.choice(idx)
            return 'delete-paren', body[:i] + body[i + 1:]
    if k == 1:
        i = rng.randint(1, len(body))
        return 'add-paren', body[:i] + rng.choice('()') + body[i:]
    if k == 2:
        idx = [i for i, c in enumerate(body) if c in ',()']
        if idx:
            i = rng.choice(idx)
            c = body[i]
            rep = {',': ',,', '(': '(,', ')': ',)'}[c]
            return 'empty-argument', body[:i] + rep + body[i + 1:]
    if k == 3:
        i = rng.randint(1, len(body) - 1)
        return 'delete-char', body[:i] + body[i + 1:]
    if k == 4:
        i = rng.randint(1, len(body))
        return 'insert-char', body[:i] + rng.choice(MAL_INS) + body[i:]
    if k == 5:
        i = rng.randint(1, len(body) - 1)
        return 'truncate', body[:i]
    if k == 6:
        i = rng.randint(1, len(body) - 1)
        return 'duplicate-char', body[:i] + body[i] + body[i:]
    if k == 7:
        idx = [i for i, c in enumerate(body) if c == ')' or c.isdigit()]
        if idx:
            i = rng.choice(idx)
            return 'postfix-percent', body[:i + 1] + '%' + body[i + 1:]
    if k == 8:
        i = rng.randint(1, len(body))
        return 'insert-blank', body[:i] + rng.choice([' ', '\n', '  ']) + body[i:]
    if k == 9:
        i = rng.randint(1, len(body) - 1)
        j = rng.randint(i, min(len(body), i + 6))
        return 'delete-span', body[:i] + body[j:]
    i = rng.randint(1, len(body) - 1)
    j = rng.randint(1, len(body) - 1)
    if i > j:
        i, j = j, i
    return 'swap-chars', body[:i] + body[j] + body[i + 1:j] + body[i] + body[j + 1:] if i < j else body
# (a mutated text may still be well-formed - e.g. a character inserted inside a string; the malformed
#  stream compares model and code only, so this is harmless)


# ------------------------------------------------------------------------------------------ run

def load_corpus():
    out = []
    cdir = common.CORPUS / 'C02'
    if cdir.is_dir():
        for path in sorted(cdir.glob('*.json')):
            data = json.loads(path.read_text())
            for c in data.get('cases', []):
                out.append(c)
    return out


def run_replay(ctx, chk, res):
    obj = json.loads(open(ctx.replay).read())
    inp = obj.get('input')
    if isinstance(inp, dict) and 'expr' in inp:
        chk.add('replay', int(inp.get('seed', 0)), parse_wire(inp['expr']))
    elif isinstance(inp, dict) and 'formula' in inp:
        chk.add_malformed('replay', inp['formula'])
    else:
        res.notes.append('the replay file holds no failing input of C02 (nothing re-run)')
    chk.finish()
    res.rule = 'replay of one stored input'
    return res


def run(ctx):
    _real_modules()
    rng = ctx.rng
    thorough = ctx.tier == 'thorough' or ctx.widen
    res = Result()
    chk = Checker(ctx, res)
    if getattr(ctx, 'replay', None):
        return run_replay(ctx, chk, res)

    # 1. regression inputs (fixed defects D1, D2) and the corpus
    for seed, e in regression_cases():
        chk.add('regression', seed, e)
    for c in load_corpus():
        if 'expr' in c:
            chk.add('regression', int(c.get('seed', 0)), parse_wire(c['expr']))
        elif 'formula' in c:
            chk.add_malformed('corpus', c['formula'])
    chk.flush()

    # 2. exhaustive two-level combinations
    kids, parents = child_constructs(), parent_constructs()
    for pname, build in parents:
        for kname, kid in kids:
            for red in (False, True):
                e = build(kid, red)
                for seed in (0, 1, 2, rng.randint(3, 10 ** 6)):
                    chk.add('two-level', seed, e)
    for kname, kid in kids:
        for seed in (0, 1, 2, rng.randint(3, 10 ** 6)):
            chk.add('two-level', seed, kid)
    res.count('two-level:parents', len(parents))
    res.count('two-level:children', len(kids))
    res.exhaustive = True

    # 3. string contents
    strs = string_family(thorough)
    sctx = string_contexts()
    for i, s in enumerate(strs):
        lit = S(s)
        if thorough:
            for cname, f in sctx:
                for seed in (0, 1, 2, rng.randint(3, 10 ** 6)):
                    chk.add('strings', seed, f(lit))
        else:
            chk.add('strings', 0, lit)
            chk.add('strings', 1 + i % 2, lit)
            for j in range(3):
                cname, f = sctx[1 + (i * 3 + j) % (len(sctx) - 1)]
                chk.add('strings', (0, 1, 2, rng.randint(3, 10 ** 6))[(i + j) % 4], f(lit))
    res.count('strings:distinct-contents', len(strs))

    # 4. reference spellings
    refs = ref_family(thorough)
    rctx = ref_contexts()
    for i, r in enumerate(refs):
        if thorough:
            for cname, f in rctx:
                for seed in (0, 1, rng.randint(3, 10 ** 6)):
                    chk.add('references', seed, f(r))
        else:
            chk.add('references', 0, r)
            chk.add('references', 1 + i % 2, r)
            for j in range(3):
                cname, f = rctx[1 + (i * 3 + j) % (len(rctx) - 1)]
                chk.add('references', (0, 1, 2, rng.randint(3, 10 ** 6))[(i + j) % 4], f(r))
    res.count('references:distinct-spellings', len(refs))
    # a literal at the limit of the percent guard (300 integer digits)
    chk.add('references', 0, N('9' * 300, '5', None, True))
    chk.add('references', 1, mkB('mul', N('1' + '0' * 299, None, None, True), N('0' * 40 + '1', '0' * 40 + '1')))

    # 5. random trees
    plan = ([(100000, 40), (30000, 120), (10000, 400)] if thorough else [(4000, 40)])
    for count, limit in plan:
        for i in range(count):
            r = rng.random()
            if limit <= 40:
                budget = (rng.randint(1, 8) if r < .3 else rng.randint(1, limit) if r < .8
                          else rng.randint(limit // 2, limit))
            else:
                budget = rng.randint(1, limit) if r < .15 else rng.randint(limit // 3, limit)
            e = rnd_expr(rng, budget, 0, red=rng.choice((0, .05, .1, .3)))
            chk.add('random', rnd_seed(rng), e)
    chk.flush()

    # 6. malformed stream: model validation only (outcome class; trees too when both parse)
    for t in MAL_FIXED:
        chk.add_malformed('fixed', t)
    base = chk.texts
    nmut = 40000 if thorough else 3500
    for _ in range(nmut):
        if not base:
            break
        t = rng.choice(base)
        if len(t) > 120 and rng.random() < .7:
            continue
        kind, m = mutate_text(rng, t)
        chk.add_malformed(kind, m)
    nrand = 60000 if thorough else 3500
    for _ in range(nrand):
        t = '=' + ''.join(rng.choice(MAL_ALPHA) for _ in range(rng.randint(1, 12)))
        chk.add_malformed('random-tokens', t)
    chk.flush_malformed()

    # 7. known finding D3: a reference / parenthesis followed by % (outside the grammar of C02)
    wit = ['=A1%', '=2^(3)%', '=(A1)%']
    resp = ctx.driver.batch(['C02\tshape\t' + cps(t) for t in wit])
    impl = [parse_kv(r).get('impl') for r in resp]
    real = [real_tree(t) for t in wit]
    res.evaluations += len(wit)
    if real[0] == 'X:ValueError':
        if impl[0] == 'X:ValueError':
            res.known.setdefault('D3', []).append(wit[0])
        else:
            chk.drift({'stream': 'D3', 'formula': wit[0], 'impl_model': impl[0], 'real': real[0]})
    else:
        res.notes.append(f'D3 witness {wit[0]!r} no longer raises ValueError (real outcome {real[0]}); the finding '
                         f'may have been repaired - extend the grammar of C02 with a postfix %')
    mul_tree = '(b 42 (b 94 (n 50) (n 51)) (q 1/100))'
    if same_tree(real[1], mul_tree):
        if 'D3' in res.known and same_tree(impl[1], real[1]):
            res.known['D3'].append(wit[1])
    elif 'D3' in res.known:
        res.notes.append(f'D3 witness {wit[1]!r} now parses to {real[1]} (was the multiplication (2^3)*0.01)')
    if impl[2] is not None and not same_tree(impl[2], real[2]):
        chk.drift({'stream': 'D3', 'formula': wit[2], 'impl_model': impl[2], 'real': real[2]})
    chk.finish()

    res.rule = (
        'abstract expressions of the grammar Spec/C02.lean (calls, 12 binary operators, unary minus, written '
        'parentheses, numbers, percent literals, strings, booleans, 7 error literals, plain/$/sheet-qualified '
        'cells and ranges) are rendered by the Spec with a blank oracle (none / a space in every slot / a '
        'newline in every slot / pseudo-random runs), parsed by the real FormulaParser and compared with '
        'treeOf (Spec) and with the Lean model. Streams: regression inputs D1, D2; EXHAUSTIVE two-level '
        'combinations: every parent construct (unary minus, each binary operator with the child left/right, '
        'parentheses, call with the child as only/first-of-2/second-of-2/middle-of-3 argument, with and '
        'without @) x every child construct (each atom kind, unary minus, each binary operator, parentheses, '
        'calls of 0/1/2 arguments with and without @) x minimal/redundant parentheses x 4 blank placements; '
        'string contents (every printable ASCII character alone and doubled, every delimiter alone/at the '
        'start/at the end/in pairs, quotes only, non-ASCII, formula-like and error-like texts) in 13 '
        'contexts; reference spellings ($ combinations, column lengths, plain and quoted sheet names with '
        'blanks, apostrophes, digits, punctuation) in 11 contexts; random trees (<= 40 nodes quick, <= 400 '
        'thorough) with random blanks and redundant parentheses; a malformed stream (broken parentheses, '
        'empty arguments, stray characters, random token strings) comparing only model and code. '
        'Non-trivial = distinct denoted trees with at least one call or string')
    return res
