"""C03 — references denote exactly the addressed cells on the right sheet (DESIGN.md §4 C03)."""
import importlib
import json
import os
import re
import tempfile
import time
from fractions import Fraction

import common
from common import Result, parse_kv

LEVEL_TEXT = (
    'Lean theorems over a statement-by-statement model of the reference machinery (tokenizer col2num/num2col '
    'and the quote state, utils.resolve_sheet/resolve_address/resolve_ranges, XLFormula.terms, '
    'RangeNode.full_address/eval with the MAX_EMPTY counters, Evaluator.evaluate with one context per cell, '
    'read_and_parse_dict/build_defined_names/build_ranges/build_code): col_roundtrip (unbounded bijective '
    'base 26, both directions) and agreement with openpyxl on 1..18278; rect_shape (every $ spelling and sheet '
    'prefix of C1R1:C2R2 resolves to exactly the rows x cols addresses of Spec.rect, row-major, no duplicates); '
    'dollar_irrelevant; sheet_default (evaluation = evaluation of the workbook whose formulas are qualified with '
    'their own sheet, under ANY context policy, by induction on the evaluation depth); C03_range_partial '
    '(every member value exactly once under the decidable guard "no run of more than MAX_EMPTY blanks", with the '
    'kernel-checked counter-example for D6); build_registers_resolved_ranges; terms_complete / '
    'terms_distinct_sheets / build_ranges_registers_terms (every range operand of a formula, also equal coordinates '
    'on different sheets, is recorded and registered); reference_denotes_cell/range '
    '(evaluation of a spelt reference = Spec.denoteRef); blank_not_error; name_denotes. The model is tied to the '
    'running code by a differential run over generated multi-sheet workbooks (dict and .xlsx), direct '
    'resolve_ranges calls and the exhaustive column range.')
LEVEL_NOTE = (
    'Partial: range_values_once holds only under the no-truncation guard (known finding D6, full statement kept '
    'as a comment with the counter-example range_truncated); sheet names with a comma are known finding D0303 '
    '(rect_shape carries the guard "no comma in the sheet name"); a name on a cell that is empty at build time is '
    'dropped and stays unbound when the cell is filled later (D0304, asserted by the repository tests). Trusted: Lean kernel, the hand models of '
    'openpyxl regular expressions, the correspondence harness; functions and operators are parameters of the '
    'evaluation theorems.')
DESIGN_REF = '§4 C03'

# theorems of the integrated pipeline model (Props/X01.lean) that carry this property's theorems to formula TEXTS in a
# compiled workbook; re-built and audited with this check (harness/common.prepare: soft obligations)
TRANSPORT = ('XlVerif.Props.X01', ['toFx_reference', 'toFx_reference_term', 'toFx_reference_dollar'])

TRUSTED = [
    'Lean 4.33 kernel; axioms propext, Classical.choice, Quot.sound only',
    'hand-written model lean/XlVerif/Model/C03.lean of tokenizer.py (col2num, num2col, quote state), utils.py, '
    'xltypes.py, ast_nodes.py (RangeNode, EvalContext), evaluator.py and model.py, tied to the code by this '
    'correspondence run (not proved equal to the Python)',
    'openpyxl COORD_RE, ABSOLUTE_RE/range_boundaries, SHEET_TITLE, get_column_letter, column_index_from_string: '
    'hand models validated by correspondence; openpyxl reading/writing .xlsx files',
    'tokenizer and parser outside the quote state (C01/C02): formulas are given to the model as trees',
    'SUM, COUNTA and + on the probe results are modelled only as far as the probes need (C14/C07 own them)',
    'the harness: its own base-26 column naming, its rendering of formula texts and its parsing of address texts',
]
ASSUMPTIONS = [
    'sheet names: no leading/trailing blanks; "," only as the witness of D0303; sheet names and column letters are spelt in the case of the workbook (case-insensitive '
    'matching is not part of the statement)',
    'an empty text and BLANK are both accepted as "blank" when values are compared (func_xltypes.Blank.is_blank '
    'does so); arithmetic on an empty cell must give the number (=REF+0 is 0)',
    'cells hold numbers, texts that are not numerals, booleans or formulas with scalar results; a formula whose '
    'result is an array is only used as a probe',
    'COUNTA probes address at most 200 cells (C14 D1404); workbooks are acyclic; reference chains are at most 200 '
    'formula cells deep (about 245 is where the interpreter raises RecursionError on this tree; the models use fuel 400)',
    'reversed corners (B2:A1), multi-area texts (A1,B2) and malformed texts given to resolve_ranges are compared '
    'with the model only (the statement is silent)',
    'references to undefined names are outside the domain',
]

MAX_COL = 18278
MAX_ROW = 1048576
LISTED_PRIORITY = ['D0303', 'D0304']     # workbook-level guards; D6 is decided per probe


# ---------------------------------------------------------------- small independent helpers

def colname(n):
    """bijective base 26, written independently of the code under test"""
    s = ''
    while n > 0:
        n, r = divmod(n - 1, 26)
        s = chr(65 + r) + s
    return s


def colvalue(s):
    v = 0
    for ch in s:
        v = v * 26 + (ord(ch) - 64)
    return v


def enc(s):
    return '.'.join(str(ord(c)) for c in s)


def dec(s):
    return '' if s == '' else ''.join(chr(int(x)) for x in s.split('.'))


def T(s):
    return 'T:' + enc(s)


PLAIN_SHEET = re.compile(r'^[A-Za-z_][A-Za-z0-9_]*$')
CELL_LIKE = re.compile(r'^[A-Za-z]{1,3}[0-9]+$')


def must_quote(sheet):
    return not PLAIN_SHEET.match(sheet) or bool(CELL_LIKE.match(sheet))


def quote(sheet):
    return "'" + sheet.replace("'", "''") + "'"


def coord(c, r, dc=False, dr=False):
    return ('$' if dc else '') + colname(c) + ('$' if dr else '') + str(r)


def parse_addr(text):
    """'Sheet!AB12' -> (sheet, col, row) with the harness' own arithmetic"""
    sheet, _, co = text.rpartition('!')
    m = re.match(r'^([A-Z]+)([0-9]+)$', co)
    if not m:
        return None
    return sheet, colvalue(m.group(1)), int(m.group(2))


# ---------------------------------------------------------------- wire values

def w_value(v):
    if isinstance(v, bool):
        return 'B:1' if v else 'B:0'
    if isinstance(v, int):
        return f'I:{v}'
    if isinstance(v, float):
        return 'F:' + common.w_frac(Fraction(v))
    if isinstance(v, str):
        return T(v)
    if v is None:
        return 'Z'
    raise ValueError(v)


def canon_real(value):
    """wire form of what Evaluator.evaluate returned; arrays keep their ragged rows (pandas pads the
    rows cut short by the MAX_EMPTY logic with None)"""
    from xlcalculator.xlfunctions import func_xltypes as ft
    if isinstance(value, ft.Array):
        rows = []
        for row in value.values.tolist():
            row = list(row)
            while row and (row[-1] is None or (isinstance(row[-1], float) and row[-1] != row[-1])):
                row.pop()
            rows.append(','.join('P' if x is None else common.canon(x) for x in row))
        return 'A:' + ';'.join(rows)
    return common.canon(value)


def norm_scalar(w):
    if w in ('Z', 'T:'):
        return 'Z'
    n = common.num_value(w)
    if n is not None:
        return ('n', n)
    return w


def norm(w):
    """comparable form: numbers numerically, empty text == blank"""
    if w.startswith('A:'):
        body = w[2:]
        if body == '':
            return ('A',)
        return ('A',) + tuple(tuple(norm_scalar(x) for x in row.split(',')) if row else ()
                              for row in body.split(';'))
    return norm_scalar(w)


# ---------------------------------------------------------------- scenarios

def ast_text(a):
    k = a[0]
    if k == 'n':
        return str(a[1])
    if k == 'r':
        return a[1]
    if k == 'u':
        return ('SUM' if a[1] == 0 else 'COUNTA') + '(' + ast_text(a[2]) + ')'
    if k == 'b':
        return ast_text(a[2]) + ('-' if a[1] == 1 else '+') + ast_text(a[3])
    raise ValueError(a)


def ast_rpn(a, out):
    k = a[0]
    if k == 'n':
        out.append(f'n{a[1]}')
    elif k == 'r':
        _, raw, kind, sheet, c1, r1, c2, r2 = a
        sh = '*' if sheet is None else enc(sheet)
        out.append('r' + '^'.join([enc(raw), kind, sh, str(c1), str(r1), str(c2), str(r2)]))
    elif k == 'u':
        ast_rpn(a[2], out)
        out.append(f'u{a[1]}')
    elif k == 'b':
        ast_rpn(a[2], out)
        ast_rpn(a[3], out)
        out.append(f'b{a[1]}')
    else:
        raise ValueError(a)
    return out


def ast_refs(a):
    if a[0] == 'r':
        return [a]
    if a[0] == 'u':
        return ast_refs(a[2])
    if a[0] == 'b':
        return ast_refs(a[2]) + ast_refs(a[3])
    return []


def cell_key(scn, c):
    co = colname(c['col']) + str(c['row'])
    if c.get('keyq', True) or c['sheet'] != scn['default']:
        return f"{c['sheet']}!{co}"
    return co


def scenario_line(scn):
    items = []
    for c in scn['cells']:
        if isinstance(c['v'], dict):
            content = 'f' + '~'.join(ast_rpn(c['v']['f'], []))
        else:
            content = 'c' + w_value(c['v'])
        items.append('@'.join([enc(cell_key(scn, c)), enc(c['sheet']), str(c['col']), str(c['row']), content]))
    names = []
    for n in scn.get('names', []):
        names.append('@'.join([enc(n['name']), enc(n['text']), n['kind'], enc(n['sheet']),
                               str(n['c1']), str(n['r1']), str(n['c2']), str(n['r2'])]))
    probes = []
    for p in scn['probes']:
        if 'name' in p:
            probes.append('@'.join([enc(p['name']), 'n', '', '0', '0']))
        else:
            addr = f"{p['sheet']}!{colname(p['col'])}{p['row']}"
            probes.append('@'.join([enc(addr), 'a', enc(p['sheet']), str(p['col']), str(p['row'])]))
    fields = ['C03', 'EV', T(scn['default']), ';'.join(items), ';'.join(names), ';'.join(probes)]
    if scn.get('updates'):
        fields.append(';'.join('@'.join([enc(f"{u['sheet']}!{colname(u['col'])}{u['row']}"), enc(u['sheet']),
                                         str(u['col']), str(u['row']), w_value(u['v'])]) for u in scn['updates']))
    return '\t'.join(fields)


def probe_addr(p):
    if 'name' in p:
        return p['name']
    return f"{p['sheet']}!{colname(p['col'])}{p['row']}"


def build_real(scn, tmpdir=None):
    """the real model, through the public API"""
    from xlcalculator import ModelCompiler
    names = {n['name']: n['text'] for n in scn.get('names', [])}
    if scn.get('via') == 'xlsx':
        import openpyxl
        from openpyxl.workbook.defined_name import DefinedName
        wb = openpyxl.Workbook()
        sheets = []
        for c in scn['cells']:
            if c['sheet'] not in sheets:
                sheets.append(c['sheet'])
        for s in scn.get('sheets', []):
            if s not in sheets:
                sheets.append(s)
        first = True
        ws = {}
        for s in sheets:
            if first:
                ws[s] = wb.active
                ws[s].title = s
                first = False
            else:
                ws[s] = wb.create_sheet(s)
        for c in scn['cells']:
            v = c['v']
            if isinstance(v, dict):
                v = '=' + ast_text(v['f'])
            ws[c['sheet']].cell(row=c['row'], column=c['col'], value=v)
        for n, t in names.items():
            wb.defined_names[n] = DefinedName(n, attr_text=t)
        path = os.path.join(tmpdir, 'wb.xlsx')
        wb.save(path)
        return ModelCompiler().read_and_parse_archive(path)

    class Compiler(ModelCompiler):
        """read_and_parse_dict with the defined names bound where parse_archive binds them:
        after the cells are read and before build_ranges"""

        def build_ranges(self, default_sheet=None):
            if names:
                self.defined_names = dict(names)
                self.build_defined_names()
                self.link_cells_to_defined_names()
            super().build_ranges(default_sheet=default_sheet)

    d = {}
    for c in scn['cells']:
        v = c['v']
        if isinstance(v, dict):
            v = '=' + ast_text(v['f'])
        d[cell_key(scn, c)] = v
    return Compiler().read_and_parse_dict(d, default_sheet=scn['default'])


def _eval_probes(ev, scn):
    out = []
    for p in scn['probes']:
        try:
            out.append(canon_real(ev.evaluate(probe_addr(p))))
        except RecursionError:
            out.append('X:RecursionError')
        except Exception as exc:  # noqa: BLE001
            out.append('X:' + type(exc).__name__)
    return out


def updated_scenario(scn):
    """the workbook after the set_cell_value steps, as a scenario of its own (for a fresh compile)"""
    cells = [dict(c) for c in scn['cells']]
    for u in scn['updates']:
        for c in cells:
            if (c['sheet'], c['col'], c['row']) == (u['sheet'], u['col'], u['row']):
                if not isinstance(c['v'], dict):
                    c['v'] = u['v']
                break
        else:
            cells.append({'sheet': u['sheet'], 'col': u['col'], 'row': u['row'], 'v': u['v'], 'keyq': True})
    t = dict(scn, cells=cells)
    t.pop('updates')
    return t


def eval_real(scn, tmpdir):
    """values of the probes; with `updates`: followed by their values after the set_cell_value steps on the
    SAME model and evaluator.  Second result: the values in a freshly compiled model of the updated workbook."""
    from xlcalculator import Evaluator
    n = len(scn['probes'])
    passes = 2 if scn.get('updates') else 1
    try:
        model = build_real(scn, tmpdir)
    except Exception as exc:  # noqa: BLE001
        return ['X:build:' + type(exc).__name__] * (n * passes), None
    ev = Evaluator(model)
    out = _eval_probes(ev, scn)
    fresh = None
    if passes == 2:
        try:
            for u in scn['updates']:
                ev.set_cell_value(f"{u['sheet']}!{colname(u['col'])}{u['row']}", u['v'])
            out += _eval_probes(ev, scn)
        except Exception as exc:  # noqa: BLE001
            out += ['X:set:' + type(exc).__name__] * n
        try:
            t = updated_scenario(scn)
            fresh = _eval_probes(Evaluator(build_real(t, tmpdir)), t)
        except Exception as exc:  # noqa: BLE001
            fresh = ['X:build:' + type(exc).__name__] * n
    return out, fresh


def probe_formula(scn, p):
    if 'name' in p:
        return 'evaluate(' + p['name'] + ')'
    for c in scn['cells']:
        if (c['sheet'], c['col'], c['row']) == (p['sheet'], p['col'], p['row']):
            if isinstance(c['v'], dict):
                return probe_addr(p) + ': =' + ast_text(c['v']['f'])
            return probe_addr(p) + ': ' + repr(c['v'])
    return probe_addr(p) + ': (empty)'


# ---------------------------------------------------------------- generators

SHEET_POOL = ['Sheet1', 'Sheet2', 'Data', 'My Sheet', "It's", '2024', 'a b c', "O'Neil's x", 'Sheet 3', 'S_1',
              'Año', 'T-1', 'x.y', '(b)', 'a^b', 'q"t', 'Sheet10', 'sheet_1', 'US$', 'A!B', '$', 'x!']


def gen_value(rng):
    k = rng.random()
    if k < 0.72:
        return rng.randint(1, 999)
    if k < 0.8:
        return rng.randint(1, 99) + 0.5
    if k < 0.9:
        return rng.choice(['x', 'ab', "it's", 'A1', 'total'])
    if k < 0.95:
        return rng.choice([True, False])
    return 0


def spell_sheet(rng, sheet, here, force_qualified=False):
    """prefix of a reference to `sheet` written in a formula on sheet `here`; None = unqualified"""
    if sheet == here and not force_qualified and rng.random() < 0.6:
        return None
    if must_quote(sheet) or rng.random() < 0.3:
        return quote(sheet) + '!'
    return sheet + '!'


def ref_cell(rng, sheet, c, r, here, flags=None, force_qualified=False):
    pre = spell_sheet(rng, sheet, here, force_qualified)
    dc, dr = flags if flags is not None else (rng.random() < 0.4, rng.random() < 0.4)
    raw = (pre or '') + coord(c, r, dc, dr)
    return ['r', raw, 'c', None if pre is None else sheet, c, r, c, r]


def ref_range(rng, sheet, c1, r1, c2, r2, here, flags=None, force_qualified=False):
    pre = spell_sheet(rng, sheet, here, force_qualified)
    f = flags if flags is not None else tuple(rng.random() < 0.35 for _ in range(4))
    raw = (pre or '') + coord(c1, r1, f[0], f[1]) + ':' + coord(c2, r2, f[2], f[3])
    return ['r', raw, 'r', None if pre is None else sheet, c1, r1, c2, r2]


def gen_scenario(rng, mode=None, via=None, special_sheet=None):
    nsheets = rng.choice([1, 2, 2, 3, 3, 4])
    pool = list(SHEET_POOL)
    rng.shuffle(pool)
    sheets = pool[:nsheets]
    if special_sheet and special_sheet not in sheets:
        sheets[rng.randrange(nsheets)] = special_sheet
    if rng.random() < 0.6 and 'Sheet1' not in sheets:
        sheets[0] = 'Sheet1'
    assert len(set(sheets)) == len(sheets)
    default = sheets[0] if rng.random() < 0.8 else rng.choice(sheets)
    via = via or 'dict'
    mode = mode or rng.choice(['small', 'small', 'small', 'wide', 'long', 'block', 'long2'])
    oc = rng.choice([1, 1, 1, 1, 2, 24, 25, 26, 27, 700, 701, 702, 703, 18240])
    orow = rng.choice([1, 1, 1, 1, 2, 7, 9, 10, 98, 99, 100, 998, 1048000])
    if mode == 'small':
        h, w = rng.randint(1, 6), rng.randint(1, 6)
        dens = rng.choice([0.95, 0.6, 0.3])
    elif mode == 'wide':
        h, w = rng.randint(1, 3), rng.randint(8, 30)
        dens = rng.choice([0.9, 0.4, 0.1])
    elif mode == 'long':
        h, w = rng.randint(90, 320), 1
        dens = rng.choice([0.9, 0.3, 0.02, 0.0])
    elif mode == 'long2':
        h, w = rng.randint(60, 240), 2
        dens = rng.choice([0.5, 0.02, 0.0])
    else:  # block
        h, w = rng.randint(9, 14), rng.randint(9, 14)
        dens = rng.choice([0.5, 0.05, 0.01])
    cells = []
    content = {}                      # (sheet, c, r) -> value | ast-dict

    def put(sheet, c, r, v):
        content[(sheet, c, r)] = v
        cells.append({'sheet': sheet, 'col': c, 'row': r, 'v': v, 'keyq': rng.random() < 0.5})

    for si in reversed(range(len(sheets))):       # later sheets first: formulas read what exists already
        s = sheets[si]
        for r in range(orow, orow + h):
            for c in range(oc, oc + w):
                first_or_last = (r, c) in ((orow, oc), (orow + h - 1, oc + w - 1))
                if rng.random() < dens or (first_or_last and rng.random() < 0.8):
                    cands = [k for k in content if k[0] == s or sheets.index(k[0]) > si] if rng.random() < 0.08 else []
                    if cands:
                        # a formula cell: reads a filled earlier cell of this sheet or of a later sheet
                        ts, tc, tr = rng.choice(cands)
                        a = ['b', 0, ref_cell(rng, ts, tc, tr, s), ['n', rng.randint(0, 9)]]
                        put(s, c, r, {'f': a})
                    else:
                        put(s, c, r, gen_value(rng))
    # reference chain: column kc holds the chain, column kc+1 the constants of the sheets.  Depth 2 .. 200 formula
    # cells (the interpreter's own limit is about 245 on this tree), crossing to another sheet at every hop or
    # staying on one sheet, every spelling of the reference; it is evaluated from the far end (below)
    kc = oc + w + 3
    dk = rng.random()
    if dk < 0.6:
        depth = rng.randint(2, 9)
    elif dk < 0.8:
        depth = rng.randint(10, 100)
    else:
        depth = rng.choice([rng.randint(101, 200), rng.randint(101, 200), 120, 126, 128, 140, 160, 180, 200])
    crow = orow
    cross = len(sheets) > 1 and rng.random() < 0.65
    base = rng.randrange(len(sheets))
    seq = [sheets[(base + i) % len(sheets)] if cross else sheets[base] for i in range(depth + 1)]

    def need_const(sheet, row):
        if (sheet, kc + 1, row) not in content:
            put(sheet, kc + 1, row, rng.randint(1, 9999))

    if depth <= 9:
        for s in sheets:                      # every sheet has its own constants: a wrong sheet shows
            for i in range(depth + 1):
                need_const(s, crow + i)
    for i in range(depth):
        s, nxt = seq[i], seq[i + 1]
        step = ref_cell(rng, nxt, kc, crow + i + 1, s, force_qualified=(nxt != s))
        form = rng.random()
        if form < 0.55:
            need_const(s, crow + i)
            own = ref_cell(rng, s, kc + 1, crow + i, s)
            if rng.random() < (0.3 if depth <= 9 else 0.05):
                need_const(s, crow + i + 1)
                own = ['u', 0, ref_range(rng, s, kc + 1, crow + i, kc + 1, crow + i + 1, s)]
            a = ['b', 0, own, step]
        elif form < 0.85:
            a = ['b', rng.choice([0, 0, 1]), step, ['n', rng.randint(0, 9)]]
        else:
            a = step
        put(s, kc, crow + i, {'f': a})
    last = seq[depth]
    need_const(last, crow + depth)
    put(last, kc, crow + depth, {'f': ref_cell(rng, last, kc + 1, crow + depth, last)})
    # dependency block: level 0 = inputs (column dcol on one sheet), level 1 = formulas over level 0 on another
    # sheet (column dcol+1), level 2 = formulas over level 1 on a third (column dcol+2); rows crow .. crow+2
    dcol = oc + w + 5
    dsheets = [sheets[(j + rng.randrange(len(sheets))) % len(sheets)] for j in range(3)]
    drows = rng.randint(2, 4)
    for i in range(drows):
        put(dsheets[0], dcol, crow + i, rng.randint(1, 99))
        put(dsheets[1], dcol + 1, crow + i, {'f': ['b', 0, ref_cell(rng, dsheets[0], dcol, crow + i, dsheets[1]),
                                                     ['n', rng.randint(0, 9)]]})
        if i == 0 or rng.random() < 0.7:
            put(dsheets[2], dcol + 2, crow + i, {'f': ['b', rng.choice([0, 1]),
                                                        ref_cell(rng, dsheets[1], dcol + 1, crow + i, dsheets[2]),
                                                        ['n', rng.randint(0, 9)]]})
        else:
            put(dsheets[2], dcol + 2, crow + i, rng.randint(1, 99))
    # defined names
    names = []
    for i in range(rng.choice([0, 0, 1, 2, 3])):
        ts = rng.choice(sheets)
        dollar = rng.random() < 0.85
        if rng.random() < 0.5:
            c, r = rng.randrange(oc, oc + w + 1), rng.randrange(orow, orow + h + 1)
            text = quote(ts) if (must_quote(ts) or rng.random() < 0.2) else ts
            text += '!' + coord(c, r, dollar, dollar)
            names.append({'name': f'nm_{i}', 'text': text, 'kind': 'c', 'sheet': ts, 'c1': c, 'r1': r, 'c2': c, 'r2': r})
        else:
            c1 = rng.randrange(oc, oc + w)
            c2 = rng.randrange(c1, oc + w)
            r1 = rng.randrange(orow, orow + h)
            r2 = rng.randrange(r1, orow + h)
            text = quote(ts) if (must_quote(ts) or rng.random() < 0.2) else ts
            text += '!' + coord(c1, r1, dollar, dollar) + ':' + coord(c2, r2, dollar, dollar)
            names.append({'name': f'rng_{i}', 'text': text, 'kind': 'r', 'sheet': ts, 'c1': c1, 'r1': r1, 'c2': c2, 'r2': r2})
    # probes
    pc = oc + w + 8
    prow = [orow] * len(sheets)
    probes = []
    nprobe = rng.randint(18, 30)

    def add_probe(here, ast):
        si = sheets.index(here)
        r = prow[si]
        prow[si] += 1
        put(here, pc, r, {'f': ast})
        probes.append({'sheet': here, 'col': pc, 'row': r})

    def same_coords_probe(here):
        """two or three references with EQUAL coordinates on different sheets (or the same sheet in different
        spellings) in one formula"""
        targets = list(sheets)
        rng.shuffle(targets)
        targets = targets[:rng.choice([2, 2, 3])] if len(targets) > 1 else [sheets[0], sheets[0]]
        kind = rng.random()
        if kind < 0.35:
            c, r = rng.randrange(oc, oc + w + 1), rng.randrange(orow, orow + h + 1)
            parts = [ref_cell(rng, ts, c, r, here) for ts in targets]
        else:
            if rng.random() < 0.4:
                c1, r1, c2, r2 = oc, orow, oc + w - 1, orow + h - 1
            else:
                c1 = rng.randrange(oc, oc + w)
                c2 = rng.randrange(c1, oc + w)
                r1 = rng.randrange(orow, orow + h)
                r2 = rng.randrange(r1, orow + h)
            f = 1 if (kind > 0.75 and (c2 - c1 + 1) * (r2 - r1 + 1) <= 200) else 0
            parts = [['u', f, ref_range(rng, ts, c1, r1, c2, r2, here)] for ts in targets]
        a = parts[0]
        for q in parts[1:]:
            a = ['b', rng.choice([0, 1]), a, q]
        add_probe(here, a)

    for _ in range(rng.randint(3, 6)):
        same_coords_probe(rng.choice(sheets))
    # range consumers over the dependency block (re-evaluated after the inputs change)
    for lvl in range(3):
        a = ref_range(rng, dsheets[lvl], dcol + lvl, crow, dcol + lvl, crow + drows - 1, rng.choice(sheets))
        here = rng.choice(sheets)
        a = ref_range(rng, dsheets[lvl], dcol + lvl, crow, dcol + lvl, crow + drows - 1, here)
        add_probe(here, ['u', 0, a] if rng.random() < 0.7 else a)
    for _ in range(nprobe):
        here = rng.choice(sheets)
        ts = rng.choice(sheets) if rng.random() < 0.6 else here
        k = rng.random()
        if k < 0.3:
            c, r = rng.randrange(oc, oc + w + 2), rng.randrange(orow, orow + h + 2)
            a = ref_cell(rng, ts, c, r, here)
            add_probe(here, a if rng.random() < 0.5 else ['b', 0, a, ['n', 0]])
        elif k < 0.85:
            kind = rng.random()
            if kind < 0.3:
                c1, r1, c2, r2 = oc, orow, oc + w - 1, orow + h - 1          # the whole used area
            elif kind < 0.45:
                c1, r1, c2, r2 = oc, orow, oc + w, orow + h                   # one beyond (empty margin)
            else:
                c1 = rng.randrange(oc, oc + w)
                c2 = rng.randrange(c1, oc + w)
                r1 = rng.randrange(orow, orow + h)
                r2 = rng.randrange(r1, orow + h)
            a = ref_range(rng, ts, c1, r1, c2, r2, here)
            ncell = (c2 - c1 + 1) * (r2 - r1 + 1)
            fk = rng.random()
            if fk < 0.25:
                add_probe(here, a)
            elif fk < 0.7 or ncell > 200:
                add_probe(here, ['u', 0, a])
            else:
                add_probe(here, ['u', 1, a])
        elif names:
            n = rng.choice(names)
            a = ['r', n['name'], 'n', n['name'], 0, 0, 0, 0]
            if n['kind'] == 'c':
                fk = rng.random()
                if fk < 0.4:
                    add_probe(here, a)
                elif fk < 0.8:
                    add_probe(here, ['b', 0, a, ['n', 0]])
                else:
                    probes.append({'name': n['name']})
            else:
                add_probe(here, ['u', 0, a] if rng.random() < 0.7 else a)
        else:
            add_probe(here, ref_cell(rng, seq[0], kc, crow, here, force_qualified=True))
    # the chain itself, read directly and through a reference
    probes.append({'sheet': seq[0], 'col': kc, 'row': crow})
    add_probe(rng.choice(sheets), ref_cell(rng, seq[0], kc, crow, seq[0], force_qualified=True))
    # set_cell_value steps: inputs of the dependency block (depth 1, 2 and 3 below the three range probes), a chain
    # constant, constants and empty cells of the used area
    updates = []
    if rng.random() < 0.8:
        for i in rng.sample(range(drows), rng.randint(1, drows)):
            updates.append({'sheet': dsheets[0], 'col': dcol, 'row': crow + i, 'v': rng.randint(100, 9999)})
        # the start of the chain (its far end is probed), and a constant somewhere along it
        updates.append({'sheet': last, 'col': kc + 1, 'row': crow + depth, 'v': rng.randint(10000, 99999)})
        consts = [k for k in content if k[1] == kc + 1 and not isinstance(content[k], dict)]
        s_, c_, r_ = rng.choice(consts)
        updates.append({'sheet': s_, 'col': c_, 'row': r_, 'v': rng.randint(10000, 99999)})
        for _ in range(rng.randint(0, 3)):
            s_, c_, r_ = rng.choice(sheets), rng.randrange(oc, oc + w), rng.randrange(orow, orow + h)
            if not isinstance(content.get((s_, c_, r_)), dict):
                updates.append({'sheet': s_, 'col': c_, 'row': r_, 'v': rng.randint(1000, 9999)})
    scn = {'default': default, 'via': via, 'sheets': sheets, 'cells': cells, 'names': names, 'probes': probes,
           'shape': f'{nsheets}sh/{mode}/{h}x{w}@{colname(oc)}{orow}/{via}/chain{depth}{"x" if cross else ""}'}
    if updates:
        scn['updates'] = updates
    return scn


# fixed regression / witness scenarios (run first on every run)

def _c(sheet, col, row, v, keyq=True):
    return {'sheet': sheet, 'col': col, 'row': row, 'v': v, 'keyq': keyq}


def _f(a):
    return {'f': a}


def fixed_scenarios():
    S1 = 'Sheet1'
    out = []
    # D6 witness: =SUM(A1:A300) with A1=1, A300=5
    rg = ['r', 'A1:A300', 'r', None, 1, 1, 1, 300]
    out.append(('D6-witness', {'default': S1, 'via': 'dict', 'names': [], 'cells': [
        _c(S1, 1, 1, 1, False), _c(S1, 1, 300, 5, False), _c(S1, 16, 1, _f(['u', 0, rg]), False),
        _c(S1, 16, 2, _f(rg), False)],
        'probes': [{'sheet': S1, 'col': 16, 'row': 1}, {'sheet': S1, 'col': 16, 'row': 2}], 'shape': 'D6-witness'}))
    # D6: 12x12 block, values in the corners only
    rb = ['r', '$A$1:$L$12', 'r', None, 1, 1, 12, 12]
    out.append(('D6-block', {'default': S1, 'via': 'dict', 'names': [], 'cells': [
        _c(S1, 1, 1, 2), _c(S1, 12, 12, 4), _c(S1, 3, 11, 9), _c(S1, 16, 1, _f(['u', 0, rb])),
        _c(S1, 16, 2, _f(rb)), _c(S1, 16, 3, _f(['u', 1, rb]))],
        'probes': [{'sheet': S1, 'col': 16, 'row': k} for k in (1, 2, 3)], 'shape': 'D6-block'}))
    # D5: $ in single-cell references
    cells = [_c(S1, 1, 1, 3, False)]
    probes = []
    for i, (dc, dr) in enumerate([(0, 0), (1, 0), (0, 1), (1, 1)]):
        a = ['r', coord(1, 1, dc, dr), 'c', None, 1, 1, 1, 1]
        cells.append(_c(S1, 2, i + 1, _f(['b', 0, a, a]), False))
        probes.append({'sheet': S1, 'col': 2, 'row': i + 1})
    out.append(('D5-dollar', {'default': S1, 'via': 'dict', 'names': [], 'cells': cells, 'probes': probes,
                              'shape': 'D5'}))
    # D7/D9: names bound to a range / to a cell on a quoted sheet (dict and xlsx)
    for via in ('dict', 'xlsx'):
        nm = [{'name': 'rng', 'text': 'Sheet1!$A$1:$A$2', 'kind': 'r', 'sheet': S1, 'c1': 1, 'r1': 1, 'c2': 1, 'r2': 2},
              {'name': 'qn', 'text': "'My Sheet'!$A$1", 'kind': 'c', 'sheet': 'My Sheet', 'c1': 1, 'r1': 1, 'c2': 1, 'r2': 1},
              {'name': 'qr', 'text': "'My Sheet'!$A$1:$B$1", 'kind': 'r', 'sheet': 'My Sheet', 'c1': 1, 'r1': 1, 'c2': 2, 'r2': 1}]
        cs = [_c(S1, 1, 1, 1), _c(S1, 1, 2, 2), _c('My Sheet', 1, 1, 40), _c('My Sheet', 2, 1, 2),
              _c(S1, 4, 1, _f(['u', 0, ['r', 'rng', 'n', 'rng', 0, 0, 0, 0]])),
              _c(S1, 4, 2, _f(['b', 0, ['r', 'qn', 'n', 'qn', 0, 0, 0, 0], ['n', 1]])),
              _c(S1, 4, 3, _f(['u', 0, ['r', 'qr', 'n', 'qr', 0, 0, 0, 0]])),
              _c('My Sheet', 4, 4, _f(['r', 'rng', 'n', 'rng', 0, 0, 0, 0]))]
        out.append((f'D7-D9-names-{via}', {'default': S1, 'via': via, 'names': nm, 'cells': cs, 'sheets': [S1, 'My Sheet'],
                    'probes': [{'sheet': S1, 'col': 4, 'row': 1}, {'sheet': S1, 'col': 4, 'row': 2},
                               {'sheet': S1, 'col': 4, 'row': 3}, {'sheet': 'My Sheet', 'col': 4, 'row': 4},
                               {'name': 'qn'}], 'shape': f'names/{via}'}))
    # D8: dict model, unqualified references on a non-default sheet; chain over three sheets
    cs = [_c('Sheet2', 1, 1, 10), _c('Sheet2', 1, 2, 20), _c(S1, 1, 1, 1), _c(S1, 1, 2, 2),
          _c('Sheet2', 2, 1, _f(['u', 0, ['r', 'A1:A2', 'r', None, 1, 1, 1, 2]])),
          _c('Sheet2', 2, 2, _f(['r', 'A1', 'c', None, 1, 1, 1, 1])),
          _c(S1, 3, 1, _f(['r', 'Sheet2!C1', 'c', 'Sheet2', 3, 1, 3, 1])),
          _c('Sheet2', 3, 1, _f(['b', 0, ['r', 'A1', 'c', None, 1, 1, 1, 1], ['r', "'Sheet 3'!C1", 'c', 'Sheet 3', 3, 1, 3, 1]])),
          _c('Sheet 3', 3, 1, _f(['b', 0, ['r', '$A$1', 'c', None, 1, 1, 1, 1], ['r', 'Sheet1!C2', 'c', S1, 3, 2, 3, 2]])),
          _c('Sheet 3', 1, 1, 300), _c(S1, 3, 2, _f(['r', 'A2', 'c', None, 1, 2, 1, 2]))]
    out.append(('D8-sheets', {'default': S1, 'via': 'dict', 'names': [], 'cells': cs,
                'probes': [{'sheet': 'Sheet2', 'col': 2, 'row': 1}, {'sheet': 'Sheet2', 'col': 2, 'row': 2},
                           {'sheet': S1, 'col': 3, 'row': 1}], 'shape': 'D8'}))
    # D0301 (fixed in b6c2c71): an empty cell inside a referenced range, used in arithmetic
    cs = [_c(S1, 1, 1, 1), _c(S1, 1, 3, 5), _c(S1, 16, 1, _f(['u', 0, ['r', 'A1:A3', 'r', None, 1, 1, 1, 3]])),
          _c(S1, 16, 2, _f(['b', 0, ['r', 'A2', 'c', None, 1, 2, 1, 2], ['n', 0]])),
          _c(S1, 16, 3, _f(['r', 'A2', 'c', None, 1, 2, 1, 2])),
          _c(S1, 16, 4, _f(['b', 0, ['r', 'Z9', 'c', None, 26, 9, 26, 9], ['n', 0]]))]
    out.append(('D0301-fixed', {'default': S1, 'via': 'dict', 'names': [], 'cells': cs,
                'probes': [{'sheet': S1, 'col': 16, 'row': k} for k in (1, 2, 3, 4)], 'shape': 'D0301'}))
    # D0302 (fixed in 81c9f37): "$" in a sheet name
    cs = [_c('US$', 1, 1, 3), _c('US$', 1, 2, 4), _c(S1, 16, 1, _f(['r', "'US$'!A1", 'c', 'US$', 1, 1, 1, 1])),
          _c(S1, 16, 2, _f(['u', 0, ['r', "'US$'!A1:A2", 'r', 'US$', 1, 1, 1, 2]])),
          _c('US$', 16, 3, _f(['r', 'A$2', 'c', None, 1, 2, 1, 2]))]
    out.append(('D0302-fixed', {'default': S1, 'via': 'dict', 'names': [], 'cells': cs,
                'probes': [{'sheet': S1, 'col': 16, 'row': 1}, {'sheet': S1, 'col': 16, 'row': 2},
                           {'sheet': 'US$', 'col': 16, 'row': 3}], 'shape': 'D0302'}))
    # D1102 (fixed in db75663): "!" in a sheet name, dict and xlsx
    for via in ('dict', 'xlsx'):
        nm = [{'name': 'n_ab', 'text': "'A!B'!$A$2", 'kind': 'c', 'sheet': 'A!B', 'c1': 1, 'r1': 2, 'c2': 1, 'r2': 2},
              {'name': 'r_ab', 'text': "'A!B'!$A$1:$A$2", 'kind': 'r', 'sheet': 'A!B', 'c1': 1, 'r1': 1, 'c2': 1, 'r2': 2}]
        cs = [_c('A!B', 1, 1, 3), _c('A!B', 1, 2, 4), _c(S1, 1, 1, 100),
              _c(S1, 16, 1, _f(['r', "'A!B'!A1", 'c', 'A!B', 1, 1, 1, 1])),
              _c(S1, 16, 2, _f(['u', 0, ['r', "'A!B'!$A1:A$2", 'r', 'A!B', 1, 1, 1, 2]])),
              _c('A!B', 16, 3, _f(['b', 0, ['r', 'A$2', 'c', None, 1, 2, 1, 2], ['r', 'Sheet1!A1', 'c', S1, 1, 1, 1, 1]])),
              _c('A!B', 16, 4, _f(['u', 0, ['r', 'A1:A2', 'r', None, 1, 1, 1, 2]])),
              _c(S1, 16, 5, _f(['b', 0, ['r', 'n_ab', 'n', 'n_ab', 0, 0, 0, 0], ['u', 0, ['r', 'r_ab', 'n', 'r_ab', 0, 0, 0, 0]]])),
              _c(S1, 16, 6, _f(['r', "'A!B'!P3", 'c', 'A!B', 16, 3, 16, 3]))]
        out.append((f'D1102-fixed-{via}', {'default': S1, 'via': via, 'names': nm, 'cells': cs, 'sheets': [S1, 'A!B'],
                    'probes': [{'sheet': S1, 'col': 16, 'row': 1}, {'sheet': S1, 'col': 16, 'row': 2},
                               {'sheet': 'A!B', 'col': 16, 'row': 3}, {'sheet': 'A!B', 'col': 16, 'row': 4},
                               {'sheet': S1, 'col': 16, 'row': 5}, {'sheet': S1, 'col': 16, 'row': 6}],
                    'shape': f'D1102/{via}'}))
    # seeded round 2 (A): a range consumer re-evaluated after an input two levels below its members changed
    cs = [_c('Input', 1, 1, 10), _c('Input', 2, 1, _f(['b', 0, ['r', 'A1', 'c', None, 1, 1, 1, 1], ['r', '$A$1', 'c', None, 1, 1, 1, 1]])),
          _c('Calc Sheet', 3, 1, _f(['b', 0, ['r', 'Input!B1', 'c', 'Input', 2, 1, 2, 1], ['n', 1]])),
          _c('Calc Sheet', 3, 2, _f(['b', 0, ['r', 'Input!B1', 'c', 'Input', 2, 1, 2, 1], ['n', 2]])),
          _c('Calc Sheet', 3, 3, 5),
          _c('Calc Sheet', 5, 1, _f(['u', 0, ['r', 'C1:C3', 'r', None, 3, 1, 3, 3]])),
          _c('Input', 5, 2, _f(['u', 0, ['r', "'Calc Sheet'!$C$1:$C$3", 'r', 'Calc Sheet', 3, 1, 3, 3]])),
          _c('Input', 5, 3, _f(['r', "'Calc Sheet'!C1:C3", 'r', 'Calc Sheet', 3, 1, 3, 3]))]
    out.append(('stale-range-after-set', {'default': 'Input', 'via': 'dict', 'names': [], 'cells': cs,
                'probes': [{'sheet': 'Calc Sheet', 'col': 5, 'row': 1}, {'sheet': 'Input', 'col': 5, 'row': 2},
                           {'sheet': 'Input', 'col': 5, 'row': 3}],
                'updates': [{'sheet': 'Input', 'col': 1, 'row': 1, 'v': 100}], 'shape': 'stale-range'}))
    # seeded round 2 (B): the same rectangle on two sheets in ONE formula
    jr = lambda sh, raw: ['r', raw, 'r', sh, 1, 1, 2, 2]
    data = [_c('Jan', 1, 1, 1), _c('Jan', 2, 1, 2), _c('Jan', 1, 2, 3), _c('Jan', 2, 2, 4),
            _c('Feb 2024', 1, 1, 10), _c('Feb 2024', 2, 1, 20), _c('Feb 2024', 1, 2, 30), _c('Feb 2024', 2, 2, 40)]
    one = [(S1, ['b', 1, ['u', 0, jr('Jan', 'Jan!$A$1:$B$2')], ['u', 0, jr('Feb 2024', "'Feb 2024'!$A$1:$B$2")]]),
           (S1, ['b', 0, ['u', 1, jr('Feb 2024', "'Feb 2024'!A1:B2")], ['u', 1, jr('Jan', 'Jan!A1:B2')]]),
           ('Jan', ['b', 1, ['u', 0, jr(None, 'A1:B2')], ['u', 0, jr('Feb 2024', "'Feb 2024'!A$1:B$2")]]),
           ('Feb 2024', ['b', 0, ['u', 0, jr('Jan', 'Jan!A1:$B$2')], ['u', 0, jr(None, '$A$1:B2')]]),
           (S1, ['b', 0, ['r', 'Jan!$B$2', 'c', 'Jan', 2, 2, 2, 2], ['r', "'Feb 2024'!$B$2", 'c', 'Feb 2024', 2, 2, 2, 2]])]
    for k, (here, a) in enumerate(one):       # one formula per workbook: no other formula registers the ranges
        out.append((f'same-rectangle-two-sheets-{k}', {'default': S1, 'via': 'dict', 'names': [],
                    'cells': data + [_c(here, 16, 1, _f(a))], 'probes': [{'sheet': here, 'col': 16, 'row': 1}],
                    'shape': f'same-rectangle-{k}'}))
    # deep reference chains, evaluated from the far end on a fresh model and again after the start changed:
    # alternating between two sheets with quoted $-absolute references, and unqualified on one sheet
    for n in (60, 130, 200):
        cs = [_c(S1, 1, 1, 1), _c(S1, 2, 1, 1)]
        for i in range(2, n + 1):
            sh, prev = (S1, 'Other Sheet') if i % 2 else ('Other Sheet', S1)
            raw = f"'{prev}'!$A${i - 1}" if ' ' in prev else f'{prev}!A{i - 1}'
            cs.append(_c(sh, 1, i, _f(['b', 0, ['r', raw, 'c', prev, 1, i - 1, 1, i - 1], ['n', 1]])))
            cs.append(_c(S1, 2, i, _f(['b', 0, ['r', f'B{i - 1}', 'c', None, 2, i - 1, 2, i - 1], ['n', 1]]), False))
        out.append((f'deep-chain-{n}', {'default': S1, 'via': 'dict', 'names': [], 'cells': cs,
                    'probes': [{'sheet': S1 if n % 2 else 'Other Sheet', 'col': 1, 'row': n}, {'sheet': S1, 'col': 2, 'row': n}],
                    'updates': [{'sheet': S1, 'col': 1, 'row': 1, 'v': 1000}, {'sheet': S1, 'col': 2, 'row': 1, 'v': 500}],
                    'shape': f'deep-chain-{n}'}))
    # D0304 (known): a name on a cell that is empty at build time, filled later
    cs = [_c(S1, 1, 2, 7), _c(S1, 16, 1, _f(['b', 0, ['r', 'nm', 'n', 'nm', 0, 0, 0, 0], ['n', 0]])),
          _c(S1, 16, 2, _f(['b', 0, ['r', '$A$1', 'c', None, 1, 1, 1, 1], ['r', 'A2', 'c', None, 1, 2, 1, 2]]))]
    out.append(('D0304-witness', {'default': S1, 'via': 'dict', 'cells': cs,
                'names': [{'name': 'nm', 'text': 'Sheet1!$A$1', 'kind': 'c', 'sheet': S1, 'c1': 1, 'r1': 1, 'c2': 1, 'r2': 1}],
                'probes': [{'sheet': S1, 'col': 16, 'row': 1}, {'sheet': S1, 'col': 16, 'row': 2}, {'name': 'nm'}],
                'updates': [{'sheet': S1, 'col': 1, 'row': 1, 'v': 5}], 'shape': 'D0304'}))
    # D0303: "," in a sheet name (range references only; the text before the comma is read as a cell)
    cs = [_c('P2,x', 1, 1, 3), _c('P2,x', 1, 2, 4), _c(S1, 16, 3, _f(['r', "'P2,x'!A1", 'c', 'P2,x', 1, 1, 1, 1])),
          _c(S1, 16, 4, _f(['u', 0, ['r', "'P2,x'!A1:A2", 'r', 'P2,x', 1, 1, 1, 2]]))]
    out.append(('D0303-witness', {'default': S1, 'via': 'dict', 'names': [], 'cells': cs,
                'probes': [{'sheet': S1, 'col': 16, 'row': 3}, {'sheet': S1, 'col': 16, 'row': 4}], 'shape': 'D0303'}))
    # D1101 (fixed in 076c17f): defined names whose sheet holds an apostrophe
    for via in ('dict', 'xlsx'):
        nm = [{'name': 'n_its', 'text': "'It''s'!$A$1", 'kind': 'c', 'sheet': "It's", 'c1': 1, 'r1': 1, 'c2': 1, 'r2': 1},
              {'name': 'r_its', 'text': "'It''s'!$A$1:$A$2", 'kind': 'r', 'sheet': "It's", 'c1': 1, 'r1': 1, 'c2': 1, 'r2': 2}]
        cs = [_c("It's", 1, 1, 100), _c("It's", 1, 2, 2), _c(S1, 1, 1, 1),
              _c(S1, 16, 1, _f(['b', 0, ['r', 'n_its', 'n', 'n_its', 0, 0, 0, 0], ['n', 0]])),
              _c(S1, 16, 2, _f(['u', 0, ['r', 'r_its', 'n', 'r_its', 0, 0, 0, 0]])),
              _c(S1, 16, 3, _f(['u', 0, ['r', "'It''s'!A1:A2", 'r', "It's", 1, 1, 1, 2]])),
              _c("It's", 16, 4, _f(['b', 0, ['r', '$A1', 'c', None, 1, 1, 1, 1], ['r', "'It''s'!A$2", 'c', "It's", 1, 2, 1, 2]]))]
        out.append((f'D1101-fixed-{via}', {'default': S1, 'via': via, 'names': nm, 'cells': cs, 'sheets': [S1, "It's"],
                    'probes': [{'sheet': S1, 'col': 16, 'row': 1}, {'sheet': S1, 'col': 16, 'row': 2},
                               {'sheet': S1, 'col': 16, 'row': 3}, {'sheet': "It's", 'col': 16, 'row': 4}],
                    'shape': f'D1101/{via}'}))
    return out


# ---------------------------------------------------------------- running scenarios

class EvRunner:
    def __init__(self, ctx, res):
        self.ctx, self.res = ctx, res
        self.listed = {e['id'] for e in ctx.known if e.get('status') == 'known'}
        self.tmp = tempfile.TemporaryDirectory()

    def close(self):
        self.tmp.cleanup()

    def classify(self, scn, reals, d, label):
        """-> list of (index, kind, finding id or None) for the probes of one scenario"""
        impls = d['impl'].split('|')
        specs = d['spec'].split('|')
        trunc = d.get('trunc', '').split('|')
        if 'impl2' in d:
            impls, specs, trunc = impls + d['impl2'].split('|'), specs + d['spec2'].split('|'), trunc + d['trunc2'].split('|')
        flags = [x for x in d.get('kf', '').split(',') if x]
        out = []
        for i, (r, m, s) in enumerate(zip(reals, impls, specs)):
            nr, nm, ns = norm(r), norm(m), norm(s)
            if nr == ns:
                out.append((i, 'ok' if nr == nm else 'drift', None))
                continue
            region = []
            if i < len(trunc) and trunc[i] == '1':
                region.append('D6')
            region += [f for f in LISTED_PRIORITY if f in flags and (f != 'D0304' or i >= len(reals) // 2)]
            region = [f for f in region if f in self.listed]
            if region and nr == nm:
                out.append((i, 'known', region[0]))
            else:
                out.append((i, 'violation', None))
        return out, impls, specs

    def run_batch(self, scns, label):
        res = self.res
        lines = [scenario_line(s) for _, s in scns]
        resp = self.ctx.driver.batch(lines)
        for (name, scn), line, r in zip(scns, lines, resp):
            d = parse_kv(r)
            if 'impl' not in d:
                raise RuntimeError(f'driver: {r[:300]!r} for scenario {name}')
            reals, fresh = eval_real(scn, self.tmp.name)
            cls, impls, specs = self.classify(scn, reals, d, label)
            res.count('workbooks:' + label)
            res.count('via:' + scn.get('via', 'dict'))
            n = len(scn['probes'])
            if fresh is not None:
                kinds = {i: k for i, k, _ in cls}
                for j in range(n):
                    res.evaluations += 1
                    res.count('probe:fresh-compile')
                    if norm(fresh[j]) != norm(reals[n + j]) and kinds.get(n + j) == 'ok':
                        res.violations.append({
                            'what': 'after set_cell_value a probe differs from a freshly compiled model of the same workbook',
                            'input': {'kind': 'ev', 'probe': probe_formula(scn, scn['probes'][j]),
                                      'scenario': dict(scn, probes=[scn['probes'][j]])},
                            'expected': fresh[j][:300], 'got': reals[n + j][:300]})
            for i, kind, fid in cls:
                p = scn['probes'][i % n]
                res.evaluations += 1
                res.count('probe:' + kind)
                if i >= n:
                    res.count('probe:after-set_cell_value')
                pf = ('after set_cell_value: ' if i >= n else '') + probe_formula(scn, p)
                res.nontrivial.add(scn.get('shape', name) + '|' + pf.split(': ', 1)[-1])
                if specs[i].startswith('A:'):
                    res.count('result:array')
                elif specs[i] == 'Z':
                    res.count('result:blank')
                else:
                    res.count('result:scalar')
                res.sample({'workbook': scn.get('shape', name), 'probe': pf, 'real': reals[i][:80], 'spec': specs[i][:80]})
                if kind == 'known':
                    res.known.setdefault(fid, []).append({'scenario': name, 'probe': pf})
                elif kind == 'drift':
                    res.drift.append({'scenario': name, 'probe': pf, 'real': reals[i][:200], 'impl_model': impls[i][:200]})
                elif kind == 'violation' and reals[i] in ('X:RecursionError', 'X:RuntimeError') and \
                        max([int(x) for x in re.findall(r'chain-?(\d+)', scn.get('shape', ''))] or [0]) > 100:
                    # the interpreter's own recursion limit on a chain of more than 100 formula cells: how deep a
                    # chain the library can follow is a CAPACITY (a refactoring that adds a stack frame per level lowers
                    # it), not something the statement fixes; a WRONG VALUE at any depth stays a violation
                    res.count('capacity:recursion-limit-on-a-deep-chain')
                elif kind == 'violation':
                    small = self.shrink(scn, i % n)
                    res.violations.append({
                        'what': ('a reference does not evaluate to the CURRENT value(s) of the addressed cell(s) after '
                                 'set_cell_value' if i >= n else
                                 'a reference does not evaluate to the value(s) of the addressed cell(s)'),
                        'input': {'kind': 'ev', 'probe': probe_formula(small, small['probes'][0]), 'scenario': small},
                        'expected': specs[i][:300], 'got': reals[i][:300]})

    def still_fails(self, scn):
        d = parse_kv(self.ctx.driver.batch([scenario_line(scn)])[0])
        if 'impl' not in d:
            return False
        reals, _ = eval_real(scn, self.tmp.name)
        cls, _, _ = self.classify(scn, reals, d, 'shrink')
        return any(k == 'violation' for _, k, _ in cls)

    def shrink(self, scn, i):
        """keep the failing probe only, then drop cells and names greedily while it still fails"""
        if len(self.res.violations) >= 3:
            cur = dict(scn)
            cur['probes'] = [scn['probes'][i]]
            return cur
        cur = dict(scn)
        cur['probes'] = [scn['probes'][i]]
        try:
            if not self.still_fails(cur):
                return dict(scn, probes=[scn['probes'][i]])
            p = cur['probes'][0]
            budget = 120
            used = {a[3] for c in cur['cells'] if isinstance(c['v'], dict) for a in ast_refs(c['v']['f']) if a[2] == 'n'}
            used |= {q['name'] for q in cur['probes'] if 'name' in q}
            if cur.get('names') and any(n['name'] not in used for n in cur['names']):
                t = dict(cur, names=[n for n in cur['names'] if n['name'] in used])
                if self.still_fails(t):
                    cur = t
            chunk = max(1, len(cur['cells']) // 2)
            while chunk >= 1 and budget > 0:
                j = 0
                while j < len(cur['cells']) and budget > 0:
                    part = cur['cells'][j:j + chunk]
                    if any((c['sheet'], c['col'], c['row']) == (p.get('sheet'), p.get('col'), p.get('row')) for c in part) \
                            and chunk > 1:
                        j += chunk
                        continue
                    if any((c['sheet'], c['col'], c['row']) == (p.get('sheet'), p.get('col'), p.get('row')) for c in part):
                        j += 1
                        continue
                    t = dict(cur, cells=cur['cells'][:j] + cur['cells'][j + chunk:])
                    budget -= 1
                    if self.still_fails(t):
                        cur = t
                    else:
                        j += chunk
                chunk //= 2
        except Exception:  # noqa: BLE001 - shrinking is best effort
            pass
        return cur


# ---------------------------------------------------------------- direct calls

def run_columns(ctx, res):
    from xlcalculator import tokenizer
    from openpyxl.utils.cell import get_column_letter, column_index_from_string
    rng = ctx.rng
    ns = list(range(1, MAX_COL + 1))
    big = [MAX_COL + 1, 26 ** 4, 26 ** 4 + 26 ** 3 + 26 ** 2 + 26, 475254, 475255, 10 ** 9, 10 ** 12, 26 ** 9]
    big += [rng.randint(MAX_COL + 1, 10 ** 13) for _ in range(3000 if ctx.tier == 'thorough' else 300)]
    names = {}
    lines = []
    for n in ns + big:
        s = tokenizer.num2col(n)
        names[n] = s
        lines.append(f'C03\tN2C\t{n}')
        lines.append('C03\tC2N\t' + T(s))
    for n in ns:
        lines.append(f'C03\tGCL\t{n}')
        lines.append('C03\tCIFS\t' + T(names[n]))
    resp = ctx.driver.batch(lines)
    it = iter(resp)
    for n in ns + big:
        s = names[n]
        d1, d2 = parse_kv(next(it)), parse_kv(next(it))
        res.evaluations += 2
        res.count('columns')
        real_back = tokenizer.col2num(s)
        # real vs reference: the name is a column name whose bijective base-26 value is n, and col2num inverts it
        if d2.get('spec') != f'I:{n}' or real_back != n or s != colname(n):
            res.violations.append({'what': 'num2col/col2num are not the bijective base-26 numeral and its value',
                                   'input': {'kind': 'col', 'n': n}, 'expected': colname(n), 'got': [s, real_back]})
        elif d1.get('impl') != T(s) or d2.get('impl') != f'I:{real_back}' or d1.get('spec') != 'ok':
            res.drift.append({'num2col': n, 'real': s, 'impl_model': d1.get('impl'), 'col2num_model': d2.get('impl')})
    for n in ns:
        d1, d2 = parse_kv(next(it)), parse_kv(next(it))
        res.evaluations += 2
        res.count('columns-openpyxl')
        o1 = get_column_letter(n)
        try:
            o2 = column_index_from_string(names[n])
        except ValueError:
            o2 = 'ValueError'
        if o1 != names[n] or o2 != n:
            res.violations.append({'what': "the tokenizer's column functions disagree with openpyxl's",
                                   'input': {'kind': 'col', 'n': n}, 'expected': [names[n], n], 'got': [o1, o2]})
        elif d1.get('impl') != T(o1) or d2.get('impl') != f'I:{o2}':
            res.drift.append({'get_column_letter': n, 'real': o1, 'impl_model': d1.get('impl')})
    # $ is skipped by col2num; errors
    extra = []
    for s in ['$A', 'A$', '$AB$', '$', 'ZZZ', 'XFD', '$XFD']:
        extra.append(s)
    lines = ['C03\tC2N\t' + T(s) for s in extra] + ['C03\tC2N\tT:', 'C03\tN2C\t0', 'C03\tN2C\t-3']
    resp = ctx.driver.batch(lines)
    for s, r in zip(extra, resp):
        d = parse_kv(r)
        real = tokenizer.col2num(s)
        res.evaluations += 1
        want = colvalue(s.replace('$', ''))
        if real != want:
            res.violations.append({'what': 'col2num does not skip $', 'input': {'kind': 'col', 'text': s},
                                   'expected': want, 'got': real})
        elif d.get('impl') != f'I:{real}':
            res.drift.append({'col2num': s, 'real': real, 'impl_model': d.get('impl')})
    for r, call in zip(resp[len(extra):], [lambda: tokenizer.col2num(''), lambda: tokenizer.num2col(0),
                                           lambda: tokenizer.num2col(-3)]):
        real = common.call_real(call)
        res.evaluations += 1
        if parse_kv(r).get('impl') != real:
            res.drift.append({'column-error-case': real, 'impl_model': parse_kv(r).get('impl')})
    res.nontrivial.add('columns 1..18278 exhaustive')
    res.exhaustive = True


def spell_variants(sheet, c1, r1, c2, r2, single):
    """every $ / qualification spelling of one target, as given to resolve_ranges"""
    prefixes = [''] if sheet is None else [sheet + '!', quote(sheet) + '!']
    out = []
    for pre in prefixes:
        if single:
            for k in range(4):
                out.append(pre + coord(c1, r1, k & 1, k & 2))
        else:
            for k in range(16):
                out.append(pre + coord(c1, r1, k & 1, k & 2) + ':' + coord(c2, r2, k & 4, k & 8))
    return out


def run_direct(ctx, res):
    utils = importlib.import_module('xlcalculator.utils')
    from xlcalculator import tokenizer
    rng = ctx.rng
    thorough = ctx.tier == 'thorough' or ctx.widen
    # --- resolve_ranges: structured targets, every spelling
    targets = []
    for sheet in [None, 'Sheet2', 'My Sheet', 'Data', '2024', 'a^b', 'US$', 'A!B', "It's"]:
        targets.append((sheet, 1, 1, 1, 1, True))
        targets.append((sheet, 1, 1, 2, 2, False))
        targets.append((sheet, 26, 9, 28, 11, False))
    nrand = 600 if thorough else 60
    for _ in range(nrand):
        sheet = rng.choice([None, None, 'Sheet2', 'My Sheet', 'Año', 'T-1', 'S_1', 'US$', 'A!B', 'x!'])
        c1 = rng.choice([1, 2, 25, 26, 27, 52, 53, 701, 702, 703, 704, 18200, rng.randint(1, MAX_COL - 40)])
        r1 = rng.choice([1, 9, 10, 99, 100, 999, 1000, rng.randint(1, MAX_ROW - 400), MAX_ROW - 3])
        w = rng.choice([1, 1, 2, 3, rng.randint(1, 30)])
        h = rng.choice([1, 1, 2, 3, rng.randint(1, 120)])
        c2, r2 = min(MAX_COL, c1 + w - 1), min(MAX_ROW, r1 + h - 1)
        single = (c1, r1) == (c2, r2) and rng.random() < 0.7
        targets.append((sheet, c1, r1, c2, r2, single))
    cases = []   # (text, default, spec tuple or None)
    for sheet, c1, r1, c2, r2, single in targets:
        vs = spell_variants(sheet, c1, r1, c2, r2, single)
        if not thorough and len(vs) > 8:
            vs = rng.sample(vs, 8)
        for text in vs:
            default = rng.choice(['Sheet1', 'Sheet1', 'Other', ''])
            cases.append((text, default, (sheet if sheet is not None else default, c1, r1, c2, r2)))
    # unbounded rows / columns
    for text, spec in [('1:3', (1, 1, MAX_COL, 3)), ('$2:$2', (1, 2, MAX_COL, 2)), ('A:A', (1, 1, 1, MAX_ROW)),
                       ] + ([('$B:$C', (2, 1, 3, MAX_ROW))] if thorough else []) + [
                       ('Data!7:8', (1, 7, MAX_COL, 8))]:
        sh = 'Data' if text.startswith('Data!') else 'Sheet1'
        cases.append((text, 'Sheet1', (sh,) + spec))
    # model-only cases (the statement is silent)
    for text in ['B2:A1', 'B1:A2', 'A1,B2', 'A1:B2,B2:C3', 'Sheet2!A1,Sheet2!C1:D2', 'Sheet1!A1,Sheet2!B1', 'A1:',
                 'A1:B', 'a1:b2', 'A0', 'AAAA1', 'A1B', '1A', 'A$1$', "''!A1", "'It''s'!A1:B2", 'x!y!A1', '$A$1:$B',
                 'A:B2', ' A1', 'A1 ', 'Sheet2 !A1', ' Sheet2!A1:A3', 'A-1', ':', '!A1', '$1:$3', '$$1', 'A$']:
        cases.append((text, 'Sheet1', None))
    lines = []
    for text, default, spec in cases:
        f = ['C03', 'RR', T(text), T(default)]
        if spec:
            f += [enc(spec[0]), str(spec[1]), str(spec[2]), str(spec[3]), str(spec[4])]
        lines.append('\t'.join(f))
    resp = ctx.driver.batch(lines)
    P, B = 2147483647, 131
    for (text, default, spec), r in zip(cases, resp):
        d = parse_kv(r)
        res.evaluations += 1
        res.count('resolve_ranges')
        try:
            sheet, m = utils.resolve_ranges(text, default_sheet=default)
            real = 'ok'
        except Exception as exc:  # noqa: BLE001
            real = 'X:' + type(exc).__name__
        if spec is not None:
            res.nontrivial.add('rr|' + text)
            ok = real == 'ok' and sheet == spec[0] and len(m) == int(d['sn']) and sum(map(len, m)) == int(d['sc'])
            if ok:
                if d['sm'] != '-':
                    want = [[tuple(int(x) for x in cell.split(':')) for cell in row.split(',')] for row in d['sm'].split(';')]
                    got = [[(parse_addr(a) or (None, 0, 0))[1:] for a in row] for row in m]
                    ok = got == want and all((parse_addr(a) or (None,))[0] == (spec[0] if spec[0] else '') for row in m for a in row)
                else:
                    # large matrix: sampled positions against rect computed here; the full digest of
                    # Spec.rect only in the thorough tier
                    nrow, ncol = spec[4] - spec[2] + 1, spec[3] - spec[1] + 1
                    idx = sorted(i for i in ({0, 1, nrow - 1, nrow - 2} | {rng.randrange(nrow) for _ in range(1500)}) if 0 <= i < nrow)
                    for i in idx:
                        row = m[i]
                        if len(row) != ncol:
                            ok = False
                            break
                        for j in {0, ncol - 1, rng.randrange(ncol), rng.randrange(ncol)}:
                            if parse_addr(row[j]) != (spec[0], spec[1] + j, spec[2] + i):
                                ok = False
                    if ok and thorough:
                        h = 7
                        for row in m:
                            for a in row:
                                pa = parse_addr(a)
                                if pa is None or pa[0] != spec[0]:
                                    ok = False
                                    break
                                h = (h * B + pa[1]) % P
                                h = (h * B + pa[2]) % P
                            h = (h * B + 7) % P
                        ok = ok and h == int(d['sh'])
            if not ok:
                res.violations.append({'what': 'resolve_ranges does not give the rows x cols addresses of the range, row-major',
                                       'input': {'kind': 'rr', 'text': text, 'default': default, 'spec': list(spec)},
                                       'expected': f"{d.get('sn')} rows, {d.get('sc')} cells on {spec[0]!r}",
                                       'got': real if real != 'ok' else [sheet, len(m), str(m[:2])[:200]]})
                continue
        # model validation
        if real != 'ok':
            same = d.get('impl') == real
        else:
            same = d.get('impl') == 'ok' and d.get('sheet') == T(sheet) and int(d['n']) == len(m)
            if same:
                if d['m'] != '-':
                    got = ';'.join(','.join(enc(a) for a in row) for row in m)
                    same = got == d['m']
                elif thorough:
                    h = 7
                    for row in m:
                        hr = h
                        for a in row:
                            for ch in a:
                                hr = (hr * B + ord(ch)) % P
                            hr = (hr * B + 44) % P
                        h = (hr * B + 59) % P
                    same = h == int(d['h'])
                else:
                    same = int(d['c']) == sum(map(len, m))
        if not same:
            res.drift.append({'resolve_ranges': text, 'default': default, 'real': real if real != 'ok' else [sheet, len(m)],
                              'impl_model': {k: d.get(k, '')[:120] for k in ('impl', 'sheet', 'n', 'c')}})
    # --- resolve_sheet / resolve_address / the tokenizer's quote state: model validation
    sheets = ["'A!B'", 'A!B', "'a!''b'", 'US$', "'US$'", "'My Sheet'", 'My Sheet', "It's", "'It''s'", "''", '', ' x ', 'a^b', "'a", "a'", "'a'b'", "'a'''", "'''", "''''",
              'Sheet1', "'Sheet1'", '2024', "'a''b''c'", "'a'''b'", '\tS\n', "' x '", "'é'", 'ü b']
    addrs = ['A!B!$A$1', 'US$!$A$1', "'A!B'!C3", 'x!!A1', 'My Sheet!$A$1', 'S!aB12', 'S!A1:B2', 'A1', 'S!A', 'S!1', 'S!$A1', 'S!A$1', 'S!ABCD1', "'My Sheet'!B2", 'a!b!C1',
             'S!A1$', 'S!$$A1', 'S!A01', "It's!ZZ100"]
    raws = ["'A!B'!$A$1", "'US$'!A1:B2", "'My Sheet'!A1", "'It''s'!$A$1", 'Sheet2!A1:B2', "'a''b''c'!A1:B2", 'A1', "'2024'!A1", "'x'!$B$2:$C$3", "'q\"t'!A1",
            "'a^b'!A1"]
    lines = ['C03\tRS\t' + T(s) for s in sheets] + ['C03\tRA\t' + T(a) for a in addrs] + ['C03\tTOK\t' + T(x) for x in raws]
    resp = ctx.driver.batch(lines)
    k = 0
    for s in sheets:
        real = common.call_real(lambda: utils.resolve_sheet(s))
        real = 'None' if real == 'Z' else real
        res.evaluations += 1
        res.count('resolve_sheet')
        if parse_kv(resp[k]).get('impl') != real:
            res.drift.append({'resolve_sheet': s, 'real': real, 'impl_model': parse_kv(resp[k]).get('impl')})
        k += 1
    for a in addrs:
        try:
            sh, co, ro = utils.resolve_address(a)
            real = ('None' if sh is None else T(sh)) + '|' + T(co) + '|' + T(ro)
        except Exception as exc:  # noqa: BLE001
            real = 'X:' + type(exc).__name__
        res.evaluations += 1
        res.count('resolve_address')
        if parse_kv(resp[k]).get('impl') != real:
            res.drift.append({'resolve_address': a, 'real': real, 'impl_model': parse_kv(resp[k]).get('impl')})
        k += 1
    for x in raws:
        toks = tokenizer.ExcelParser().getTokens('=' + x).items
        real = T(toks[0].tvalue) if len(toks) == 1 else 'X:tokens'
        want = x
        if x.startswith("'"):
            q, _, rest = x[1:].rpartition("'!")
            want = q.replace("''", "'") + '!' + rest
        res.evaluations += 1
        res.count('tokenizer-quotes')
        if real != T(want):
            res.violations.append({'what': 'the tokenizer does not reduce a quoted sheet name to the sheet name',
                                   'input': {'kind': 'tok', 'text': x}, 'expected': want, 'got': real})
        elif parse_kv(resp[k]).get('impl') != real:
            res.drift.append({'tokRef': x, 'real': real, 'impl_model': parse_kv(resp[k]).get('impl')})
        k += 1


def gen_batch(rng, n, thorough):
    batch = []
    for _ in range(n):
        via = 'xlsx' if rng.random() < (0.08 if thorough else 0.15) else 'dict'
        special = rng.choice(['US$', 'A!B']) if rng.random() < 0.06 else None
        scn = gen_scenario(rng, via=via, special_sheet=special)
        batch.append((scn['shape'], scn))
    return batch


def _work(args):
    """one worker process of the thorough tier"""
    import random
    import traceback
    seed, nscen, known, tier = args
    try:
        ctx = type('Ctx', (), {})()
        ctx.rng, ctx.tier, ctx.widen, ctx.known = random.Random(seed), tier, False, known
        ctx.driver = common.Driver('C03')
        res = Result()
        runner = EvRunner(ctx, res)
        try:
            done = 0
            while done < nscen and not res.violations:
                runner.run_batch(gen_batch(ctx.rng, 40, True), 'generated')
                done += 40
        finally:
            runner.close()
        return {'evaluations': res.evaluations, 'distribution': res.distribution, 'nontrivial': list(res.nontrivial),
                'samples': res.samples, 'known': {k: v[:50] for k, v in res.known.items()}, 'drift': res.drift[:20],
                'violations': res.violations[:10]}
    except Exception:  # noqa: BLE001
        return {'error': traceback.format_exc()[-2000:]}


# ---------------------------------------------------------------- entry point

def load_corpus():
    out = []
    d = common.CORPUS / 'C03'
    if d.exists():
        for path in sorted(d.glob('*.json')):
            obj = json.loads(path.read_text())
            scn = obj.get('scenario') or obj.get('input', {}).get('scenario')
            if scn:
                out.append(('corpus:' + path.stem, scn))
    return out


def run(ctx):
    import logging
    import xlcalculator  # noqa: F401
    logging.disable(logging.WARNING)     # "Defined name … refers to empty cell" is expected for names on empty cells
    res = Result()
    res.rule = ('fixed witness workbooks and the corpus first; then generated workbooks with 1-4 sheets (names with '
                'blanks, apostrophes, digits, non-ASCII), a used area that is small / wide / long (90-320 rows) / a '
                '9-14 square block at origins around Z|AA, ZZ|AAA and rows 9|10, 99|100, dense to empty, formula cells and a '
                'chain that crosses the sheets repeatedly with unqualified own-sheet operands, defined names on cells '
                'and ranges, a reference chain of 2..200 formula cells (60% 2-9, 20% 10-100, 20% 101-200; crossing to '
                'another sheet at every hop or on one sheet; steps own+next, next+n, next) that is evaluated from the far '
                'end, a three-level dependency block across sheets; probes =REF, =REF+0, =R (array), =SUM(R), '
                '=COUNTA(R), =name, =SUM(name), evaluate(name), two or three references with EQUAL coordinates on different '
                'sheets in one formula (=SUM(R1)-SUM(R2), =c1+c2, =COUNTA+COUNTA); every probe is evaluated again on the same '
                'model after set_cell_value steps on inputs 1, 2 and 3 levels below range members, chain constants, area '
                'constants and empty cells (oracle: Spec on the updated workbook; also a freshly compiled model); all with '
                'random $ flags and qualification (unqualified / plain / quoted), through read_and_parse_dict and '
                '(a sample) through a written .xlsx; direct resolve_ranges on every $/qualification spelling of structured '
                'targets, unbounded rows/columns; num2col/col2num and openpyxl exhaustively on 1..18278 plus large numbers. '
                'Real code vs Spec decides; vs the Lean model validates the model. non-trivial = distinct (workbook '
                'shape, probe formula) pairs and distinct range texts')
    t0 = time.time()
    runner = EvRunner(ctx, res)
    try:
        if ctx.replay:
            obj = json.loads(open(ctx.replay).read())
            inp = obj.get('input', obj)
            if inp.get('kind') == 'ev' or 'scenario' in inp:
                runner.run_batch([('replay', inp['scenario'])], 'replay')
            else:
                run_columns(ctx, res)
                run_direct(ctx, res)
            return res
        fixed = fixed_scenarios() + load_corpus()
        runner.run_batch(fixed, 'fixed')
        run_columns(ctx, res)
        run_direct(ctx, res)
        thorough = ctx.tier == 'thorough'
        target = 200000 if thorough else 4500
        if ctx.widen:
            target = 20000
        if os.environ.get('XLVERIF_C03_PROBES'):
            target = int(os.environ['XLVERIF_C03_PROBES'])
        if target > 10000:
            # parallel over worker processes, each with its own seed derived from ctx.rng
            import multiprocessing
            nproc = min(12, os.cpu_count() or 4)
            per = (target // 25) // nproc + 1
            jobs = [(ctx.rng.getrandbits(48), per, ctx.known, ctx.tier) for _ in range(nproc)]
            with multiprocessing.get_context('fork').Pool(nproc) as pool:
                parts = pool.map(_work, jobs)
            for part in parts:
                if 'error' in part:
                    raise RuntimeError('worker failed: ' + part['error'])
                res.evaluations += part['evaluations']
                for k, v in part['distribution'].items():
                    res.count(k, v)
                res.nontrivial |= set(part['nontrivial'])
                for smp in part['samples']:
                    res.sample(smp)
                for k, v in part['known'].items():
                    res.known.setdefault(k, []).extend(v)
                res.drift.extend(part['drift'])
                res.violations.extend(part['violations'])
        else:
            budget = 75
            t1 = time.time()
            while time.time() - t1 < budget:
                runner.run_batch(gen_batch(ctx.rng, 12, False), 'generated')
                probes_done = res.distribution.get('probe:ok', 0) + res.distribution.get('probe:known', 0)
                if probes_done >= target or res.violations:
                    break
        res.count('seconds', int(time.time() - t0))
    finally:
        runner.close()
    if res.drift:
        res.notes.append(f'{len(res.drift)} model/implementation differences where the code still meets Spec')
    return res
