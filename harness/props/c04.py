"""C04 — evaluation always reflects the current inputs (DESIGN.md §4 C04).

Histories of set_cell_value / evaluate / get_cell_value on generated acyclic workbooks are run on the
real code; after every step the observable (returned value, stored model.cells[a].value,
get_cell_value) is compared
  (1) as the Spec, independently of any model: with a FRESHLY compiled
      ModelCompiler().read_and_parse_dict(current inputs) evaluated by a new Evaluator  -> VIOLATION
  (2) with the Lean state machine Model.C04.step (drv_c04 `hists`)                      -> model drift
"""
import itertools
import json
import math
import multiprocessing
import os

import common
import evalwire
from common import Result, parse_kv

LEVEL_TEXT = (
    'Lean theorems over a statement-by-statement model of Evaluator.evaluate / EvaluatorContext.eval_cell / '
    'RangeNode.eval / Model.set_cell_value / get_cell_value (write-backs of cell.value and XLRange.value, '
    'per-context memo, in-progress stack), for every function semantics, model, address and fuel: purity '
    '(evalCell_pure: stored values of formula cells and cached range arrays never influence a result and '
    'evaluate changes nothing else), soundness of the memo (memo_sound: the evaluator computes a memo-free, '
    'state-free reference value), C04 (after ANY history of set / evaluate / get calls, evaluate returns the '
    'value of a fresh workbook holding the current inputs and stores it), set by name = set by address, '
    'get_cell_value returns the last value set / computed. The model is tied to the running code by '
    'exhaustive short histories on small workbooks and sampled long ones, each step compared with a freshly '
    'compiled real model (Spec) and with the Lean state machine.')
LEVEL_NOTE = (
    'Trusted: Lean kernel (axioms propext, Classical.choice, Quot.sound); the hand-written evaluator model '
    '(validated by correspondence, not proved equal to the Python); function bodies are an arbitrary parameter '
    'of the theorems, the driver instantiates them with a small concrete semantics (+ - * / SUM COUNTA & = < IF '
    'AND OR); fuel stands for the CPython recursion limit (no_recursion_outcome: unreachable once fuel exceeds '
    'the number of formula cells).')
DESIGN_REF = '§4 C04'

# theorems of the integrated pipeline model (Props/X01.lean) that carry this property's theorems to formula TEXTS in a
# compiled workbook; re-built and audited with this check (harness/common.prepare: soft obligations)
TRANSPORT = ('XlVerif.Props.X01', ['X01_pure', 'X01_history'])

TRUSTED = [
    'Lean 4.33 kernel; axioms propext, Classical.choice, Quot.sound only',
    'hand-written model lean/XlVerif/Model/Evaluator.lean of evaluator.py / model.py / RangeNode.eval, tied to '
    'the code by this correspondence run (not proved equal to the Python)',
    'function and operator bodies are a parameter (Sem) of every theorem; IEEE rounding is not modelled',
    'the reference Spec.C04.value shares the workbook datatypes (Fx, Cell, MState) with the model file',
    'the fresh-compile oracle of the correspondence uses the real ModelCompiler and Evaluator on an untouched '
    'model (first evaluation only), so it cannot see staleness but shares any defect of a single evaluation',
]
ASSUMPTIONS = [
    'workbooks are acyclic (cycles are C06); volatile functions are not used',
    'set_cell_value targets input (constant) cells, by address (a string, or an XLCell object carrying the address: '
    'the stored cell object or a fresh one, also for an address the model does not hold yet), or by a defined name bound to a cell; the '
    'theorems also cover sets on formula cells (ignored by evaluation), the correspondence does not generate them',
    'get_cell_value of a formula cell that was recomputed as a precedent of another evaluation may return any '
    'value computed for it since its own last evaluation (the statement says "last value computed")',
    'defined names are installed the way ModelCompiler.build_defined_names does (name -> XLCell object)',
]

FUEL = 60
S3 = 'My Sheet'          # a sheet title that has to be quoted in formulas
FLOAT_TEXT = '.'.join(str(ord(c)) for c in '<float>')
S1, S2 = 'Sheet1', 'Sheet2'


# ------------------------------------------------------------------------------------------ workbooks

def A(col, row, sheet=S1):
    return f'{sheet}!{"ABCDEFGH"[col]}{row}'


def ref(a):
    return ('ref', a)


def app(f, *args):
    return ('app', f, list(args))


def F(fx):
    return ('f', fx)


def fixed_models():
    """small workbooks (<= 5 cells) whose histories are enumerated exhaustively: (label, wb, set values)"""
    out = []
    # chain
    out.append(('chain3', {'cells': {A(0, 1): 1, A(1, 1): F(app(0, ref(A(0, 1)), ('lit', 1))),
                                     A(2, 1): F(app(2, ref(A(1, 1)), ('lit', 2)))}, 'names': {}}, (7, 'x')))
    # diamond
    out.append(('diamond', {'cells': {A(0, 1): 2, A(1, 1): F(app(2, ref(A(0, 1)), ('lit', 2))),
                                      A(2, 1): F(app(0, ref(A(0, 1)), ('lit', 3))),
                                      A(3, 1): F(app(0, ref(A(1, 1)), ref(A(2, 1))))}, 'names': {}}, (5, 0)))
    # range aggregate + a member changes
    out.append(('range', {'cells': {A(0, 1): 1, A(0, 2): 2, A(1, 1): F(app(4, ('rng', 'Sheet1!A1:A2'))),
                                    A(2, 1): F(app(0, ref(A(1, 1)), ref(A(0, 1))))}, 'names': {}}, (10, 2.5)))
    # cross-sheet + defined name on the input
    out.append(('xsheet-name', {'cells': {A(0, 1): 3, A(0, 1, S2): F(app(2, ref(A(0, 1)), ('lit', 2))),
                                          A(1, 1): F(app(0, ref(A(0, 1, S2)), ref(A(0, 1))))},
                                'names': {'rate': A(0, 1)}}, (4, 9)))
    # lazy IF over two inputs
    out.append(('if', {'cells': {A(0, 1): 1, A(0, 2): 5,
                                 A(1, 1): F(('if', app(10, ref(A(0, 1)), ('lit', 3)), ref(A(0, 2)), ('lit', 0))),
                                 A(2, 1): F(app(0, ref(A(1, 1)), ('lit', 1)))}, 'names': {}}, (4, 2)))
    # range with a blank member that becomes an input; COUNTA
    out.append(('blank-member', {'cells': {A(0, 1): 4, A(1, 1): F(app(4, ('rng', 'Sheet1!A1:A3'))),
                                           A(1, 2): F(app(9, ('rng', 'Sheet1!A1:A3')))},
                                 'names': {}, 'extra_inputs': [A(0, 2)]}, (6, 'ab')))
    # two ranges sharing a member, chain behind
    out.append(('shared-range', {'cells': {A(0, 1): 1, A(0, 2): 2, A(1, 1): F(app(4, ('rng', 'Sheet1!A1:A2'))),
                                           A(1, 2): F(app(0, app(4, ('rng', 'Sheet1!A1:A2')), ref(A(1, 1)))),
                                           A(2, 1): F(app(1, ref(A(1, 2)), ref(A(0, 2))))}, 'names': {}}, (3, 8)))
    # name bound to a formula cell (evaluate / get by name), error propagation by division
    out.append(('div-name', {'cells': {A(0, 1): 6, A(0, 2): 3, A(1, 1): F(app(3, ref(A(0, 1)), ref(A(0, 2)))),
                                       A(2, 1): F(app(0, ref(A(1, 1)), ('lit', 1)))},
                             'names': {'ratio': A(1, 1), 'den': A(0, 2)}}, (0, 2)))
    # AND / OR and text concatenation
    out.append(('logic', {'cells': {A(0, 1): 1, A(0, 2): 'ab',
                                    A(1, 1): F(('and', [app(10, ('lit', 0), ref(A(0, 1))), ref(A(0, 1))])),
                                    A(1, 2): F(app(8, ref(A(0, 2)), ref(A(0, 1)))),
                                    A(2, 1): F(('if', ref(A(1, 1)), ref(A(1, 2)), ('lit', 'no')))}, 'names': {}},
                (0, 3)))
    # AND / OR over RANGE arguments: the verdict of the range (and whether the argument behind it is evaluated at all)
    # changes when a member is set; A3 is a blank member that becomes an input
    out.append(('logic-range', {'cells': {A(0, 1): 1, A(0, 2): 0,
                                          A(1, 1): F(('and', [('rng', 'Sheet1!A1:A3'), app(10, ('lit', 0), ref(A(0, 1)))])),
                                          A(1, 2): F(('or', [('rng', 'Sheet1!A2:A3'), ref(A(1, 1))])),
                                          A(2, 1): F(('if', ref(A(1, 2)), app(4, ('rng', 'Sheet1!A1:A3')), ('lit', 'no')))},
                                'names': {}, 'extra_inputs': [A(0, 3)]}, (0, 2)))
    # equal-but-differently-typed constants side by side, observed by `&` (text form) and `=` (TRUE=1 is FALSE)
    out.append(('twins-true', {'cells': {A(0, 1): True, A(0, 2): 1, A(1, 1): F(app(8, ref(A(0, 1)), ('lit', '|'))),
                                         A(1, 2): F(app(8, ref(A(0, 2)), ('lit', '|'))),
                                         A(2, 1): F(app(6, ref(A(0, 1)), ref(A(0, 2))))}, 'names': {}}, (1, True)))
    out.append(('twins-false', {'cells': {A(0, 1): 0, A(0, 2): False, A(1, 1): F(app(8, ref(A(0, 1)), ('lit', '|'))),
                                          A(1, 2): F(app(8, ref(A(0, 2)), ('lit', '|'))),
                                          A(2, 1): F(('if', app(6, ref(A(0, 2)), ref(A(0, 1))), ('lit', 1),
                                                      ref(A(0, 2))))}, 'names': {}}, (False, 0)))
    # the same unqualified formula text on several sheets over different data (a quoted sheet title among them)
    base = {'cells': {A(0, 1): 10, A(1, 1): F(app(2, ref(A(0, 1)), ('lit', 2)))}, 'names': {}}
    out.append(('mirror-ref', mirror(base, S2, lambda c: c * 10), (3, 7)))
    base = {'cells': {A(0, 1): 1, A(1, 1): F(app(0, app(4, ('rng', 'Sheet1!A1:A1')), ('lit', 1)))}, 'names': {}}
    out.append(('mirror-range-quoted', mirror(base, S3, lambda c: c + 9), (5, 2)))
    base = {'cells': {A(0, 1): 1, A(0, 2): 0, A(1, 1): F(('and', [('rng', 'Sheet1!A1:A2'), ('lit', True)]))}, 'names': {}}
    out.append(('mirror-and-range', mirror(base, S2, lambda c: 1), (0, 1)))
    base = {'cells': {A(0, 1): 2, A(1, 1): F(app(0, ref(A(0, 1)), ('lit', 1)))}, 'names': {'rate': A(0, 1)}}
    m3 = mirror(mirror(base, S2, lambda c: c + 20), S3, lambda c: c + 40)
    m3['cells'][A(2, 1, S2)] = F(app(0, ref(A(1, 1, S3)), ref(A(1, 1, S2))))
    out.append(('mirror-3-sheets', m3, (6, 0)))
    return out


def _nodes(fx):
    yield fx
    k = fx[0]
    subs = fx[2] if k == 'app' else fx[1:] if k == 'if' else fx[1] if k in ('and', 'or', 'fail') else ()
    for x in subs:
        yield from _nodes(x)


def float_text_hidden(wb, ops):
    """The text form of a float under `&` is not modelled: the model writes a marker text instead (FLOAT_TEXT), and a
    result that shows the marker is not compared.  The marker does not show when the text is consumed by `=` / `<` /
    a truth test (two different floats then look equal to the model).  True = that can have happened in this
    workbook after these operations: some formula concatenates, and a float is around (a float constant, a float
    set by the history, a division).  Only consulted when real and model differ."""
    fxs = [c[1] for c in wb['cells'].values() if isinstance(c, tuple) and c and c[0] == 'f']
    nodes = [n for fx in fxs for n in _nodes(fx)]
    if not any(n[0] == 'app' and n[1] == 8 for n in nodes):
        return False
    if any(n[0] == 'app' and n[1] == 3 for n in nodes) or any(n[0] == 'lit' and isinstance(n[1], float) for n in nodes):
        return True
    if any(isinstance(c, float) for c in wb['cells'].values()):
        return True
    return any(op[0] == 's' and isinstance(op[-1], float) for op in ops)


def remap_addr(a, src, dst):
    sh, c = a.split('!')
    return f'{dst}!{c}' if sh == src else a


def remap_fx(fx, src, dst):
    k = fx[0]
    if k in ('ref', 'rng'):
        return (k, remap_addr(fx[1], src, dst))
    if k == 'app':
        return ('app', fx[1], [remap_fx(x, src, dst) for x in fx[2]])
    if k == 'if':
        return ('if',) + tuple(remap_fx(x, src, dst) for x in fx[1:])
    if k in ('and', 'or', 'fail'):
        return (k, [remap_fx(x, src, dst) for x in fx[1]])
    return fx


def mirror(wb, dst, new_value, src=S1):
    """add a copy of the cells of sheet `src` on sheet `dst`: the SAME unqualified formula texts over
    DIFFERENT constants (state kept on a shared AST node, or keyed by formula text, mixes the sheets up)"""
    out = {'cells': dict(wb['cells']), 'names': dict(wb.get('names', {}))}
    for a, c in wb['cells'].items():
        if a.split('!')[0] != src:
            continue
        b = remap_addr(a, src, dst)
        if isinstance(c, tuple) and c and c[0] == 'f':
            out['cells'][b] = F(remap_fx(c[1], src, dst))
        else:
            out['cells'][b] = new_value(c)
    extra = list(wb.get('extra_inputs', []))
    extra += [remap_addr(a, src, dst) for a in wb.get('extra_inputs', []) if a.split('!')[0] == src]
    if extra:
        out['extra_inputs'] = extra
    for k in ('twins',):
        if wb.get(k):
            out[k] = True
    out['mirrored'] = True
    return out


def inputs_of(wb):
    ins = [a for a, c in wb['cells'].items() if not (isinstance(c, tuple) and c and c[0] == 'f')]
    return ins + list(wb.get('extra_inputs', []))


def formulas_of(wb):
    return [a for a, c in wb['cells'].items() if isinstance(c, tuple) and c and c[0] == 'f']


INPUT_VALUES = [0, 1, 2, 3, 4, 5, 7, 10, 12, 2.5, 0.5, -3]
# equal (and equal-hash) in Python, different Excel types: a conversion cached by native value mixes them up
TRUE_POOL = [True, 1, 1.0]
FALSE_POOL = [False, 0, 0.0, '']
TWIN_VALUES = TRUE_POOL + FALSE_POOL
SPECIAL_VALUES = ['x', 'ab', '', True, False, 0, 2.5, -1, 100]


def gen_range_key(rng, safe_cols):
    """a range of >= 2 cells inside the first `safe_cols` columns (rows 1..3) of Sheet1"""
    c0 = rng.randrange(safe_cols)
    c1 = rng.randrange(c0, safe_cols)
    r0 = rng.randint(1, 3)
    r1 = rng.randint(r0, 3)
    if (c0, r0) == (c1, r1):
        r1 = min(3, r1 + 1)
        if (c0, r0) == (c1, r1):
            r0 = 1
    return f'Sheet1!{"ABCDEFGH"[c0]}{r0}:{"ABCDEFGH"[c1]}{r1}'


def gen_fx(rng, earlier, safe_cols, depth, twins=False):
    """a formula over earlier cells and over ranges inside the safe columns of Sheet1"""
    if twins and earlier and rng.random() < 0.45:
        # type-sensitive observers of a constant: text form, typed equality, truth value
        k = rng.random()
        if k < 0.45:
            return app(8, ref(rng.choice(earlier)), ('lit', '|'))
        if k < 0.8:
            return app(6, ref(rng.choice(earlier)), ref(rng.choice(earlier)))
        return ('if', ref(rng.choice(earlier)), app(8, ref(rng.choice(earlier)), ('lit', 'y')), ('lit', 'n'))
    r = rng.random()
    if depth <= 0 or r < 0.22:
        if earlier and rng.random() < 0.8:
            return ref(rng.choice(earlier))
        return ('lit', rng.choice([0, 1, 2, 3, 5, 10]))
    if r < 0.55:
        return app(rng.choice([0, 1, 2, 0, 1, 2, 3]), gen_fx(rng, earlier, safe_cols, depth - 1, twins),
                   gen_fx(rng, earlier, safe_cols, depth - 1, twins))
    if r < 0.72 and safe_cols > 0:
        key = gen_range_key(rng, safe_cols)
        fn = 4 if rng.random() < 0.8 else 9
        if rng.random() < 0.3:
            return app(0, app(fn, ('rng', key)), gen_fx(rng, earlier, safe_cols, depth - 1, twins))
        if fn == 9:
            # COUNTA returns a native int; as the whole value of a cell that is itself a member of a range
            # it makes RangeNode.eval raise AttributeError (both in the history and in the fresh model, so
            # not a C04/C05 matter) - the model's COUNTA returns a Number, so keep it under an operator
            return app(0, app(9, ('rng', key)), ('lit', 0))
        return app(fn, ('rng', key))
    if r < 0.82:
        return ('if', app(rng.choice([10, 6]), gen_fx(rng, earlier, safe_cols, depth - 1, twins),
                          gen_fx(rng, earlier, safe_cols, depth - 1, twins)),
                gen_fx(rng, earlier, safe_cols, depth - 1, twins), gen_fx(rng, earlier, safe_cols, depth - 1, twins))
    if r < 0.88:
        args = [app(10, gen_fx(rng, earlier, safe_cols, depth - 1, twins), ('lit', 4)),
                app(6, gen_fx(rng, earlier, safe_cols, depth - 1, twins), ('lit', 2))]
        kind = rng.choice(['and', 'or'])
        if safe_cols > 0 and rng.random() < 0.6:
            # a bare RANGE argument (the evaluator model's `Fx.sc` flattens it like logical.py does): its cells are
            # inputs / earlier formulas, so the verdict - and which later arguments are evaluated at all - changes
            # along a history
            args.insert(rng.randrange(len(args) + 1), ('rng', gen_range_key(rng, safe_cols)))
            if earlier and rng.random() < 0.5:
                args.append(ref(rng.choice(earlier)))
        return (kind, args)
    if r < 0.93:
        return app(7, gen_fx(rng, earlier, safe_cols, depth - 1, twins))
    if r < 0.96:
        return app(8, gen_fx(rng, earlier, safe_cols, depth - 1, twins), ('lit', 'k'))
    if r < 0.975:
        return ('fail', [gen_fx(rng, earlier, safe_cols, depth - 1, twins)])
    return app(0, gen_fx(rng, earlier, safe_cols, depth - 1, twins), ('lit', 1))


def gen_model(rng, ncells, twins=None, mirrored=None):
    if mirrored is None:
        mirrored = ncells >= 6 and rng.random() < 0.3
    if mirrored:
        base = gen_model_1(rng, max(3, ncells // 2), twins, single_sheet=True)
        dst = rng.choice([S2, S3])
        pool = TWIN_VALUES if base.get('twins') else INPUT_VALUES
        wb = mirror(base, dst, lambda c: rng.choice([v for v in pool if vkey(v) != vkey(c)]))
        fs = formulas_of(base)
        if fs and rng.random() < 0.5:       # a cell that reads the corresponding results of both sheets
            wb['cells'][f'{dst}!H9'] = F(app(0, ref(fs[-1]), ref(remap_addr(fs[-1], S1, dst))))
        return wb
    return gen_model_1(rng, ncells, twins)


def gen_model_1(rng, ncells, twins=None, single_sheet=False):
    """random acyclic workbook with `ncells` cells: a column-major grid on Sheet1 (a cell only refers to
    earlier cells and to ranges in strictly earlier columns), a few cells on Sheet2, 0-2 defined names"""
    rows = 3
    grid = [(c, r) for c in range(4) for r in range(1, rows + 1)]
    n2 = rng.choice([0, 0, 1, 2]) if ncells >= 4 and not single_sheet else 0
    n1 = ncells - n2
    chosen = sorted(rng.sample(grid, n1))
    order = [('g', c, r) for c, r in chosen]
    for k in range(n2):
        order.insert(rng.randint(1, len(order)), ('x', k))
    cells, earlier = {}, []
    if twins is None:
        twins = rng.random() < 0.25
    for i, slot in enumerate(order):
        if slot[0] == 'g':
            addr = A(slot[1], slot[2])
            safe_cols = slot[1]
        else:
            addr = A(slot[1], slot[1] + 1, S2)
            nxt = [s for s in order[i + 1:] if s[0] == 'g']
            safe_cols = nxt[0][1] if nxt else 4
        is_input = i < 2 or rng.random() < 0.35
        if is_input:
            cells[addr] = rng.choice(TWIN_VALUES if twins and rng.random() < 0.85 else INPUT_VALUES)
        else:
            cells[addr] = F(gen_fx(rng, earlier, safe_cols, rng.randint(1, 3), twins))
        earlier.append(addr)
    wb = {'cells': cells, 'names': {}}
    if twins:
        wb['twins'] = True
    ins = inputs_of(wb)
    if ins and rng.random() < 0.6:
        wb['names']['rate'] = rng.choice(ins)
    fs = formulas_of(wb)
    if fs and rng.random() < 0.3:
        wb['names']['total'] = rng.choice(fs)
    # blank members of ranges are inputs too
    members = set()
    for c in cells.values():
        if isinstance(c, tuple) and c[0] == 'f':
            for key in evalwire.ranges_of(c[1], set()):
                for row in evalwire.range_matrix(key):
                    members.update(row)
    extra = sorted(m for m in members if m not in cells)
    if extra:
        wb['extra_inputs'] = extra[:2]
    return wb


# ------------------------------------------------------------------------------------------ histories

def alphabet(wb, values):
    """(set x values on each input handle, evaluate x each cell handle) for the exhaustive enumeration"""
    ops = []
    names = wb.get('names', {})
    for a in inputs_of(wb):
        for v in values:
            ops.append(('s', a, v))
    for n, a in names.items():
        if a in inputs_of(wb):
            ops.append(('s', n, values[0]))
    for a in wb['cells']:
        ops.append(('e', a))
    for n in names:
        ops.append(('e', n))
    return ops


def random_history(rng, wb, length):
    names = wb.get('names', {})
    ins = inputs_of(wb)
    in_handles = ins + [n for n, a in names.items() if a in ins]
    all_handles = list(wb['cells']) + list(names)
    h = []
    for _ in range(length):
        r = rng.random()
        if r < 0.36 and in_handles:
            if wb.get('twins') and rng.random() < 0.7:
                v = rng.choice(TWIN_VALUES)
            else:
                v = rng.choice(INPUT_VALUES) if rng.random() < 0.8 else rng.choice(SPECIAL_VALUES)
            hd = rng.choice(in_handles)
            if rng.random() < 0.06:
                hd = 'Sheet1!Y98'           # an address the workbook neither stores nor references: set creates the cell
            if hd not in names and rng.random() < 0.3:
                # the documented second spelling of the address: an XLCell object (Model.set_cell_value:
                # "XLCell or a string is needed"); for the Lean model this IS a set by address
                h.append(('s', hd, v, 'xl'))
            else:
                h.append(('s', hd, v))
        elif r < 0.86:
            h.append(('e', rng.choice(all_handles)))
        elif r < 0.97:
            hd = rng.choice(all_handles + ins)
            h.append(('g', hd, None, 'xl') if hd not in names and rng.random() < 0.25 else ('g', hd))
        elif r < 0.985:
            h.append(('g', 'Sheet1!Z99'))
        else:
            h.append(('e', 'Sheet1!Z99'))
    return h


def wire_op(op):
    xl = len(op) > 3 and op[3] == 'xl'      # XLCell object as the address: `S~` / `G~` (Model.C04.setCellValueH …)
    if op[0] == 's':
        return f"{'S' if xl else 's'}~{evalwire.cp(op[1])}~{evalwire.wire_scalar(op[2])}"
    if op[0] == 'g' and xl:
        return f'G~{evalwire.cp(op[1])}'
    return f'{op[0]}~{evalwire.cp(op[1])}'


# ------------------------------------------------------------------------------------------ the real side

def install_names(model, wb):
    for n, a in wb.get('names', {}).items():
        model.defined_names[n] = model.cells[a]


def rerouted(model, wb):
    """Round-8 seed C04-11 (set_cell_value writing to the object bound in defined_names instead of cells[address]: the
    same object in a compiled model, a separate deep copy after extract / a separate object after restore).  A model
    that came out of ModelCompiler.extract (focus = everything) or out of persist + restore is a model like any other:
    the same histories must behave as on the compiled one.  `wb['route']` selects how the model under test is obtained."""
    route = wb.get('route')
    if route == 'extracted':
        from xlcalculator import ModelCompiler
        return ModelCompiler.extract(model, focus=list(model.cells) + list(wb.get('names', {})))
    if route == 'restored':
        import os
        import tempfile
        from xlcalculator.model import Model
        fd, path = tempfile.mkstemp(suffix='.json', prefix='xlverif_c04_')
        os.close(fd)
        try:
            model.persist_to_json_file(path)
            m2 = Model()
            m2.construct_from_json_file(path, build_code=True)
        finally:
            os.unlink(path)
        return m2
    return model


def vkey(v):
    return (type(v).__name__, v)


class Oracle:
    """the Spec: value of a cell in a freshly compiled workbook holding the given inputs (memoised)"""

    def __init__(self, wb):
        self.wb = wb
        self.memo = {}
        self.compiles = 0

    def value(self, inputs, addr):
        key = (tuple(sorted((a, vkey(v)) for a, v in inputs.items())), addr)
        if key not in self.memo:
            from xlcalculator import Evaluator
            cells = dict(self.wb['cells'])
            cells.update(inputs)
            model = evalwire.build_real({'cells': cells})
            self.compiles += 1
            self.memo[key] = evalwire.canon_result(Evaluator(model).evaluate, addr)
        return self.memo[key]


def same(a, b):
    """equality of wire results; floats that went through different operation orders within 1e-9"""
    if a == b or common.same_value(a, b):
        return True
    if a.startswith('A:') and b.startswith('A:'):
        ra, rb = a[2:].split(';'), b[2:].split(';')
        return len(ra) == len(rb) and all(
            len(x.split(',')) == len(y.split(',')) and all(same(p, q) for p, q in zip(x.split(','), y.split(',')))
            for x, y in zip(ra, rb))
    na, nb = common.num_value(a), common.num_value(b)
    if na is not None and nb is not None:
        fa, fb = float(na), float(nb)
        return math.isclose(fa, fb, rel_tol=1e-9, abs_tol=1e-12)
    return False


def run_history(wb, oracle, hist):
    """run one history on the real code.  Returns (observations, violations, nontrivial)"""
    from xlcalculator import Evaluator
    model = evalwire.build_real(wb)
    install_names(model, wb)
    model = rerouted(model, wb)
    ev = Evaluator(model)
    names = wb.get('names', {})
    inputs = {a: c for a, c in wb['cells'].items() if not (isinstance(c, tuple) and c and c[0] == 'f')}
    formulas = set(formulas_of(wb))
    initial = {a: common.canon(c.value) for a, c in model.cells.items() if c.formula is None}
    obs, viol = [], []
    last_eval = {}          # addr -> (result, inputs version)
    version = 0
    states_since = {a: [] for a in formulas}      # input states at evaluate calls since the cell's own evaluation
    own = {}                # addr -> result of its own last top-level evaluation
    nontrivial = False

    def bad(what, step, expected, got):
        viol.append({'what': what,
                     'input': {'workbook': wb_json(wb), 'history': hist_json(hist[:step + 1])},
                     'expected': expected, 'got': got})

    for i, op in enumerate(hist):
        kind, handle = op[0], op[1]
        addr = names.get(handle, handle)
        if kind == 's':
            v = op[2]
            try:
                if len(op) > 3 and op[3] == 'xl':
                    from xlcalculator.xltypes import XLCell
                    # the cell object itself when the model stores one and the step is even, else a fresh XLCell
                    obj = model.cells[addr] if (addr in model.cells and isinstance(model.cells[addr], XLCell)
                                                and i % 2 == 0) else XLCell(addr, None)
                    ev.set_cell_value(obj, v)
                else:
                    ev.set_cell_value(handle, v)
            except Exception as exc:  # noqa: BLE001
                bad('set_cell_value raised', i, 'the value is stored', 'X:' + type(exc).__name__)
                break
            inputs[addr] = v
            version += 1
            want = common.canon(v)
            got = common.call_real(lambda: model.cells[addr].value) if addr in model.cells else 'missing'
            got2 = common.call_real(ev.get_cell_value, handle)
            got3 = common.call_real(ev.get_cell_value, addr)
            if not (got == want and got2 == want and got3 == want):
                bad('set_cell_value (by address or defined name) did not store the value where get_cell_value and '
                    'the model read it', i, want, {'cell': got, 'get(handle)': got2, 'get(address)': got3})
            obs.append('s')
        elif kind == 'e':
            r = evalwire.canon_result(ev.evaluate, handle)
            stored = common.canon(model.cells[addr].value) if addr in model.cells else 'I:0'
            got = common.call_real(ev.get_cell_value, handle)
            want = oracle.value(inputs, addr)
            if r != want:       # exact wire text: B:/I:/F:/T: — the Excel type counts, not only the value
                bad('evaluate differs from a freshly compiled model holding the current inputs', i, want, r)
            elif not r.startswith('X:') and addr in model.cells and not (stored == r and got == r):
                bad('evaluate did not store its result as the value of the cell', i, r,
                    {'cell': stored, 'get': got})
            if addr in last_eval and last_eval[addr][1] != version and last_eval[addr][0] != r:
                nontrivial = True
            last_eval[addr] = (r, version)
            if addr in formulas and not r.startswith('X:'):
                own[addr] = r
                states_since[addr] = []
            st = dict(inputs)
            sk = tuple(sorted((a, vkey(v)) for a, v in st.items()))     # typed: True, 1 and 1.0 are different inputs
            for a in formulas:
                if a != addr and (not states_since[a] or states_since[a][-1][0] != sk):
                    states_since[a].append((sk, st))
            obs.append(f'e~{r}~{stored}')
        else:
            if len(op) > 3 and op[3] == 'xl':
                from xlcalculator.xltypes import XLCell
                got = common.call_real(ev.get_cell_value, XLCell(addr, 'ignored'))
            else:
                got = common.call_real(ev.get_cell_value, handle)
            if addr in formulas:
                cands = {own.get(addr, 'Z')}
                if addr not in own:
                    cands.add('Z')
                for _sk, st in states_since[addr]:
                    cands.add(oracle.value(st, addr))
                ok = got in cands
                want = sorted(cands)
            elif addr in inputs:
                want = common.canon(inputs[addr])
                ok = got == want
            elif addr in initial:           # blank member of a range that was never set: its initial content
                want = initial[addr]
                ok = got == want
            else:
                want = 'I:0'
                ok = got == want
            if not ok:
                bad('get_cell_value is not the last value set or computed for the cell', i, want, got)
            obs.append(f'g~{got}')
    return obs, viol, nontrivial


def shrink(wb, hist, what):
    """greedy deletion of history steps that keeps the same kind of violation"""
    oracle = Oracle(wb)
    cur = list(hist)
    progress = True
    while progress:
        progress = False
        for i in range(len(cur) - 1):
            cand = cur[:i] + cur[i + 1:]
            _, viol, _ = run_history(wb, oracle, cand)
            if viol and viol[0]['what'] == what:
                cur = cand[:len(viol[0]['input']['history'])]
                progress = True
                break
    _, viol, _ = run_history(wb, oracle, cur)
    return viol[0] if viol and viol[0]['what'] == what else None


def wb_json(wb):
    return json.loads(json.dumps(wb))


def hist_json(h):
    return [list(op) for op in h]


def wb_from_json(j):
    def fx(t):
        if isinstance(t, list):
            if t and t[0] == 'lit':
                v = t[1]
                return ('lit', tuple(v) if isinstance(v, list) else v)
            return tuple(fx(x) if isinstance(x, list) and x and isinstance(x[0], str) and x[0] in
                         ('lit', 'ref', 'rng', 'app', 'if', 'and', 'or', 'fail') else
                         ([fx(y) for y in x] if isinstance(x, list) else x) for x in t)
        return t
    cells = {}
    for a, c in j['cells'].items():
        cells[a] = ('f', fx(c[1])) if isinstance(c, list) and c and c[0] == 'f' else c
    out = {'cells': cells, 'names': dict(j.get('names', {}))}
    if j.get('extra_inputs'):
        out['extra_inputs'] = list(j['extra_inputs'])
    for k in ('twins', 'mirrored'):
        if j.get(k):
            out[k] = True
    if j.get('route'):
        out['route'] = j['route']
    return out


def _job(args):
    """worker: run a batch of histories of one workbook on the real code"""
    wb, hists = args
    oracle = Oracle(wb)
    out = []
    for h in hists:
        obs, viol, nt = run_history(wb, oracle, h)
        out.append((obs, viol, nt))
    return out, oracle.compiles


# ------------------------------------------------------------------------------------------ the check

def compare_with_model(ctx, res, wb, hists, results):
    """send the histories to the Lean state machine and compare every step"""
    from xlcalculator import Evaluator  # noqa: F401
    model = evalwire.build_real(wb)
    cw, rw, nw = evalwire.wire_model(wb, model)
    lines = []
    CH = 200
    for k in range(0, len(hists), CH):
        chunk = hists[k:k + CH]
        lines.append('\t'.join(['C04', 'hists', str(FUEL), cw, rw, nw,
                                '#'.join('|'.join(wire_op(op) for op in h) for h in chunk)]))
    resp = ctx.driver.batch(lines)
    idx = 0
    for line, r in zip(lines, resp):
        d = parse_kv(r)
        if 'steps' not in d:
            raise RuntimeError(f'driver: {r[:300]!r} for {line[:300]!r}')
        for steps in d['steps'].split('#'):
            h = hists[idx]
            obs = results[idx][0]
            idx += 1
            msteps = steps.split('|') if steps else []
            if len(msteps) < len(obs):
                raise RuntimeError(f'driver returned {len(msteps)} steps for a history of {len(obs)}')
            for i, (o, ms) in enumerate(zip(obs, msteps)):
                if FLOAT_TEXT in ms:
                    # the text form of a float under `&` is not modelled (DESIGN.md §2.3: open in the statement)
                    res.count('model comparison cut short: text form of a float')
                    break
                of, mf = o.split('~'), ms.split('~')
                if of[0] == 'e':
                    ok = same(of[1], mf[1]) and same(of[2], mf[2])
                    if ok and mf[1] != mf[3] and not same(mf[1], mf[3]):
                        res.notes.append('Lean state machine disagrees with Spec.C04.value (theorem C04 says it '
                                         'cannot): ' + ms)
                elif of[0] == 'g':
                    ok = same(of[1], mf[1])
                else:
                    ok = mf[0] == 's'
                if not ok and float_text_hidden(wb, h[:i + 1]):
                    res.count('model comparison cut short: text form of a float (consumed by a comparison)')
                    break
                if not ok and len(res.drift) < 40:
                    res.drift.append({'workbook': wb_json(wb), 'history': hist_json(h[:i + 1]),
                                      'real': o, 'model': ms})
                    break


def run_batch(ctx, res, pool, batches, label):
    """batches: list of (wb, hists).  Real side in the pool, model side in the driver."""
    jobs = []
    for wb, hists in batches:
        step = max(1, len(hists) // 8) if len(hists) > 64 else max(1, len(hists))
        for k in range(0, len(hists), step):
            jobs.append((wb, hists[k:k + step]))
    outs = pool.map(_job, jobs, chunksize=1) if pool else [_job(j) for j in jobs]
    pos = 0
    for wb, hists in batches:
        results = []
        while len(results) < len(hists):
            part, compiles = outs[pos]
            pos += 1
            results.extend(part)
            res.count('fresh compiles (Spec oracle)', compiles)
        for h, (obs, viol, nt) in zip(hists, results):
            res.evaluations += 1
            res.count('steps', len(h))
            res.count(label)
            for o in obs:
                if o.startswith('e~'):
                    r = o.split('~')[1]
                    res.count('evaluate -> ' + ('exception' if r.startswith('X:') else 'error value'
                                                if r.startswith('E:') else 'value'))
            if viol:
                v = viol[0]
                if sum(1 for x in res.violations if x['what'] == v['what']) < 3:
                    v = shrink(wb, [tuple(op) for op in v['input']['history']], v['what']) or v
                res.violations.append(v)
            if nt:
                res.nontrivial.add(json.dumps([sorted(wb['cells'].items(), key=str), hist_json(h)], default=str))
        compare_with_model(ctx, res, wb, hists, results)
        if hists:
            res.sample({'workbook': {a: (evalwire.formula_text(c[1], a.split('!')[0])
                                         if isinstance(c, tuple) and c and c[0] == 'f' else c)
                                     for a, c in wb['cells'].items()},
                        'names': wb.get('names', {}),
                        'history': hist_json(hists[len(hists) // 2]),
                        'observed': results[len(hists) // 2][0]})


def run(ctx):
    import xlcalculator  # noqa: F401
    res = Result()
    thorough = ctx.tier == 'thorough' or ctx.widen
    rng = ctx.rng
    res.rule = ('acyclic workbooks (constants, formulas over cells and ranges, chains, diamonds, cross-sheet '
                'references, defined names, lazy IF / AND / OR, blank range members; 3-12 cells); histories over '
                '(set x 2 values on every input handle incl. defined names, evaluate x every cell handle) '
                'enumerated exhaustively up to the stated length on workbooks of <= 5 cells, sampled to length 60 '
                '(with get_cell_value and unknown addresses) on larger ones; after EVERY step the returned value, '
                'the stored model.cells[a].value and get_cell_value are compared with a freshly compiled '
                'read_and_parse_dict(current inputs) (Spec) and with the Lean state machine. One evaluation = one '
                'history; non-trivial = a history containing evaluate(x) -> set of an input -> evaluate(x) with a '
                'changed result (distinct by workbook + history)')

    if getattr(ctx, 'replay', None):
        obj = json.loads(open(ctx.replay).read())
        inp = obj.get('input', obj)
        if isinstance(inp, dict) and 'workbook' in inp and 'history' in inp:
            wb = wb_from_json(inp['workbook'])
            h = [tuple(op) for op in inp['history']]
            run_batch(ctx, res, None, [(wb, [h])], 'replay')
            res.rule = 'replay of one stored history'
        else:
            res.notes.append('the replay file holds no failing input of C04 (nothing re-run)')
        return res

    workers = int(os.environ.get('C04_WORKERS', '0')) or (12 if thorough else 4)
    max_exh = 120000 if thorough else 8000        # histories per workbook in the exhaustive part
    pool = multiprocessing.get_context('fork').Pool(workers) if workers > 1 else None
    try:
        # 0. corpus (minimised past failures)
        cdir = common.CORPUS / 'C04'
        if cdir.exists():
            for p in sorted(cdir.glob('*.json')):
                inp = json.loads(p.read_text())
                inp = inp.get('input', inp)
                run_batch(ctx, res, None, [(wb_from_json(inp['workbook']), [[tuple(op) for op in inp['history']]])],
                          'corpus')
        # 1. exhaustive short histories on small workbooks
        small = fixed_models()
        ngen = 24 if thorough else 4
        for _ in range(ngen):
            wb = gen_model(rng, rng.randint(3, 5))
            ins = inputs_of(wb)
            vals = ((rng.choice(TRUE_POOL), rng.choice(FALSE_POOL)) if wb.get('twins')
                    else (rng.choice([6, 7, 8, 9, 11]), rng.choice(SPECIAL_VALUES)))
            if ins:
                small.append(('generated', wb, vals))
        for label, wb, vals in list(small):
            if wb.get('names'):
                for route in ('extracted', 'restored'):
                    small.append((f'{label} ({route} model)', {**wb, 'route': route}, vals))
        batches = []
        exhaustive_info = []
        for label, wb, vals in small:
            alpha = alphabet(wb, vals)
            length = 5
            while len(alpha) ** length > max_exh and length > 2:
                length -= 1
            while thorough and len(alpha) ** (length + 1) <= max_exh and length < 7:
                length += 1
            hists = [list(h) for h in itertools.product(alpha, repeat=length)]
            batches.append((wb, hists))
            exhaustive_info.append({'workbook': label, 'cells': len(wb['cells']), 'alphabet': len(alpha),
                                    'length': length, 'histories': len(hists)})
        run_batch(ctx, res, pool, batches, 'exhaustive')
        res.exhaustive = True
        res.extra['exhaustive_enumerations'] = exhaustive_info
        # 2. sampled long histories on workbooks of 3-12 cells
        nmodels = 400 if thorough else 40
        per = 12 if thorough else 6
        batches = []
        for _ in range(nmodels):
            wb = gen_model(rng, rng.randint(3, 12))
            if wb.get('names') and rng.random() < 0.5:
                wb['route'] = rng.choice(['extracted', 'restored'])
            hists = [random_history(rng, wb, rng.choice([8, 15, 30, 60])) for _ in range(per)]
            batches.append((wb, hists))
        # a chain as deep as the validated fuel allows, long history
        deep = {'cells': {A(0, 1): 1}, 'names': {'x': A(0, 1)}}
        prev = A(0, 1)
        for k in range(2, 14):
            cur = A((k - 1) % 8, 1 + (k - 1) // 8 + 3)
            deep['cells'][cur] = F(app(0, ref(prev), ('lit', 1)))
            prev = cur
        batches.append((deep, [random_history(rng, deep, 60) for _ in range(per)]))
        run_batch(ctx, res, pool, batches, 'sampled')
    finally:
        if pool:
            pool.close()
            pool.join()
    if res.drift:
        res.notes.append(f'{len(res.drift)} model/implementation differences where the code still meets Spec')
    return res
