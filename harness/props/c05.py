"""C05 — evaluation is deterministic, idempotent and order-independent; nothing accumulates
(DESIGN.md §4 C05).

  * schedules: sequences with repetition of evaluate calls over all cells of generated acyclic workbooks,
    issued by 1-3 Evaluator objects sharing one model (all sequences up to a length on small workbooks,
    random permutations with repetitions on larger ones), optionally with a set_cell_value between two
    passes: every value must equal the value of a FRESHLY compiled model (Spec); constants, formula
    texts, defined names, ranges and the key sets must be identical before and after; compared with the
    Lean machines Model.C04.Sys.runSched / Model.C04.run as well (model drift);
  * memory: a child process evaluates the same cells 2*10^4 (quick) / 4*10^5 (thorough) times and
    reports live EvaluatorContext objects, len(gc.get_objects()) and tracemalloc's current size before,
    in the middle and at the end: growth over the second half must be ~0;
  * an evaluator's namespace is a private copy of xl.FUNCTIONS.
"""
import itertools
import json
import multiprocessing
import os
import subprocess
import sys

import common
import evalwire
from common import Result, parse_kv
from props import c04

LEVEL_TEXT = (
    'Lean theorems (corollaries of the purity theorem of C04 and of a write-log simulation) over the model of '
    'Evaluator.evaluate with its write-backs, per-context memo and in-progress stack, for every function '
    'semantics, model and fuel: order_independent (any schedule, any number of evaluators sharing the model: '
    'every value is the reference value of the inputs), idempotent (a second evaluate returns the same and '
    'leaves the model exactly as the first left it), frame (constants, formula trees, defined names, range '
    'matrices and the key list are unchanged; an unknown address adds nothing), namespace_private, '
    'retained_bounded (n+1 passes over a schedule leave exactly the state one pass leaves: the retained state is '
    'the model plus empty stacks). Tied to the code by schedules compared with freshly compiled models and by a '
    'child-process measurement of live contexts / gc objects / traced memory over a long run.')
LEVEL_NOTE = (
    'Trusted: Lean kernel (axioms propext, Classical.choice, Quot.sound); the hand-written evaluator model '
    '(validated by correspondence); the memory clause is proved for the retained Python-level state the model '
    'carries (model + evaluator stacks; contexts and memos are local to a call) — the allocator / resident-set '
    'size is measured, not modelled; volatile functions are excluded by the statement (Sem.app is a function).')
DESIGN_REF = '§4 C05'

# theorems of the integrated pipeline model (Props/X01.lean) that carry this property's theorems to formula TEXTS in a
# compiled workbook; re-built and audited with this check (harness/common.prepare: soft obligations)
TRANSPORT = ('XlVerif.Props.X01', ['X01_order_independent', 'X01_idempotent'])

TRUSTED = [
    'Lean 4.33 kernel; axioms propext, Classical.choice, Quot.sound only',
    'hand-written model lean/XlVerif/Model/Evaluator.lean + Model/C04.lean (Sys: evaluators sharing a model), '
    'tied to the code by this correspondence run (not proved equal to the Python)',
    'what an Evaluator retains between calls is modelled as its _evaluating stack; CPython allocator behaviour, '
    'interned objects and caches of the standard library (inspect, re) are outside the model',
    'gc.get_objects / tracemalloc as the measuring instruments of the memory clause',
]
ASSUMPTIONS = [
    'acyclic workbooks without volatile functions (RAND, RANDBETWEEN, NOW, TODAY)',
    'no xl.register call between the evaluations of one schedule (all evaluators hold equal function tables)',
    'memory: growth over the second half of the run may not exceed a small constant slack (4 contexts, 200 gc '
    'objects, 256 KiB traced) — a leak of >= 26 bytes per evaluate (quick) is reported',
    'single-threaded use',
]

MEM_SCRIPT = r"""
import gc, json, math, sys, time, tracemalloc
job = json.loads(sys.stdin.read())
from xlcalculator import ModelCompiler, Evaluator
from xlcalculator import evaluator as evmod

def measure():
    gc.collect()
    objs = gc.get_objects()
    ctx = sum(1 for o in objs if isinstance(o, evmod.EvaluatorContext))
    n = len(objs)
    del objs
    return {'contexts': ctx, 'objects': n, 'traced': tracemalloc.get_traced_memory()[0]}

def run_workload(w, n):
    later = {a: v for a, v in w['cells'].items() if v == ''}
    model = ModelCompiler().read_and_parse_dict({a: v for a, v in w['cells'].items() if a not in later})
    for a, v in later.items():
        model.set_cell_value(a, v)
    ev = Evaluator(model)
    cells, sets = w['evaluate'], w.get('sets', [])
    outcomes = {}
    state = {'round': 0, 'calls': 0}
    period = 1
    for _, values in sets:
        period = period * len(values) // math.gcd(period, len(values))
    def rounds(k):
        for _ in range(k):
            i = state['round']; state['round'] += 1
            for addr, values in sets:
                ev.set_cell_value(addr, values[i % len(values)])
            for c in cells:
                try:
                    r = ('value', repr(ev.evaluate(c)))
                except Exception as exc:
                    r = ('raised', type(exc).__name__ + ':' + str(exc)[:40])
                state['calls'] += 1
                outcomes.setdefault((c, i % period), set()).add(r)
    per = max(1, n // (2 * len(cells)))
    rounds(max(4, min(40, per // 4)))            # warm-up: caches of inspect / re / dateutil fill here
    t0 = time.time()
    m0 = measure(); rounds(per); m1 = measure(); rounds(per); m2 = measure()
    kinds = {}
    for (c, ph), rs in outcomes.items():
        for kind, _ in rs:
            kinds[kind] = kinds.get(kind, 0) + 1
    return {'name': w['name'], 'm0': m0, 'm1': m1, 'm2': m2, 'calls': state['calls'], 'rounds': state['round'],
            'cells': len(cells), 'seconds': time.time() - t0, 'outcome_kinds': kinds,
            'nondeterministic': sorted(c for (c, ph), rs in outcomes.items() if len(rs) != 1)}

tracemalloc.start()
out = []
for w in job['workloads']:
    out.append(run_workload(w, job['n_per_workload']))
    gc.collect()
print(json.dumps(out))
"""

SLACK = {'contexts': 4, 'objects': 200, 'traced': 256 * 1024}

# every formula kind is evaluated in every round: error literals into aggregates and operators, an error cell
# inside ranges consumed by SUM / MAX / AND, text concatenation, IF / AND / OR, COUNTIF / MATCH / VLOOKUP, date
# and text functions, a failing cell (unknown function) and a cycle report under try/except, constants, an
# unknown address, a cross-sheet reference, set_cell_value between the evaluations
MIX_WORKLOAD = {
    'name': 'broad mix',
    'cells': {
        'Sheet1!A1': 1, 'Sheet1!A2': 2, 'Sheet1!A3': '=#N/A', 'Sheet1!A4': 'x', 'Sheet1!A5': 3.5,
        'Sheet1!D1': 1, 'Sheet1!E1': 'one', 'Sheet1!D2': 2, 'Sheet1!E2': 'two',
        'Sheet1!B1': '=SUM(A1,#REF!,A2)', 'Sheet1!B2': '=A1+#REF!', 'Sheet1!B3': '=MAX(#N/A,A1)',
        'Sheet1!B4': '=SUM(A1:A3)', 'Sheet1!B5': '=MAX(A1:A3)', 'Sheet1!B6': '=AND(A1:A3)',
        'Sheet1!B7': '=A4&"-"&A1', 'Sheet1!B8': '=IF(A1<2,B7,A2)', 'Sheet1!B9': '=OR(A1>5,A2>1)',
        'Sheet1!B10': '=COUNTIF(A1:A2,">1")', 'Sheet1!B11': '=MATCH(2,D1:D2,0)',
        'Sheet1!B12': '=VLOOKUP(2,D1:E2,2,FALSE)', 'Sheet1!B13': '=YEAR(DATE(2020,A1,A2))',
        'Sheet1!B14': '=LEFT(A4&"abc",2)&MID("hello",1,A2)', 'Sheet1!B15': '=LEN(B14)+A5', 'Sheet1!B16': '=UPPER(A4)',
        'Sheet1!B17': '=NOSUCHFN(A1)', 'Sheet1!B18': '=B19+1', 'Sheet1!B19': '=B18+1', 'Sheet1!B20': '=AVERAGE(A1:A3)',
        'Sheet1!B21': '=MIN(A1:A2)/A2', 'Sheet1!B22': '=1/0', 'Sheet1!B23': '=IF(ISERROR(B22),"e",1)',
        'Sheet1!B24': '=ROUND(A5*A2,1)', 'Sheet1!B25': '=SUM(A1:A2)*2', 'Sheet2!A1': 10, 'Sheet2!B25': '=SUM(A1:A2)*2',
        'Sheet2!C1': '=Sheet1!B25+B25', 'Sheet1!B26': '=CONCATENATE(A4,"z")', 'Sheet1!B27': '=B17+1',
        'Sheet1!B28': '=AND(A1,#VALUE!)', 'Sheet1!B29': '=SUM(A1:A2,B22)'},
    'evaluate': ['Sheet1!B%d' % i for i in range(1, 30)] + ['Sheet2!B25', 'Sheet2!C1', 'Sheet1!A1', 'Sheet1!A3',
                                                            'Sheet1!Z9'],
    'sets': [['Sheet1!A1', [1, 4]], ['Sheet1!A4', ['x', 'yy']], ['Sheet2!A1', [10, 20, 30]]],
}
PLAIN_WORKLOAD = {
    'name': 'plain chain, range, lazy IF (one evaluator, no sets)',
    'cells': {'Sheet1!A1': 1, 'Sheet1!A2': 2, 'Sheet1!B1': '=A1+1', 'Sheet1!C1': '=B1*2+A2',
              'Sheet1!D1': '=SUM(A1:A2)+C1', 'Sheet2!A1': '=Sheet1!C1-Sheet1!A1', 'Sheet1!E1': '=IF(A1<2,B1,D1)'},
    'evaluate': ['Sheet1!C1', 'Sheet2!A1', 'Sheet1!A1', 'Sheet1!D1', 'Sheet1!B1', 'Sheet1!E1', 'Sheet1!Z9'],
    'sets': [],
}


def memory_workloads():
    """the built-in workloads plus the named ones of corpus/C05 (always part of the memory run)"""
    ws = [PLAIN_WORKLOAD, MIX_WORKLOAD]
    cdir = common.CORPUS / 'C05'
    if cdir.exists():
        for p in sorted(cdir.glob('mem-*.json')):
            w = json.loads(p.read_text())['memory_workload']
            w.setdefault('sets', [])
            ws.append(w)
    return ws


def start_memory_child(n, workloads=None):
    env = dict(os.environ)
    env['PYTHONPATH'] = str(common.REPO)
    ws = workloads if workloads is not None else memory_workloads()
    proc = subprocess.Popen(['/venv/bin/python', '-c', MEM_SCRIPT], stdin=subprocess.PIPE, stdout=subprocess.PIPE,
                            stderr=subprocess.PIPE, text=True, env=env, cwd='/tmp')
    proc.stdin.write(json.dumps({'n_per_workload': max(400, n // len(ws)), 'workloads': ws}))
    proc.stdin.close()
    proc.stdin = None
    proc.c05_workloads = ws
    return proc


def finish_memory_child(proc, res, n, timeout):
    try:
        out, err = proc.communicate(timeout=timeout)
    except subprocess.TimeoutExpired:
        proc.kill()
        raise RuntimeError(f'memory child process did not finish {n} evaluations within {timeout}s')
    if proc.returncode != 0:
        raise RuntimeError(f'memory child process failed (rc={proc.returncode}): {err[-1500:]}')
    reports = json.loads(out.strip().splitlines()[-1])
    res.extra['memory'] = {'slack': SLACK, 'workloads': []}
    for w, m in zip(proc.c05_workloads, reports):
        first = {k: m['m1'][k] - m['m0'][k] for k in SLACK}
        second = {k: m['m2'][k] - m['m1'][k] for k in SLACK}
        res.extra['memory']['workloads'].append({
            'name': m['name'], 'evaluate_calls': m['calls'], 'rounds': m['rounds'], 'cells_per_round': m['cells'],
            'before': m['m0'], 'middle': m['m1'], 'end': m['m2'], 'growth_first_half': first,
            'growth_second_half': second, 'outcome_kinds': m['outcome_kinds'], 'seconds': round(m['seconds'], 1)})
        res.evaluations += 1
        res.count('memory run: evaluate calls', m['calls'])
        res.count('memory run: workloads')
        over = {k: second[k] for k in SLACK if second[k] > SLACK[k]}
        half_calls = max(1, (m['calls'] // 2))
        if over:
            res.violations.append({
                'what': 'repeated evaluation of the same cells accumulates memory (growth over the second half of the run)',
                'input': {'evaluations': n, 'memory_workload': w},
                'expected': {'growth_second_half <=': SLACK},
                'got': {'workload': m['name'], 'growth_second_half': second, 'growth_first_half': first,
                        'per_evaluate_call': {k: round(second[k] / half_calls, 2) for k in SLACK}}})
        if m['nondeterministic']:
            res.violations.append({'what': 'the same cell evaluated repeatedly (same inputs) returned different values',
                                   'input': {'evaluations': n, 'memory_workload': w}, 'expected': 'one value per cell',
                                   'got': m['nondeterministic'][:10]})
        if not over and not m['nondeterministic']:
            res.nontrivial.add('memory:' + m['name'])


# ------------------------------------------------------------------------------------------ schedules

def snapshot(model):
    """everything evaluate must not change"""
    cells = {}
    for a, c in model.cells.items():
        if c.formula is None:
            cells[a] = ('const', type(c.value).__name__, common.canon(c.value))
        else:
            cells[a] = ('formula', c.formula.formula, c.formula.sheet_name if hasattr(c.formula, 'sheet_name') else '')
    return {
        'keys': list(model.cells.keys()),
        'cells': cells,
        'names': {n: (type(d).__name__, getattr(d, 'address', None) if not isinstance(getattr(d, 'address', None), list)
                      else 'range') for n, d in model.defined_names.items()},
        'ranges': {k: r.cells for k, r in model.ranges.items()},
        'formulae': sorted(model.formulae.keys()),
    }


def diff_snapshot(a, b):
    out = {}
    for k in a:
        if a[k] != b[k]:
            if isinstance(a[k], dict):
                out[k] = {x: (a[k].get(x), b[k].get(x)) for x in set(a[k]) | set(b[k]) if a[k].get(x) != b[k].get(x)}
            else:
                out[k] = (a[k], b[k])
    return out


class LazyEvaluators:
    """evaluator number e is constructed when it is first used (so some are created before, some after
    evaluations took place) unless `eager`"""

    def __init__(self, model, k, eager):
        from xlcalculator import Evaluator
        self.model, self.mk = model, Evaluator
        self.evs = {e: Evaluator(model) for e in range(k)} if eager else {}

    def __getitem__(self, e):
        if e not in self.evs:
            self.evs[e] = self.mk(self.model)
        return self.evs[e]

    def __iter__(self):
        return iter(self.evs.values())


def eager_of(k, sched):
    """deterministic choice (so that a replay repeats it): evaluators are created up front for about
    half of the schedules, on first use for the others"""
    return (k + len(sched)) % 2 == 0


def run_schedule(wb, oracle, k, sched):
    """sched: list of ('e', evaluator, handle) | ('s', evaluator, handle, value).  Returns (obs, violations)"""
    from xlcalculator import Evaluator
    model = evalwire.build_real(wb)
    c04.install_names(model, wb)
    evs = LazyEvaluators(model, k, eager_of(k, sched))
    names = wb.get('names', {})
    inputs = {a: c for a, c in wb['cells'].items() if not (isinstance(c, tuple) and c and c[0] == 'f')}
    obs, viol = [], []
    snap = snapshot(model)

    def bad(what, step, expected, got):
        viol.append({'what': what, 'input': {'workbook': c04.wb_json(wb), 'evaluators': k,
                                             'schedule': [list(x) for x in sched[:step + 1]]},
                     'expected': expected, 'got': got})

    for i, op in enumerate(sched):
        handle = op[2]
        addr = names.get(handle, handle)
        if op[0] == 's':
            evs[op[1]].set_cell_value(handle, op[3])
            inputs[addr] = op[3]
            snap = snapshot(model)
            obs.append('s')
            continue
        r = evalwire.canon_result(evs[op[1]].evaluate, handle)
        want = oracle.value(inputs, addr)
        if r != want:          # exact wire text: the Excel type (B:/I:/F:/T:) counts, not only the value
            bad('the value depends on what was evaluated before / on the evaluator used (differs from a freshly '
                'compiled model)', i, want, r)
            break
        now = snapshot(model)
        if now != snap:
            bad('evaluate changed constants, formula texts, defined names, ranges or the set of cells', i,
                'unchanged', diff_snapshot(snap, now))
            break
        stored = common.canon(model.cells[addr].value) if addr in model.cells else 'I:0'
        obs.append(f'e~{r}~{stored}')
    for e in evs:
        if getattr(e, '_evaluating', []):
            bad('an evaluator keeps cells on its in-progress stack after evaluate returned', len(sched) - 1, [],
                list(e._evaluating))
    if not viol and (len(sched) % 4 == 0 or wb.get('twins')):
        # which Evaluator instance is used must not matter: one created now, over the used model
        late = Evaluator(model)
        for a in wb['cells']:
            r = evalwire.canon_result(late.evaluate, a)
            want = oracle.value(inputs, a)
            if r != want:
                bad(f'an Evaluator created after the schedule gives a different value for {a} than a freshly '
                    'compiled model', len(sched) - 1, want, r)
                break
    return obs, viol


def shrink(wb, k, sched, what):
    """greedy deletion of schedule steps that keeps the same kind of violation"""
    oracle = c04.Oracle(wb)
    cur = list(sched)
    progress = True
    while progress:
        progress = False
        for i in range(len(cur) - 1):
            cand = cur[:i] + cur[i + 1:]
            _, viol = run_schedule(wb, oracle, k, cand)
            if viol and viol[0]['what'] == what:
                cur = [tuple(x) for x in viol[0]['input']['schedule']]
                progress = True
                break
    _, viol = run_schedule(wb, oracle, k, cur)
    return viol[0] if viol and viol[0]['what'] == what else None


# ------------------------------------------------------------------------------------------ typed constants
# Workbooks written as Excel formula text (real code vs. freshly compiled real code only — the Lean function
# semantics has no ISNUMBER / ISTEXT / COUNT): constants that are equal and equal-hash in Python but have
# different Excel types (True/1/1.0, False/0/0.0/'') side by side, each watched by type-sensitive formulas.

RAW_WITNESS = {'Sheet1!A1': True, 'Sheet1!A2': 1, 'Sheet1!A3': 0, 'Sheet1!A4': False,
               'Sheet1!B1': '=ISNUMBER(A1)', 'Sheet1!B2': '=ISNUMBER(A2)', 'Sheet1!B3': '=A3&"|"',
               'Sheet1!B4': '=A4&"|"'}
RAW_WITNESS2 = {'Sheet1!A1': 1.0, 'Sheet1!A2': 1, 'Sheet1!A3': True, 'Sheet1!A4': 0.0, 'Sheet1!A5': 0,
                'Sheet1!B1': '=A1&"|"', 'Sheet1!B2': '=A2&"|"', 'Sheet1!B3': '=A3=A2', 'Sheet1!B4': '=A4&"|"',
                'Sheet1!B5': '=A5&"|"', 'Sheet1!C1': '=COUNT(A1:A5)', 'Sheet1!C2': '=ISTEXT(A3)'}
# the same unqualified formula texts ($ references, ranges, AND / OR over ranges) on three sheets over different data
RAW_MIRROR = {}
for _sheet, (_a1, _a2) in {'Sheet1': (10, 0), 'Sheet2': (100, 5), 'My Sheet': (7, 1)}.items():
    RAW_MIRROR.update({f'{_sheet}!A1': _a1, f'{_sheet}!A2': _a2, f'{_sheet}!B1': '=$A$1*2', f'{_sheet}!B2': '=AND(A1:A2)',
                       f'{_sheet}!B3': '=SUM($A$1:A2)+1', f'{_sheet}!B4': '=OR(A2:A2,A1>50)', f'{_sheet}!B5': '=A$1&"|"&$A2'})
RAW_MIRROR['Sheet2!C1'] = "='My Sheet'!B1+B1+Sheet1!B1"
OBSERVERS = ['=ISNUMBER({a})', '=ISTEXT({a})', '={a}&"|"', '={a}={b}', '=IF({a},"y","n")', '={a}+0', '=ISBLANK({a})',
             '=NOT({a})', '=EXACT({a},{b})', '=COUNT({lo}:{hi})', '=SUM({lo}:{hi})', '=COUNTA({lo}:{hi})+0',
             '=ISNUMBER({a})&ISTEXT({b})', '={a}<{b}', '=ISERROR({a}/{b})', '=$A$1&"|"', '=SUM($A$1:{a})',
             '=AND({lo}:{hi})', '=OR({lo}:{hi})', '=$A1={a}']


def raw_is_formula(v):
    return isinstance(v, str) and v.startswith('=')


def gen_raw(rng):
    n = rng.randint(3, 6)
    pool = rng.choice([c04.TRUE_POOL, c04.FALSE_POOL])
    consts = rng.sample(pool, 2) + [rng.choice(c04.TWIN_VALUES + ['1', 'TRUE', 2, 'a']) for _ in range(n - 2)]
    rng.shuffle(consts)
    d = {f'Sheet1!A{i + 1}': v for i, v in enumerate(consts)}
    names = [f'A{i + 1}' for i in range(n)]
    row = 0
    for a in names:
        for _ in range(rng.randint(1, 2)):
            row += 1
            t = rng.choice(OBSERVERS)
            d[f'Sheet1!B{row}'] = t.format(a=a, b=rng.choice(names), lo='A1', hi=f'A{n}')
    if rng.random() < 0.4:      # an observer of observers
        row += 1
        d[f'Sheet1!B{row}'] = f'=B1&"/"&B{rng.randint(1, row - 1)}'
    if rng.random() < 0.45:
        # the same formula texts on one or two more sheets, over different constants
        base = dict(d)
        for dst in rng.sample(['Sheet2', 'My Sheet', "O'Brien"], rng.randint(1, 2)):
            for a, v in base.items():
                coord = a.split('!')[1]
                if raw_is_formula(v):
                    d[f'{dst}!{coord}'] = v
                else:
                    d[f'{dst}!{coord}'] = rng.choice(c04.TWIN_VALUES + [2, 3, 'a', 'b', 10])
        if rng.random() < 0.5:
            d['Sheet1!C9'] = '=B1&"+"&Sheet2!B1' if 'Sheet2!B1' in d else "=B1&\"+\"&'My Sheet'!B1" \
                if 'My Sheet!B1' in d else '=B1'
    return d


def build_raw(d, inputs):
    from xlcalculator import ModelCompiler
    cells = dict(d)
    cells.update(inputs)
    later = {a: v for a, v in cells.items() if v == '' and isinstance(v, str)}
    model = ModelCompiler().read_and_parse_dict({a: v for a, v in cells.items() if a not in later and v is not None})
    for a, v in later.items():
        model.set_cell_value(a, v)
    return model


class RawOracle:
    """value of a cell for a new Evaluator on a freshly compiled workbook holding the given inputs"""

    def __init__(self, d):
        self.d, self.memo, self.compiles = d, {}, 0

    def value(self, inputs, addr):
        key = (tuple(sorted((a, c04.vkey(v)) for a, v in inputs.items())), addr)
        if key not in self.memo:
            from xlcalculator import Evaluator
            self.compiles += 1
            self.memo[key] = evalwire.canon_result(Evaluator(build_raw(self.d, inputs)).evaluate, addr)
        return self.memo[key]


def run_raw_schedule(d, oracle, k, sched):
    from xlcalculator import Evaluator
    model = build_raw(d, {})
    evs = LazyEvaluators(model, k, eager_of(k, sched))
    inputs, obs, viol = {}, [], []
    snap = snapshot(model)

    def bad(what, step, expected, got):
        viol.append({'what': what, 'input': {'raw_workbook': dict(d), 'evaluators': k,
                                             'schedule': [list(x) for x in sched[:step + 1]]},
                     'expected': expected, 'got': got})

    for i, op in enumerate(sched):
        addr = op[2]
        if op[0] == 's':
            evs[op[1]].set_cell_value(addr, op[3])
            inputs[addr] = op[3]
            snap = snapshot(model)
            obs.append('s')
            continue
        r = evalwire.canon_result(evs[op[1]].evaluate, addr)
        want = oracle.value(inputs, addr)
        if r != want and len(d) > 60 and ('ecursion' in r or 'ecursion' in want):
            # the interpreter's recursion limit on a size workbook: how deep a chain can be followed head-first is a
            # capacity (a refactoring that adds a stack frame per level lowers it), not an order dependence of VALUES
            obs.append('capacity')
            continue
        if r != want:
            bad('the value (or its Excel type) depends on what was evaluated before / on the evaluator used '
                '(differs from a new evaluator on a freshly compiled model)', i, want, r)
            break
        now = snapshot(model)
        if now != snap:
            bad('evaluate changed constants, formula texts, defined names, ranges or the set of cells', i,
                'unchanged', diff_snapshot(snap, now))
            break
        obs.append(f'e~{r}')
    if not viol:
        late = Evaluator(model)
        late_cells = list(d)
        if len(late_cells) > 60:        # the size workbooks: formula cells only, thinned (each costs a fresh compile)
            late_cells = [a for a in late_cells if raw_is_formula(d[a])]
            late_cells = late_cells[::max(1, len(late_cells) // 24)]
        for a in late_cells:
            r = evalwire.canon_result(late.evaluate, a)
            want = oracle.value(inputs, a)
            if r != want:
                bad(f'an Evaluator created after the schedule gives a different value for {a} than a freshly '
                    'compiled model', len(sched) - 1, want, r)
                break
    return obs, viol


def raw_twins(d):
    """pairs of constants equal in Python but of different type"""
    cs = [(a, v) for a, v in d.items() if not raw_is_formula(v)]
    out = set()
    for a, v in cs:
        for b, w in cs:
            if a < b and type(v) is not type(w) and v == w:
                out.add((a, b))
    return out


def raw_nontrivial(d, sched):
    """one evaluator evaluates formulas that read both members of a twin pair"""
    import re
    texts = {}
    for op in sched:
        if op[0] == 'e' and raw_is_formula(d.get(op[2])):
            texts.setdefault(d[op[2]], set()).add(op[2].split('!')[0])
    if any(len(v) > 1 for v in texts.values()):
        return True             # the same formula text evaluated on two sheets
    reads = {}
    for a, v in d.items():
        if raw_is_formula(v):
            rs = set()
            sheet = a.split('!')[0]
            for m in re.finditer(r'\$?([A-Z])\$?(\d+)(?::\$?([A-Z])\$?(\d+))?', v):
                if m.group(3):
                    for r in range(int(m.group(2)), int(m.group(4)) + 1):
                        rs.add(f'{sheet}!{m.group(1)}{r}')
                else:
                    rs.add(f'{sheet}!{m.group(1)}{m.group(2)}')
            reads[a] = rs
    per = {}
    for op in sched:
        if op[0] == 'e':
            per.setdefault(op[1], set()).update(reads.get(op[2], {op[2]}))
    return any(a in seen and b in seen for seen in per.values() for a, b in raw_twins(d))


def raw_schedule(rng, d, k, length, with_set):
    handles = list(d)
    seq = [rng.choice(handles) for _ in range(length)]
    sched = [('e', rng.randrange(k), h) for h in seq]
    if with_set:
        consts = [a for a, v in d.items() if not raw_is_formula(v)]
        sched.insert(rng.randint(1, len(sched)), ('s', rng.randrange(k), rng.choice(consts),
                                                  rng.choice(c04.TWIN_VALUES)))
    return sched


def _raw_job(args):
    d, ks = args
    oracle = RawOracle(d)
    return [run_raw_schedule(d, oracle, k, sched) for k, sched in ks], oracle.compiles


def run_raw_batch(res, pool, batches, label):
    outs = pool.map(_raw_job, batches, chunksize=1) if pool else [_raw_job(b) for b in batches]
    for (d, ks), (results, compiles) in zip(batches, outs):
        res.count('fresh compiles (Spec oracle)', compiles)
        for (k, sched), (obs, viol) in zip(ks, results):
            res.evaluations += 1
            res.count(label)
            res.count('evaluate calls', sum(1 for op in sched if op[0] == 'e'))
            if viol:
                if len(res.violations) < 40:
                    res.violations.append(viol[0])
            elif raw_nontrivial(d, sched):
                res.nontrivial.add(json.dumps([sorted(d.items(), key=str), k, [list(x) for x in sched]], default=str))
        if ks:
            res.sample({'workbook (formula text)': d, 'evaluators': ks[0][0], 'schedule': [list(x) for x in ks[0][1]],
                        'observed': results[0][0]}, limit=12)


def precedents(wb):
    direct = {}
    for a, c in wb['cells'].items():
        if isinstance(c, tuple) and c and c[0] == 'f':
            acc = set()

            def walk(fx):
                if fx[0] == 'ref':
                    acc.add(fx[1])
                elif fx[0] == 'rng':
                    for row in evalwire.range_matrix(fx[1]):
                        acc.update(row)
                elif fx[0] == 'app':
                    for x in fx[2]:
                        walk(x)
                elif fx[0] == 'if':
                    for x in fx[1:]:
                        walk(x)
                elif fx[0] in ('and', 'or', 'fail'):
                    for x in fx[1]:
                        walk(x)
            walk(c[1])
            direct[a] = acc
    trans = {}

    def close(a, seen):
        for b in direct.get(a, ()):
            if b not in seen:
                seen.add(b)
                close(b, seen)
        return seen
    for a in direct:
        trans[a] = close(a, set())
    return trans


def is_nontrivial(wb, sched, trans):
    """some formula cell is evaluated again after one of its precedents or dependents was evaluated, or two cells
    with the same formula text on different sheets are evaluated"""
    names = wb.get('names', {})
    seq = [names.get(op[2], op[2]) for op in sched if op[0] == 'e']
    if wb.get('mirrored'):
        texts = {}
        for a in seq:
            c = wb['cells'].get(a)
            if isinstance(c, tuple) and c and c[0] == 'f':
                texts.setdefault(evalwire.formula_text(c[1], a.split('!')[0]), set()).add(a.split('!')[0])
        if any(len(v) > 1 for v in texts.values()):
            return True
    for i, a in enumerate(seq):
        if a not in trans:
            continue
        for j in range(i + 1, len(seq)):
            if seq[j] == a:
                between = seq[i + 1:j]
                if any((b in trans[a]) or (a in trans.get(b, ())) for b in between):
                    return True
    return False


def _job(args):
    wb, k_scheds = args
    oracle = c04.Oracle(wb)
    out = []
    for k, sched in k_scheds:
        out.append(run_schedule(wb, oracle, k, sched))
    return out, oracle.compiles


def compare_with_model(ctx, res, wb, k_scheds, results):
    model = evalwire.build_real(wb)
    cw, rw, nw = evalwire.wire_model(wb, model)
    lines, kinds = [], []
    for (k, sched) in k_scheds:
        if any(op[0] == 's' for op in sched):
            ops = '|'.join(c04.wire_op(('s', op[2], op[3]) if op[0] == 's' else ('e', op[2])) for op in sched)
            lines.append('\t'.join(['C05', 'hists', str(c04.FUEL), cw, rw, nw, ops]))
            kinds.append('h')
        else:
            s = '|'.join(f'{op[1]}~{evalwire.cp(op[2])}' for op in sched)
            lines.append('\t'.join(['C05', 'sched', str(c04.FUEL), cw, rw, nw, str(k), s]))
            kinds.append('s')
    resp = ctx.driver.batch(lines)
    for (k, sched), kind, line, r, (obs, viol) in zip(k_scheds, kinds, lines, resp, results):
        d = parse_kv(r)
        if viol:
            continue
        if kind == 'h':
            if 'steps' not in d:
                raise RuntimeError(f'driver: {r[:300]!r}')
            msteps = d['steps'].split('|')
            ok = True
            for o, ms in zip(obs, msteps):
                if c04.FLOAT_TEXT in ms:
                    break
                of, mf = o.split('~'), ms.split('~')
                if of[0] == 'e' and not (c04.same(of[1], mf[1]) and c04.same(of[2], mf[2])):
                    ok = False
                    break
            if not ok and c04.float_text_hidden(wb, sched):
                res.count('model comparison cut short: text form of a float (consumed by a comparison)')
            elif not ok:
                res.drift.append({'workbook': c04.wb_json(wb), 'schedule': [list(x) for x in sched], 'real': obs,
                                  'model': msteps})
            continue
        if 'vals' not in d:
            raise RuntimeError(f'driver: {r[:300]!r} for {line[:300]!r}')
        vals = d['vals'].split('|') if d['vals'] else []
        spec = d['spec'].split('|') if d['spec'] else []
        if vals != spec:
            res.notes.append('Lean: runSched differs from Spec.C04.value (theorem sched_results says it cannot)')
        if d.get('frame') != '1' or d.get('stacks') != '1':
            res.notes.append('Lean: frame / stacks not preserved by runSched (theorems frame_sched, retained_counts)')
        if any(c04.FLOAT_TEXT in v for v in vals):
            continue
        real = [o.split('~')[1] for o in obs]
        if len(real) != len(vals) or not all(c04.same(a, b) for a, b in zip(real, vals)):
            if c04.float_text_hidden(wb, sched):
                res.count('model comparison cut short: text form of a float (consumed by a comparison)')
            elif len(res.drift) < 40:
                res.drift.append({'workbook': c04.wb_json(wb), 'evaluators': k,
                                  'schedule': [list(x) for x in sched], 'real': real, 'model': vals})


def run_batch(ctx, res, pool, batches, label):
    jobs = []
    for wb, ks in batches:
        step = max(1, len(ks) // 4) if len(ks) > 64 else max(1, len(ks))
        for i in range(0, len(ks), step):
            jobs.append((wb, ks[i:i + step]))
    outs = pool.map(_job, jobs, chunksize=1) if pool else [_job(j) for j in jobs]
    pos = 0
    for wb, ks in batches:
        results = []
        while len(results) < len(ks):
            part, compiles = outs[pos]
            pos += 1
            results.extend(part)
            res.count('fresh compiles (Spec oracle)', compiles)
        trans = precedents(wb)
        for (k, sched), (obs, viol) in zip(ks, results):
            res.evaluations += 1
            res.count(label)
            res.count(f'evaluators:{k}')
            res.count('evaluate calls', sum(1 for op in sched if op[0] == 'e'))
            if viol:
                if len(res.violations) < 40:
                    v = viol[0]
                    if sum(1 for x in res.violations if x['what'] == v['what']) < 3:
                        v = shrink(wb, k, [tuple(x) for x in v['input']['schedule']], v['what']) or v
                    res.violations.append(v)
            elif is_nontrivial(wb, sched, trans):
                res.nontrivial.add(json.dumps([sorted(wb['cells'].items(), key=str), k, [list(x) for x in sched]],
                                              default=str))
        compare_with_model(ctx, res, wb, ks, results)
        if ks:
            mid = len(ks) // 2
            res.sample({'workbook': {a: (evalwire.formula_text(c[1], a.split('!')[0])
                                         if isinstance(c, tuple) and c and c[0] == 'f' else c)
                                     for a, c in wb['cells'].items()},
                        'evaluators': ks[mid][0], 'schedule': [list(x) for x in ks[mid][1]],
                        'observed': results[mid][0]}, limit=8)


def random_schedule(rng, wb, k, length, with_set):
    handles = list(wb['cells']) + list(wb.get('names', {}))
    names = wb.get('names', {})
    ins = c04.inputs_of(wb)
    base = handles[:]
    rng.shuffle(base)
    seq = (base * (1 + length // max(1, len(base))))[:length]
    for _ in range(length // 3):
        seq[rng.randrange(len(seq))] = rng.choice(handles)          # repetitions
    if rng.random() < 0.2:
        seq[rng.randrange(len(seq))] = 'Sheet1!Z99'                 # an address that is not in the model
    sched = [('e', rng.randrange(k), h) for h in seq]
    if with_set and ins:
        in_handles = ins + [n for n, a in names.items() if a in ins]
        for _ in range(rng.randint(1, 2)):
            pos = rng.randint(1, len(sched))
            sched.insert(pos, ('s', rng.randrange(k), rng.choice(in_handles), rng.choice(c04.INPUT_VALUES)))
    return sched


def check_namespace(res):
    """an evaluator's namespace is a copy of xl.FUNCTIONS taken at construction"""
    from xlcalculator import Evaluator, ModelCompiler
    from xlcalculator.xlfunctions import xl
    model = ModelCompiler().read_and_parse_dict({'Sheet1!A1': 1, 'Sheet1!B1': '=VERIFC05FN(A1)'})
    e1 = Evaluator(model)
    name = 'VERIFC05FN'
    res.evaluations += 1
    try:
        if e1.namespace is xl.FUNCTIONS:
            res.violations.append({'what': 'an evaluator shares the global function table instead of a copy',
                                   'input': 'Evaluator(model).namespace is xl.FUNCTIONS', 'expected': False,
                                   'got': True})
            return
        xl.FUNCTIONS[name] = lambda x: 41
        in_old = name in e1.namespace
        e2 = Evaluator(model)
        in_new = name in e2.namespace
        r_new = evalwire.canon_result(e2.evaluate, 'Sheet1!B1')
        e2.namespace[name] = lambda x: 42
        e3 = Evaluator(model)
        r_e3 = evalwire.canon_result(e3.evaluate, 'Sheet1!B1')
        glob = xl.FUNCTIONS[name](0)
        ok = (not in_old) and in_new and r_new == 'I:41' and r_e3 == 'I:41' and glob == 41
        if not ok:
            res.violations.append({
                'what': 'evaluator namespaces are not private copies of the function table taken at construction',
                'input': 'register VERIFC05FN after e1, before e2; rebind it in e2.namespace; create e3',
                'expected': {'in e1': False, 'in e2': True, 'e2 result': 'I:41', 'e3 result': 'I:41', 'global': 41},
                'got': {'in e1': in_old, 'in e2': in_new, 'e2 result': r_new, 'e3 result': r_e3, 'global': glob}})
        else:
            res.nontrivial.add('namespace')
    finally:
        xl.FUNCTIONS.pop(name, None)


def run(ctx):
    import xlcalculator  # noqa: F401
    res = Result()
    thorough = ctx.tier == 'thorough' or ctx.widen
    rng = ctx.rng
    res.rule = ('acyclic workbooks of C04 (3-12 cells); schedules = sequences with repetition of evaluate calls over '
                'all cell handles (cells, defined names, an unknown address) by 1-3 Evaluator objects sharing the '
                'model: ALL sequences up to the stated length on the small workbooks (evaluator assignment '
                'sampled), random permutations with repetitions on larger ones, a third of them with 1-2 '
                'set_cell_value calls by some evaluator in between; after every call the value is compared with '
                'a freshly compiled model (Spec) and a snapshot of constants / formula texts / defined names / '
                'ranges / key sets with the one taken before; evaluators are created up front or on first use, and '
                'an Evaluator created after the schedule re-evaluates every cell; values are compared as exact '
                'wire text, i.e. by Excel type (B:/I:/F:/T:) as well as value; workbooks with equal-but-'
                'differently-typed constants (True/1/1.0, False/0/0.0/"") watched by type-sensitive formulas '
                '(&, =, IF; as formula text also ISNUMBER ISTEXT COUNT NOT EXACT ...); plus one long child-process '
                'run measuring live contexts, gc objects and traced memory, and the namespace-copy probe. One evaluation = one '
                'schedule; non-trivial = a schedule in which a formula cell is evaluated again after one of its '
                'precedents or dependents was evaluated (distinct by workbook + evaluators + schedule)')

    if getattr(ctx, 'replay', None):
        obj = json.loads(open(ctx.replay).read())
        inp = obj.get('input', obj)
        if isinstance(inp, dict) and 'schedule' in inp and isinstance(inp.get('workbook'), dict):
            wb = c04.wb_from_json(inp['workbook'])
            sched = [tuple(x) for x in inp['schedule']]
            run_batch(ctx, res, None, [(wb, [(int(inp.get('evaluators', 1)), sched)])], 'replay')
        elif isinstance(inp, dict) and 'raw_workbook' in inp:
            run_raw_batch(res, None, [(inp['raw_workbook'], [(int(inp.get('evaluators', 1)),
                                                              [tuple(x) for x in inp['schedule']])])], 'replay')
        elif isinstance(inp, dict) and 'evaluations' in inp:
            n = int(inp['evaluations'])
            ws = [inp['memory_workload']] if 'memory_workload' in inp else None
            finish_memory_child(start_memory_child(n if ws is None else n // len(memory_workloads()), ws), res, n, 3600)
        else:
            res.notes.append('the replay file holds no failing input of C05 (nothing re-run)')
        res.rule = 'replay of one stored input'
        return res

    n_mem = int(os.environ.get('C05_MEM_N', '0')) or (400000 if thorough else 20000)
    child = start_memory_child(n_mem)
    workers = int(os.environ.get('C05_WORKERS', '0')) or (10 if thorough else 3)
    pool = multiprocessing.get_context('fork').Pool(workers) if workers > 1 else None
    try:
        check_namespace(res)
        # 0. corpus (minimised regression schedules)
        cdir = common.CORPUS / 'C05'
        if cdir.exists():
            for pth in sorted(cdir.glob('*.json')):
                inp = json.loads(pth.read_text())
                if 'memory_workload' in inp:
                    continue                      # a named workload of the memory run (memory_workloads())
                inp = inp.get('input', inp)
                if 'raw_workbook' in inp:
                    run_raw_batch(res, None, [(inp['raw_workbook'], [(int(inp.get('evaluators', 1)),
                                                                      [tuple(x) for x in inp['schedule']])])], 'corpus')
                    continue
                run_batch(ctx, res, None, [(c04.wb_from_json(inp['workbook']),
                                            [(int(inp.get('evaluators', 1)), [tuple(x) for x in inp['schedule']])])],
                          'corpus')
        # 1. all sequences up to a length over the cells of the small workbooks
        batches, info = [], []
        cap = 30000 if thorough else 3000
        for label, wb, _vals in c04.fixed_models():
            handles = list(wb['cells']) + list(wb.get('names', {})) + ['Sheet1!Z99']
            length = 6
            while sum(len(handles) ** j for j in range(1, length + 1)) > cap and length > 2:
                length -= 1
            ks = []
            for j in range(1, length + 1):
                for seq in itertools.product(handles, repeat=j):
                    k = rng.randint(1, 3)
                    ks.append((k, [('e', rng.randrange(k), h) for h in seq]))
            batches.append((wb, ks))
            info.append({'workbook': label, 'handles': len(handles), 'max_length': length, 'schedules': len(ks)})
        run_batch(ctx, res, pool, batches, 'exhaustive sequences')
        res.exhaustive = True
        res.extra['exhaustive_enumerations'] = info
        # 2. random permutations with repetitions, 1-3 evaluators, some with sets in between
        nmodels = 500 if thorough else 60
        per = 16 if thorough else 8
        batches = []
        for _ in range(nmodels):
            wb = c04.gen_model(rng, rng.randint(3, 12))
            ks = []
            for i in range(per):
                k = rng.randint(1, 3)
                ks.append((k, random_schedule(rng, wb, k, rng.choice([6, 12, 24, 40]), with_set=(i % 3 == 2))))
            batches.append((wb, ks))
        for label, wb, _vals in c04.fixed_models():
            ks = []
            for i in range(per):
                k = rng.randint(2, 3)
                ks.append((k, random_schedule(rng, wb, k, rng.choice([8, 16]), with_set=(i % 2 == 1))))
            batches.append((wb, ks))
        run_batch(ctx, res, pool, batches, 'random schedules')
        # 2b. typed constants: equal-but-differently-typed constants next to type-sensitive formulas
        batches = []
        for d in (RAW_WITNESS, RAW_WITNESS2, RAW_MIRROR):
            obsv = [a for a, v in d.items() if raw_is_formula(v)]
            hs = list(d)
            ks = []
            for j in (1, 2, 3):
                if j == 3 and len(obsv) > 10:
                    continue
                for seq in itertools.product(obsv if j >= 2 and len(hs) > 14 or j == 3 else hs, repeat=j):
                    k = 1 + (len(ks) % 2)
                    ks.append((k, [('e', (i * len(ks)) % k, h) for i, h in enumerate(seq)]))
            for seq in itertools.permutations(obsv[:5], min(4, len(obsv))):
                ks.append((1, [('e', 0, h) for h in seq]))
            step = max(1, len(ks) // 4)
            for i in range(0, len(ks), step):
                batches.append((d, ks[i:i + step]))
        nraw = 2500 if thorough else 160
        for _ in range(nraw):
            d = gen_raw(rng)
            ks = []
            for i in range(8 if thorough else 5):
                k = rng.randint(1, 3)
                ks.append((k, raw_schedule(rng, d, k, rng.choice([3, 5, 8, 12]), with_set=(i % 3 == 2))))
            batches.append((d, ks))
        run_raw_batch(res, pool, batches, 'typed-constant schedules (formula text)')
        # 2c. SIZE: a chain deeper than any plausible depth guard (the interpreter itself copes with ~200 levels) and
        # several LARGE ranges consumed by flattening functions, each evaluated more than once: head first, bottom
        # up, round-robin, by a second evaluator — the value of a cell may depend on none of that
        depth = 110      # deeper than any plausible depth guard, well below the interpreter's own limit (~245 levels on this tree)
        chain = {'Sheet1!A1': 1}
        chain.update({f'Sheet1!A{i}': f'=A{i - 1}+1' for i in range(2, depth + 1)})
        chain['Sheet2!A1'] = f'=Sheet1!A{depth}*2'
        head = f'Sheet1!A{depth}'
        ks = [(1, [('e', 0, head), ('e', 0, 'Sheet1!A70'), ('e', 0, head)]),
              (1, [('e', 0, f'Sheet1!A{i}') for i in range(10, depth + 1, 10)] + [('e', 0, head)]),
              (2, [('e', 0, 'Sheet1!A66'), ('e', 1, head), ('e', 0, head), ('e', 1, 'Sheet2!A1')]),
              (2, [('e', 0, head), ('s', 0, 'Sheet1!A1', 1000), ('e', 1, head), ('e', 0, 'Sheet1!A90'), ('e', 0, 'Sheet2!A1')]),
              (1, [('e', 0, 'Sheet2!A1'), ('e', 0, 'Sheet1!A100'), ('e', 0, 'Sheet2!A1')])]
        big = {}
        for c, col in enumerate('ABCD'):
            for r in range(1, 251):
                big[f'Sheet1!{col}{r}'] = (c + 1) * 1000 + r if (r + c) % 7 else float((c + 1) * 1000 + r) + 0.5
        big.update({'Sheet1!F1': '=SUM(A1:A250)', 'Sheet1!F2': '=MAX(B1:B250)', 'Sheet1!F3': '=MIN(C1:C250)',
                    'Sheet1!F4': '=SUM(D1:D250)', 'Sheet1!F5': '=AVERAGE(A1:B250)', 'Sheet1!F6': '=COUNT(C1:D250)',
                    'Sheet1!F7': '=MAX(A1:A250)+MIN(D1:D250)', 'Sheet1!F8': '=AND(A1:A250)'})
        fs = [f'Sheet1!F{i}' for i in range(1, 9)]
        kb = [(1, [('e', 0, f) for f in fs] * 3),
              (2, [('e', i % 2, f) for i, f in enumerate(fs + fs[::-1] + fs)]),
              (1, [('e', 0, fs[0]), ('e', 0, fs[1]), ('e', 0, fs[0]), ('e', 0, fs[2]), ('e', 0, fs[1]), ('e', 0, fs[3]),
                   ('s', 0, 'Sheet1!A7', -5), ('e', 0, fs[0]), ('e', 0, fs[6]), ('e', 0, fs[2]), ('e', 0, fs[0])])]
        run_raw_batch(res, pool, [(chain, ks), (big, kb)], 'size schedules (deep chain, large ranges; formula text)')
        # 3. the model's own prediction for repeated passes: the retained size does not depend on n
        wb = c04.fixed_models()[6][1]
        m = evalwire.build_real(wb)
        cw, rw, nw = evalwire.wire_model(wb, m)
        s = '|'.join(f'{i % 2}~{evalwire.cp(a)}' for i, a in enumerate(wb['cells']))
        d = parse_kv(ctx.driver.batch(['\t'.join(['C05', 'rounds', str(c04.FUEL), cw, rw, nw, '2', s, '25'])])[0])
        res.extra['model_retained_size'] = d
        if d.get('size1') != d.get('sizeN'):
            res.notes.append('Lean: Sys.size after 25 passes differs from one pass (theorem retained_size says it cannot)')
    finally:
        if pool:
            pool.close()
            pool.join()
        if child.poll() is None and sys.exc_info()[0] is not None:
            child.kill()
    finish_memory_child(child, res, n_mem, 3000 if thorough else 400)
    if res.drift:
        res.notes.append(f'{len(res.drift)} model/implementation differences where the code still meets Spec')
    return res
