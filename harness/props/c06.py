"""C06 — circular references are reported, acyclic sharing is never flagged, failure reports stay small
(DESIGN.md §4 C06).

Every evaluation of the real code runs in a CHILD process under RLIMIT_AS, a per-case interval timer and a
watchdog of the parent: a regression of this property means non-termination or memory exhaustion.
"""
import itertools
import json
import os
import select
import subprocess
import sys
import tempfile
import threading
import time

HERE = os.path.dirname(os.path.abspath(__file__))
if os.path.dirname(HERE) not in sys.path:
    sys.path.insert(0, os.path.dirname(HERE))

LEVEL_TEXT = (
    'Lean theorems over the shared evaluator model (Evaluator.evaluate / EvaluatorContext.eval_cell / '
    'RangeNode.eval with the in-progress stack and the single failure wrapper), for ALL models, function '
    'semantics and entry cells: terminates (no RecursionError once the budget exceeds the number of formula '
    'cells), cycle_complete / cycle_complete_total / cycle_iff (strict models: a reachable cycle is reported), '
    'cycle_sound (acyclic graphs, diamonds and repeats included, are never flagged; lazy nodes allowed), '
    'message_linear (cycle report <= 20+L+N(L+3); any other failure carries one wrapper, independent of depth), '
    'work_linear_chain. The model is tied to the code by running every directed graph on <= 4 cells (thorough: '
    'all labelled graphs on 4 cells and every graph on 5 cells up to isomorphism) with every entry point, as '
    'sums of references, with ranges and with repeated references, plus failure points at every depth <= 60, in '
    'resource-limited child processes (outcome class, message length, wall time) against the Spec oracle and '
    'the model (exactly).')
LEVEL_NOTE = (
    'Trusted: Lean kernel (propext, Classical.choice, Quot.sound); the hand-written evaluator model '
    '(Model/Evaluator.lean, validated by correspondence, not proved equal to the Python); CPython\'s recursion '
    'limit is modelled as explicit fuel; wall-time bounds are measured, not proved. Ranges are assumed to have at '
    'most MAX_EMPTY=100 cells in cycle_complete (larger ranges are not walked completely by RangeNode.eval).')
DESIGN_REF = '§4 C06'

# theorems of the integrated pipeline model (Props/X01.lean) that carry this property's theorems to formula TEXTS in a
# compiled workbook; re-built and audited with this check (harness/common.prepare: soft obligations)
TRANSPORT = ('XlVerif.Props.X01', ['X01_terminates', 'X01_cycle_sound'])
TRUSTED = [
    'Lean 4.33 kernel; axioms propext, Classical.choice, Quot.sound only',
    'hand-written model lean/XlVerif/Model/Evaluator.lean of evaluator.py / RangeNode.eval, tied to the code by '
    'this correspondence run (class and exact message length of every outcome)',
    'CPython recursion limit modelled as fuel (theorem: fuel > number of formula cells suffices)',
    'wall-clock measurements in a child process (time clause of the statement is measured, not proved)',
]
ASSUMPTIONS = [
    'cycle_complete is stated for strict models (literals, references, ranges, strict functions) whose ranges '
    'have at most MAX_EMPTY cells; a static cycle through an unselected IF branch is not an error (C10)',
    'the dependency chain travelled through is at most 60 cells deep (about 7 Python frames per cell level; the '
    'interpreter\'s own recursion limit is outside the statement)',
    'exponential re-evaluation of diamond ladders (no cross-cell cache) is not a failure report and not '
    'constrained by the statement',
]

MEM_LIMIT = 3 << 30          # RLIMIT_AS of a child
PER_CASE = 4.0               # seconds per evaluation inside the child (interval timer)
ABORT_AFTER = 8              # stop exploring after this many timeouts / memory failures
FUEL = 10000


# ----------------------------------------------------------------------------------------- child

def child_main():
    import resource
    import signal
    mem = int(sys.argv[2])
    per_case = float(sys.argv[3])
    resource.setrlimit(resource.RLIMIT_AS, (mem, mem))
    import common  # noqa: F401  (puts /repo first on sys.path)
    import evalwire
    from xlcalculator import ModelCompiler, Evaluator
    from xlcalculator.xlfunctions import xl

    class CaseTimeout(BaseException):
        pass

    def on_alarm(_sig, _frm):
        raise CaseTimeout()

    def BOOMRT():
        raise RuntimeError('boom')

    def BOOMVE():
        raise ValueError('boom')

    def BOOMNI():
        raise NotImplementedError('boom')

    class CustomRuntimeError(RuntimeError):
        pass

    def BOOMSUB():
        raise CustomRuntimeError('boom')

    def BOOMREC():
        raise RecursionError('maximum recursion depth exceeded')

    signal.signal(signal.SIGALRM, on_alarm)
    ns = {**xl.FUNCTIONS, 'BOOMRT': BOOMRT, 'BOOMVE': BOOMVE, 'BOOMNI': BOOMNI, 'BOOMSUB': BOOMSUB,
          'BOOMREC': BOOMREC}
    out = sys.stdout

    def timed(fn):
        t0 = time.perf_counter()
        c0 = time.process_time()
        try:
            signal.setitimer(signal.ITIMER_REAL, per_case)
            try:
                res = fn()
            finally:
                signal.setitimer(signal.ITIMER_REAL, 0)
        except CaseTimeout:
            res = 'TIMEOUT'
        except MemoryError:
            res = 'MEMORY'
        return res, time.perf_counter() - t0, time.process_time() - c0

    for line in sys.stdin:
        job = json.loads(line)
        try:
            model = ModelCompiler().read_and_parse_dict(job['cells'], default_sheet='Sheet1')
        except Exception as exc:  # noqa: BLE001
            for entry in job['entries']:
                out.write(json.dumps({'id': job['id'], 'entry': entry,
                                      'out': 'COMPILE:' + type(exc).__name__ + ':' + str(exc)[:200], 'wall': 0}) + '\n')
            out.flush()
            continue
        if 'hist' in job:
            # ONE evaluator for the whole history; after every evaluation the same entry point is evaluated
            # on a NEW evaluator (same model, same namespace) for comparison
            ev = Evaluator(model, namespace=dict(ns))
            for i, step in enumerate(job['hist']):
                if step[0] == 'register':
                    value = step[2]
                    ev.namespace[step[1]] = (lambda v: (lambda *a: v))(value)
                    continue
                if step[0] == 'set':
                    ev.set_cell_value(step[1], step[2])
                    continue
                addr = step[1]
                key = f'#{i}:{addr}'
                res, wall, cpu = timed(lambda: evalwire.canon_result(ev.evaluate, addr))
                fresh, _w, _c = timed(lambda: evalwire.canon_result(
                    Evaluator(model, namespace=dict(ev.namespace)).evaluate, addr))
                if key in job['entries']:
                    out.write(json.dumps({'id': job['id'], 'entry': key, 'out': res, 'fresh': fresh, 'wall': wall,
                                          'cpu': cpu}) + '\n')
                    out.flush()
            continue
        for entry in job['entries']:
            res, wall, cpu = timed(lambda: evalwire.canon_result(Evaluator(model, namespace=ns).evaluate, entry))
            out.write(json.dumps({'id': job['id'], 'entry': entry, 'out': res, 'wall': wall, 'cpu': cpu}) + '\n')
            out.flush()


# ----------------------------------------------------------------------------------------- parent: running jobs

class Abort:
    def __init__(self):
        self.bad = 0
        self.lock = threading.Lock()

    def hit(self):
        with self.lock:
            self.bad += 1

    @property
    def now(self):
        return self.bad >= ABORT_AFTER


def _run_chunk(jobs, results, abort, per_case=PER_CASE, mem=MEM_LIMIT):
    """run jobs in child processes; results[(id, entry)] = (out, wall).  A child that dies or hangs is
    replaced; the case it was working on is classified MEMORY (died) or TIMEOUT (hung)."""
    pending = [(j, list(j['entries'])) for j in jobs]
    while pending and not abort.now:
        with tempfile.TemporaryFile('w+') as fin:
            for j, entries in pending:
                jd = {'id': j['id'], 'cells': j['cells'], 'entries': entries}
                if 'hist' in j:
                    jd['hist'] = j['hist']
                fin.write(json.dumps(jd) + '\n')
            fin.flush()
            fin.seek(0)
            proc = subprocess.Popen([sys.executable, os.path.abspath(__file__), '--child', str(mem), str(per_case)],
                                    stdin=fin, stdout=subprocess.PIPE, stderr=subprocess.DEVNULL)
            order = [(j['id'], e) for j, entries in pending for e in entries]
            done = 0
            buf = b''
            hung = False
            startup = 60.0
            last = time.time()
            fd = proc.stdout.fileno()
            while done < len(order):
                if abort.now:
                    break
                r, _, _ = select.select([fd], [], [], 1.0)
                if r:
                    data = os.read(fd, 1 << 16)
                    if not data:
                        break
                    buf += data
                    while b'\n' in buf:
                        line, buf = buf.split(b'\n', 1)
                        d = json.loads(line)
                        results[(d['id'], d['entry'])] = (d['out'], d.get('cpu', d['wall']), d.get('fresh'))
                        if d['out'] in ('TIMEOUT', 'MEMORY') or d['out'].startswith('X:MemoryError') \
                                or d.get('fresh') in ('TIMEOUT', 'MEMORY'):
                            abort.hit()
                        elif d['out'].startswith('X:runtime:') and int(d['out'].split(':')[2]) > 50000:
                            abort.hit()          # a report of this size: stop exploring soon, it only gets worse
                        done += 1
                        last = time.time()
                        startup = 0.0
                elif time.time() - last > per_case + 15 + startup:
                    hung = True
                    break
            proc.kill()
            proc.wait()
        if done >= len(order) or abort.now:
            return
        # the child died or hung while working on order[done]
        jid, entry = order[done]
        results[(jid, entry)] = ('TIMEOUT' if hung else 'MEMORY', per_case, None)
        abort.hit()
        finished = set(order[:done + 1])
        pending = [(j, [e for e in entries if (j['id'], e) not in finished]) for j, entries in pending]
        pending = [(j, es) for j, es in pending if es]


def run_real(jobs, workers):
    """evaluate all jobs on the real code in `workers` resource-limited child processes"""
    results = {}
    abort = Abort()
    if not jobs:
        return results, abort
    workers = max(1, min(workers, len(jobs)))
    chunks = [jobs[i::workers] for i in range(workers)]
    threads = [threading.Thread(target=_run_chunk, args=(c, results, abort)) for c in chunks]
    for t in threads:
        t.start()
    for t in threads:
        t.join()
    return results, abort


# ----------------------------------------------------------------------------------------- formulas (text + wire)

def cp(s):
    return '.'.join(str(ord(c)) for c in s)


def local(addr, sheet):
    s, a = addr.split('!')
    return a if s == sheet else f'{s}!{a}'


class Fm:
    """a formula fragment: text as written in the cell's sheet, wire form, referenced range keys"""

    def __init__(self, text, wire, ranges=()):
        self.text, self.wire, self.ranges = text, wire, tuple(ranges)


def f_ref(addr, sheet):
    return Fm(local(addr, sheet), f'( ref {cp(addr)} )')


def f_num(n):
    return Fm(str(n), f'( lit I:{n} )')


def f_bool(b):
    return Fm('TRUE' if b else 'FALSE', f'( lit B:{1 if b else 0} )')


def f_rng(key, sheet):
    return Fm(local(key, sheet), f'( rng {cp(key)} )', [key])


def f_add(a, b):
    return Fm(f'{a.text}+{b.text}', f'( app 0 {a.wire} {b.wire} )', a.ranges + b.ranges)


def f_div(a, b):
    return Fm(f'{a.text}/{b.text}', f'( app 3 {a.wire} {b.wire} )', a.ranges + b.ranges)


def f_sum(*args):
    return Fm('SUM(' + ','.join(a.text for a in args) + ')', '( app 4 ' + ' '.join(a.wire for a in args) + ' )',
              sum((a.ranges for a in args), ()))


def f_if(c, t, e):
    return Fm(f'IF({c.text},{t.text},{e.text})', f'( if {c.wire} {t.wire} {e.wire} )', c.ranges + t.ranges + e.ranges)


def f_sc(kind, *args):
    """AND / OR (kind = 'and' | 'or'): lazy, left to right; a range argument is flattened (the model: `Fx.sc`)"""
    return Fm(kind.upper() + '(' + ','.join(a.text for a in args) + ')', f'( {kind} ' + ' '.join(a.wire for a in args) + ' )',
              sum((a.ranges for a in args), ()))


FAILS = {
    'unknown': Fm('NOSUCHFN(1)', '( fail 20 ( lit I:1 ) )'),   # KeyError('NOSUCHFN') before any argument
    'valueerror': Fm('BOOMVE()', '( app 21 )'),                 # a function body raising ValueError('boom')
    'runtimeerror': Fm('BOOMRT()', '( app 20 )'),               # a function body raising RuntimeError('boom')
    # RuntimeError SUBCLASSES: re-raised unchanged like RuntimeError itself, whatever the depth
    'notimplemented': Fm('BOOMNI()', '( app 22 )'),             # NotImplementedError('boom')
    'subclass': Fm('BOOMSUB()', '( app 23 )'),                  # a custom subclass of RuntimeError
    'recursionerror': Fm('BOOMREC()', '( app 25 )'),            # RecursionError raised by a function body
}
SUBCLASS_KINDS = ('notimplemented', 'subclass', 'recursionerror', 'vlookup')


def f_vlookup(sheet):
    """the library's own trigger: approximate VLOOKUP raises NotImplementedError (42 characters)"""
    key = f'{sheet}!Y1:Z2'
    return Fm('VLOOKUP(1,Y1:Z2,2,TRUE)', f'( app 24 ( lit I:1 ) ( rng {cp(key)} ) ( lit I:2 ) ( lit B:1 ) )', [key])


def range_rows(key):
    import importlib
    import common  # noqa: F401
    utils = importlib.import_module('xlcalculator.utils')
    return utils.resolve_ranges(key)[1]


_RANGE_CACHE = {}


def make_job(jid, cells, meta):
    """cells: {addr: int | Fm}.  Returns the job dict (real side) with its wire fields (model side)."""
    real, wcells, ranges = {}, [], set()
    for addr, c in cells.items():
        if isinstance(c, Fm):
            text = '=' + c.text
            real[addr] = text
            wcells.append(f'{cp(addr)}~f~{len(text)}~{c.wire}')
            ranges.update(c.ranges)
        else:
            real[addr] = c
            wcells.append(f'{cp(addr)}~c~I:{c}')
    rw = []
    for key in sorted(ranges):
        if key not in _RANGE_CACHE:
            _RANGE_CACHE[key] = range_rows(key)
        rows = _RANGE_CACHE[key]
        rw.append(cp(key) + '~' + ';'.join(','.join(cp(a) for a in row) for row in rows))
        for row in rows:
            for a in row:
                if a not in cells:
                    raise ValueError(f'range member {a} is not a cell of the case')
    return {'id': jid, 'cells': real, 'entries': list(meta['entries']), 'wire': ('|'.join(wcells), '|'.join(rw), ''),
            'meta': meta}


# ----------------------------------------------------------------------------------------- graph enumeration

def canonical_reps(n):
    """one representative (adjacency bit mask, bit i*n+j = edge i -> j) of every directed graph with loops on
    n vertices up to isomorphism"""
    import numpy as np
    if n <= 4:
        cand = np.arange(1 << (n * n), dtype=np.int64)
        return _canon_unique(cand, n)
    smaller = canonical_reps(n - 1)
    m = n - 1
    # re-embed an (n-1)-graph into n vertices, then add every connection pattern of the new vertex
    base = np.zeros(len(smaller), dtype=np.int64)
    for i in range(m):
        for j in range(m):
            base |= ((smaller >> (i * m + j)) & 1) << (i * n + j)
    extra_bits = [(m * n + j) for j in range(n)] + [(i * n + m) for i in range(m)]
    pats = np.zeros(1 << len(extra_bits), dtype=np.int64)
    for k, b in enumerate(extra_bits):
        pats |= ((np.arange(len(pats), dtype=np.int64) >> k) & 1) << b
    cand = (base[:, None] | pats[None, :]).reshape(-1)
    return _canon_unique(cand, n)


def _canon_unique(cand, n):
    import numpy as np
    best = cand.copy()
    for p in itertools.permutations(range(n)):
        img = np.zeros_like(cand)
        for i in range(n):
            for j in range(n):
                img |= ((cand >> (i * n + j)) & 1) << (p[i] * n + p[j])
        np.minimum(best, img, out=best)
    return np.unique(best)


def succ(mask, n, i):
    return [j for j in range(n) if (mask >> (i * n + j)) & 1]


def py_reaches_cycle(mask, n, entry):
    """independent Python oracle (cross-check of the Lean Spec oracle): is a cycle reachable from entry?"""
    seen, stack = set(), [entry]
    while stack:
        x = stack.pop()
        if x in seen:
            continue
        seen.add(x)
        stack.extend(succ(mask, n, x))
    # a cycle inside the reachable subgraph: Kahn
    indeg = {x: 0 for x in seen}
    for x in seen:
        for y in succ(mask, n, x):
            indeg[y] += 1
    todo = [x for x in seen if indeg[x] == 0]
    removed = 0
    while todo:
        x = todo.pop()
        removed += 1
        for y in succ(mask, n, x):
            indeg[y] -= 1
            if indeg[y] == 0:
                todo.append(y)
    return removed < len(seen)


def has_sharing(mask, n, entry):
    """acyclic case: is some cell reached along two different paths from entry?"""
    paths = {}

    def count(x):
        if x in paths:
            return
        paths[x] = 0
        for y in succ(mask, n, x):
            count(y)

    count(entry)
    order = list(paths)
    cnt = {x: 0 for x in order}
    cnt[entry] = 1
    # topological propagation (graph is acyclic below entry)
    indeg = {x: 0 for x in order}
    for x in order:
        for y in succ(mask, n, x):
            indeg[y] += 1
    todo = [x for x in order if indeg[x] == 0]
    while todo:
        x = todo.pop()
        for y in succ(mask, n, x):
            cnt[y] += cnt[x]
            indeg[y] -= 1
            if indeg[y] == 0:
                todo.append(y)
    return any(v > 1 for v in cnt.values())


def graph_cells(mask, n, mode, layout='col'):
    """render a graph: vertex i is cell A{i+1} (layout col) or the i-th cell of A1:B2/A1:C2 (layout grid);
    a vertex without successors is the constant i+1.
    mode refs: =A2+A3 ; errleft: =1/0+A2+A3 with the leaves `=1/0` as well (an ERROR VALUE to the left of the
    operand that closes the cycle: operators are strict, the cycle is still entered and reported) ; ranges: maximal runs of consecutive successors become SUM(A2:A3) ; repeat: the first
    successor is referenced once more at the end ; grid: successors = all cells -> SUM(A1:B2) ;
    andor: the successors (maximal runs as bare RANGE arguments, the others as references) are the arguments of
    AND (even vertices) / OR (odd vertices), the constants are (i+1) mod 3 — zeros and non-zeros, so a range
    argument may decide and the arguments behind it (possibly closing a cycle) are then not evaluated: not a strict
    model, compared with the Lean model only"""
    sheet = 'Sheet1'
    if layout == 'col':
        names = [f'{sheet}!A{i + 1}' for i in range(n)]
    else:
        cols = 'ABC'
        w = (n + 1) // 2
        names = [f'{sheet}!{cols[i % w]}{i // w + 1}' for i in range(n)]
    cells = {}
    used_range = False
    for i in range(n):
        s = succ(mask, n, i)
        if not s:
            cells[names[i]] = (f_div(f_num(1), f_num(0)) if mode == 'errleft' and i % 2 == 0 else
                               (i + 1) % 3 if mode == 'andor' else i + 1)
            continue
        parts = []
        if mode == 'andor':
            k = 0
            while k < len(s):
                e = k
                while e + 1 < len(s) and s[e + 1] == s[e] + 1:
                    e += 1
                if e > k:
                    parts.append(f_rng(f'{sheet}!A{s[k] + 1}:A{s[e] + 1}', sheet))
                    used_range = True
                else:
                    parts.append(f_ref(names[s[k]], sheet))
                k = e + 1
            cells[names[i]] = f_sc('or' if i % 2 else 'and', *parts)
            continue
        if mode == 'ranges' and layout == 'col':
            k = 0
            while k < len(s):
                e = k
                while e + 1 < len(s) and s[e + 1] == s[e] + 1:
                    e += 1
                if e > k:
                    key = f'{sheet}!A{s[k] + 1}:A{s[e] + 1}'
                    parts.append(f_sum(f_rng(key, sheet)))
                    used_range = True
                else:
                    parts.append(f_ref(names[s[k]], sheet))
                k = e + 1
        elif mode == 'ranges' and layout == 'grid' and len(s) == n and n % 2 == 0:
            key = f'{names[0]}:{names[-1].split("!")[1]}'
            parts.append(f_sum(f_rng(key, sheet)))
            used_range = True
        else:
            parts = [f_ref(names[j], sheet) for j in s]
            if mode == 'repeat':
                parts.append(f_ref(names[s[0]], sheet))
        if mode == 'errleft' and i % 2 == 1:
            parts.insert(0, f_div(f_num(1), f_num(0)))
        fm = parts[0]
        for p in parts[1:]:
            fm = f_add(fm, p)
        cells[names[i]] = fm
    return cells, names, used_range


def graph_jobs(masks, n, modes, tag):
    jobs = []
    for mask in masks:
        mask = int(mask)
        for mode in modes:
            layout = 'grid' if mode == 'grid' else 'col'
            cells, names, used = graph_cells(mask, n, 'ranges' if mode == 'grid' else mode, layout)
            if mode in ('ranges', 'grid') and not used:
                continue
            if mode == 'andor' and mask == 0:
                continue
            if mode == 'repeat' and mask == 0:
                continue
            jobs.append(make_job(f'{tag}:{n}:{mask}:{mode}', cells,
                                 {'kind': 'graph', 'n': n, 'mask': mask, 'mode': mode, 'entries': names,
                                  'names': names}))
    return jobs


# ----------------------------------------------------------------------------------------- chains with failure points

SHEETS = ['Sheet1', 'S', 'LongSheetName0123456789']


def chain_cells(d, kind, sheets):
    """A1 -> A2 -> … -> A_d where A_d fails (or closes a cycle back, or is a value); every second link is
    `=next+1`, the others `=next`; the chain alternates over the given sheets"""
    names = [f'{sheets[i % len(sheets)]}!A{i + 1}' for i in range(d)]
    cells = {}
    for i in range(d - 1):
        sh = names[i].split('!')[0]
        r = f_ref(names[i + 1], sh)
        cells[names[i]] = f_add(r, f_num(1)) if i % 2 else r
    last_sheet = names[-1].split('!')[0]
    if kind in FAILS:
        cells[names[-1]] = FAILS[kind]
    elif kind == 'vlookup':
        cells[names[-1]] = f_vlookup(last_sheet)
        for k, a in enumerate(('Y1', 'Z1', 'Y2', 'Z2')):
            cells[f'{last_sheet}!{a}'] = k + 1
    elif kind == 'switch':
        # fails while the input Z9 is TRUE: IF(Z9, BOOMVE(), 7)
        cells[names[-1]] = f_if(f_ref(f'{last_sheet}!Z9', last_sheet), FAILS['valueerror'], f_num(7))
        cells[f'{last_sheet}!Z9'] = 1
    elif kind == 'self':
        cells[names[-1]] = f_ref(names[-1], last_sheet)
    elif kind == 'back-to-top':
        cells[names[-1]] = f_add(f_ref(names[0], last_sheet), f_num(1))
    elif kind == 'back-to-middle':
        cells[names[-1]] = f_ref(names[d // 2], last_sheet)
    elif kind == 'value':
        cells[names[-1]] = 7
    else:
        raise ValueError(kind)
    return cells, names


def chain_jobs(depths, kinds):
    jobs = []
    for d in depths:
        for kind in kinds:
            for sheets in (['Sheet1'], SHEETS):
                cells, names = chain_cells(d, kind, sheets)
                jobs.append(make_job(f'chain:{d}:{kind}:{len(sheets)}', cells,
                                     {'kind': 'chain', 'depth': d, 'fail': kind, 'entries': [names[0]],
                                      'names': names}))
    return jobs


def deep_jobs(depths, kinds):
    """acyclic chains so deep that the INTERPRETER's recursion limit is hit in the child: the outcome is a value
    or RecursionError — a RuntimeError subclass that must travel up unchanged (no growth per level)"""
    jobs = []
    for d in depths:
        for kind in kinds:
            cells, names = chain_cells(d, kind, ['Sheet1'])
            jobs.append(make_job(f'deep:{d}:{kind}', cells,
                                 {'kind': 'deep', 'depth': d, 'fail': kind, 'entries': [names[0]], 'names': names}))
    return jobs


def hist_job(jid, cells, steps, meta):
    """several evaluations on ONE Evaluator; steps: ['eval', addr] | ['register', name, value] | ['set', addr, v]"""
    entries = [f'#{i}:{st[1]}' for i, st in enumerate(steps) if st[0] == 'eval']
    m = dict(meta)
    m.update({'kind': 'hist', 'entries': entries, 'steps': steps,
              'pure': all(st[0] == 'eval' for st in steps)})
    j = make_job(jid, cells, m)
    j['hist'] = steps
    return j


def chain_hist_jobs(depths, kinds):
    """a failing chain evaluated repeatedly on one evaluator, at the top, below the top, in the middle; with the
    cause of the failure removed in between (function registered / input set); mixed with entry points that do
    not fail"""
    jobs = []
    for d in depths:
        for kind in kinds:
            cells, names = chain_cells(d, kind, ['Sheet1'] if d % 2 else SHEETS)
            mid = names[d // 2]
            second = names[min(1, d - 1)]
            # an independent good chain and a cell that needs both
            cells['Sheet1!G1'] = f_add(f_ref('Sheet1!G2', 'Sheet1'), f_num(1))
            cells['Sheet1!G2'] = 5
            cells['Sheet1!M1'] = f_add(f_ref('Sheet1!G1', 'Sheet1'), f_ref(second, 'Sheet1'))
            ev = lambda a: ['eval', a]       # noqa: E731
            meta = {'depth': d, 'fail': kind, 'acyclic': kind not in ('self', 'back-to-top', 'back-to-middle')}
            jobs.append(hist_job(f'hist:{d}:{kind}:again', cells,
                                 [ev(names[0]), ev(names[0]), ev(second), ev(mid)], meta))
            jobs.append(hist_job(f'hist:{d}:{kind}:mixed', cells,
                                 [ev(names[0]), ev('Sheet1!G1'), ev('Sheet1!M1'), ev(second)], meta))
            jobs.append(hist_job(f'hist:{d}:{kind}:bottom-up', cells,
                                 [ev(names[-1]), ev(mid), ev(names[0]), ev('Sheet1!G1')], meta))
            if kind == 'unknown':
                jobs.append(hist_job(f'hist:{d}:{kind}:registered', cells,
                                     [ev(names[0]), ['register', 'NOSUCHFN', 5], ev(names[0]), ev(second), ev(mid)],
                                     dict(meta, repaired=True)))
            if kind == 'switch':
                z9 = names[-1].split('!')[0] + '!Z9'
                jobs.append(hist_job(f'hist:{d}:{kind}:input-set', cells,
                                     [ev(names[0]), ['set', z9, 0], ev(names[0]), ev(second), ev('Sheet1!M1')],
                                     dict(meta, repaired=True)))
    return jobs


def graph_hist_jobs(masks, n, tag):
    """every cell of a graph evaluated in turn on ONE evaluator, then the first one again"""
    jobs = []
    for mask in masks:
        mask = int(mask)
        cells, names, _ = graph_cells(mask, n, 'refs')
        steps = [['eval', a] for a in names] + [['eval', names[0]]]
        jobs.append(hist_job(f'{tag}h:{n}:{mask}', cells, steps, {'n': n, 'mask': mask, 'names': names, 'graph': True}))
    return jobs


def special_jobs():
    """hand-picked shapes: diamond ladders, repeated references, cycles through 2-D ranges, a static cycle
    through an unselected IF branch"""
    S = 'Sheet1'
    jobs = []

    def A(i, col='A'):
        return f'{S}!{col}{i}'
    # diamond ladder of height k: A_i = B_i + C_i, B_i = A_{i+1}, C_i = A_{i+1}  (2^k evaluations, acyclic)
    for k in (1, 2, 3, 5, 8):
        cells = {}
        for i in range(1, k + 1):
            cells[A(i)] = f_add(f_ref(A(i, 'B'), S), f_ref(A(i, 'C'), S))
            cells[A(i, 'B')] = f_ref(A(i + 1), S)
            cells[A(i, 'C')] = f_add(f_ref(A(i + 1), S), f_ref(A(i + 1), S))
        cells[A(k + 1)] = 1
        jobs.append(make_job(f'ladder:{k}', cells, {'kind': 'special', 'acyclic': True, 'entries': [A(1)],
                                                    'what': f'diamond ladder of height {k}'}))
    # the same cell ten times in one formula
    fm = f_ref(A(2), S)
    for _ in range(9):
        fm = f_add(fm, f_ref(A(2), S))
    jobs.append(make_job('repeat10', {A(1): fm, A(2): f_add(f_ref(A(3), S), f_ref(A(3), S)), A(3): 2},
                         {'kind': 'special', 'acyclic': True, 'entries': [A(1)], 'what': 'ten references to one cell'}))
    # a range whose members are shared with direct references
    jobs.append(make_job('range-share', {A(1): f_add(f_sum(f_rng(f'{S}!A2:B3', S)), f_ref(A(2), S)),
                                         A(2): f_ref(A(3, 'B'), S), A(2, 'B'): 2, A(3): f_ref(A(3, 'B'), S),
                                         A(3, 'B'): 5},
                         {'kind': 'special', 'acyclic': True, 'entries': [A(1), A(2)], 'what': 'range plus direct reference'}))
    # cycles closed through a 2-D range, entered at every cell
    jobs.append(make_job('range-cycle-2d', {A(1): f_sum(f_rng(f'{S}!A2:B3', S)), A(2): 1, A(2, 'B'): 2, A(3): 3,
                                            A(3, 'B'): f_add(f_ref(A(1), S), f_num(1))},
                         {'kind': 'special', 'acyclic': False, 'strict': True,
                          'entries': [A(1), A(3, 'B')], 'what': 'cycle closed through the last member of A2:B3'}))
    jobs.append(make_job('range-self', {A(1): f_sum(f_rng(f'{S}!A1:A3', S)), A(2): 1, A(3): 2},
                         {'kind': 'special', 'acyclic': False, 'strict': True, 'entries': [A(1)],
                          'what': 'a range containing its own cell'}))
    # lazy: the static cycle lies in the branch that is not selected
    jobs.append(make_job('lazy-unselected', {A(1): f_if(f_bool(True), f_num(1), f_ref(A(1), S))},
                         {'kind': 'special', 'acyclic': False, 'strict': False, 'lazy_value': True, 'entries': [A(1)],
                          'what': 'IF(TRUE,1,A1): self reference in the unselected branch'}))
    # lazy AND / OR over a RANGE argument: the range decides, the self reference behind it is not evaluated
    # (short-circuiting is C10's matter: here these are compared with the Lean model only)
    jobs.append(make_job('lazy-and-range', {A(1): f_sc('and', f_rng(f'{S}!A2:A4', S), f_ref(A(1), S)),
                                            A(2): 1, A(3): 0, A(4): 2},
                         {'kind': 'special', 'acyclic': False, 'strict': False, 'lazy_sc': True, 'entries': [A(1)],
                          'what': 'AND(A2:A4,A1) with a zero in the range: self reference in an argument that is not evaluated'}))
    jobs.append(make_job('lazy-or-range', {A(1): f_sc('or', f_rng(f'{S}!A2:A4', S), f_ref(A(1), S)),
                                           A(2): 0, A(3): 0, A(4): 2},
                         {'kind': 'special', 'acyclic': False, 'strict': False, 'lazy_sc': True, 'entries': [A(1)],
                          'what': 'OR(A2:A4,A1) with a non-zero in the range: self reference in an argument that is not evaluated'}))
    jobs.append(make_job('and-range-neutral', {A(1): f_sc('and', f_rng(f'{S}!A2:A4', S), f_ref(A(1), S)),
                                               A(2): 1, A(3): 3, A(4): 2},
                         {'kind': 'special', 'acyclic': False, 'strict': False, 'lazy_cycle': True, 'entries': [A(1)],
                          'what': 'AND(A2:A4,A1) over non-zeros: the self reference IS evaluated'}))
    jobs.append(make_job('and-range-cycle-inside', {A(1): f_sc('and', f_rng(f'{S}!A2:A4', S), f_num(1)),
                                                    A(2): 0, A(3): f_ref(A(1), S), A(4): 2},
                         {'kind': 'special', 'acyclic': False, 'strict': False, 'lazy_cycle': True, 'entries': [A(1), A(3)],
                          'what': 'AND(A2:A4,1): the whole range is evaluated before its items are judged - the cycle through '
                                  'A3 is found although A2 = 0 precedes it'}))
    jobs.append(make_job('lazy-selected', {A(1): f_if(f_bool(False), f_num(1), f_ref(A(1), S))},
                         {'kind': 'special', 'acyclic': False, 'strict': False, 'lazy_cycle': True, 'entries': [A(1)],
                          'what': 'IF(FALSE,1,A1): self reference in the selected branch'}))
    return jobs


# ----------------------------------------------------------------------------------------- classification

def classify(out):
    if out == 'TIMEOUT':
        return 'timeout', None
    if out == 'MEMORY' or out.startswith('X:MemoryError'):
        return 'memory', None
    if out.startswith('COMPILE:'):
        return 'compile', None
    if out.startswith('X:cycle:'):
        return 'cycle', int(out.split(':')[2])
    if out.startswith('X:'):
        parts = out.split(':')
        n = int(parts[2]) if len(parts) > 2 and parts[2].isdigit() else None
        return 'exception', n
    return 'value', None


def time_bound(depth):
    """generous quadratic envelope for reporting a failure through `depth` cells (measured: 0.5 ms at 60)"""
    return 0.25 + 2e-4 * depth * depth


def check_batch(ctx, res, jobs, workers):
    import common
    from common import parse_kv, same_value
    results, abort = run_real(jobs, workers)
    lines, keys = [], []
    hlines, hjobs = [], []
    for j in jobs:
        for e in j['entries']:
            if (j['id'], e) in results:
                w = j['wire']
                addr = e.split(':', 1)[1] if e.startswith('#') else e      # history step `#i:addr`
                lines.append('\t'.join(['C06', 'eval', str(FUEL), w[0], w[1], w[2], cp(addr)]))
                keys.append((j, e))
        if j['meta']['kind'] == 'hist' and j['meta']['pure'] and all((j['id'], e) in results for e in j['entries']):
            w = j['wire']
            hlines.append('\t'.join(['C06', 'hist', str(FUEL), w[0], w[1], w[2],
                                     ','.join(cp(st[1]) for st in j['hist'])]))
            hjobs.append(j)
    resp = ctx.driver.batch(lines)
    # the model of ONE evaluator used for the whole history (theorem: nothing stays in progress)
    for j, r in zip(hjobs, ctx.driver.batch(hlines)):
        d = parse_kv(r)
        if 'impl' not in d:
            raise RuntimeError(f'driver: {r!r} for history {j["id"]}')
        mres = d['impl'].split(';')
        rres = [results[(j['id'], e)][0] for e in j['entries']]
        if j['meta'].get('fail') == 'recursionerror':
            rres = [x.replace('X:recursion:', 'X:runtime:') for x in rres]
        if d['ev'] != '0':
            raise RuntimeError(f'model: _evaluating not empty after history {j["id"]}')
        ok = len(mres) == len(rres) and all(a == b or same_value(a, b) for a, b in zip(rres, mres))
        res.count('history-vs-model:' + ('same' if ok else 'different'))
        if not ok:
            res.drift.append({'case': j['id'], 'history': j['hist'], 'cells': j['cells'], 'model': mres,
                              'real': [x[:120] for x in rres]})
    for (j, e), line, r in zip(keys, lines, resp):
        d = parse_kv(r)
        if 'impl' not in d:
            raise RuntimeError(f'driver: {r!r} for {line[:300]!r}')
        meta = j['meta']
        out, wall, fresh = results[(j['id'], e)]
        cls, mlen = classify(out)
        if cls == 'compile':
            raise RuntimeError(f'the generated workbook does not compile: {j["cells"]} -> {out}')
        impl = d['impl']
        cyc = d['cyc'] == '1'
        strict = d['strict'] == '1'
        res.evaluations += 1
        res.count('class:' + cls)
        res.count('kind:' + meta['kind'] + (':' + str(meta.get('mode', meta.get('fail', 'graph'))) if meta['kind'] != 'special' else ''))
        inp = {'cells': j['cells'], 'entry': e, 'case': j['id']}
        bad = None
        expected = None
        # 1. prompt termination, whatever the model
        depth = meta.get('depth', meta.get('n', 8))
        if cls in ('timeout', 'memory'):
            bad, expected = 'evaluation does not terminate promptly (resource limit hit)', 'value or exception within the limits'
        elif meta['kind'] == 'chain' and wall > time_bound(depth):
            # CPU time of the child; measured again (best of 3, one process) before it counts
            best = wall
            for _ in range(3):
                again, _ab = run_real([{'id': j['id'], 'cells': j['cells'], 'entries': [e]}], 1)
                if (j['id'], e) in again and again[(j['id'], e)][0] not in ('TIMEOUT', 'MEMORY'):
                    best = min(best, again[(j['id'], e)][1])
            res.count('time-remeasured')
            if best > time_bound(depth):
                bad, expected = (f'reporting took {best:.3f}s CPU for a dependency chain of {depth} cells',
                                 f'<= {time_bound(depth):.3f}s')
            wall = best
        hist = meta['kind'] == 'hist'
        after_repair = False
        if hist:
            i = int(e[1:].split(':', 1)[0])
            after_repair = any(st[0] != 'eval' for st in meta['steps'][:i])
        rec_ok = meta['kind'] == 'deep' or meta.get('fail') == 'recursionerror'
        # 2. the Spec oracle: cycle reachable in a strict model <=> a cycle report
        if bad:
            pass
        elif hist and fresh is not None and fresh != out and not (classify(fresh)[0] == 'value' == cls
                                                                   and same_value(fresh, out)):
            bad, expected = ('an evaluation on a REUSED evaluator differs from the same evaluation on a new one '
                             f'(step {e} of {meta["steps"]})', fresh[:200])
        elif strict and cyc and (meta['kind'] in ('graph', 'special') or hist) and cls != 'cycle':
            bad, expected = 'a reachable cycle is not reported as a cycle', 'RuntimeError "Cycle detected …"'
            bad, expected = 'a reachable cycle is not reported as a cycle', 'RuntimeError "Cycle detected …"'
        elif strict and cyc and meta['kind'] == 'chain' and cls != 'cycle':
            bad, expected = 'a reachable cycle is not reported as a cycle', 'RuntimeError "Cycle detected …"'
        elif not cyc and cls == 'cycle':
            bad, expected = 'an acyclic dependency graph is reported as circular', 'no cycle report'
        elif meta.get('lazy_value') and cls != 'value':
            bad, expected = 'a cycle through an unselected IF branch has an effect', 'the value of the selected branch'
        # 3. size of the report
        elif cls == 'cycle' and mlen > int(d['cbound']):
            bad, expected = f'cycle report of {mlen} characters', f'<= {d["cbound"]} (linear in the chain)'
        elif cls == 'exception' and out.startswith('X:runtime:') and mlen > int(d['fbound']):
            bad, expected = f'failure report of {mlen} characters at depth {depth}', f'<= {d["fbound"]} (one wrapper)'
        elif cls == 'exception' and out.startswith('X:recursion:') and rec_ok:
            # RecursionError (raised by a function body, or the interpreter's own limit on a very deep chain) is a
            # RuntimeError subclass: it travels up unchanged
            if mlen > int(d['fbound']):
                bad, expected = f'RecursionError report of {mlen} characters at depth {depth}', f'<= {d["fbound"]}'
        elif cls == 'exception' and not out.startswith('X:runtime:'):
            # RecursionError or an exception class the evaluator never lets through
            bad, expected = f'evaluation ends with {out}', 'a value, a cycle report or one wrapped RuntimeError'
        # cross-check of the Lean oracle with an independent Python one (graphs only)
        if meta['kind'] == 'graph':
            idx = meta['names'].index(e)
            pc = py_reaches_cycle(meta['mask'], meta['n'], idx)
            if pc != cyc:
                raise RuntimeError(f'Spec oracle disagreement on {j["id"]} entry {e}: lean {cyc} python {pc}')
            if cyc or has_sharing(meta['mask'], meta['n'], idx) or meta['mode'] == 'repeat':
                res.nontrivial.add((meta['n'], meta['mask'], meta['mode'], idx))
        elif meta['kind'] in ('chain', 'deep'):
            res.nontrivial.add((meta['depth'], meta['fail'], len(j['cells']), j['id']))
        else:
            res.nontrivial.add(j['id'] + e)
        if bad:
            res.violations.append({'what': bad, 'input': inp, 'expected': expected,
                                   'got': {'outcome': out[:200], 'wall_s': round(wall, 4)}})
        else:
            cmp_out = out.replace('X:recursion:', 'X:runtime:') if meta.get('fail') == 'recursionerror' else out
            same = (cmp_out == impl) or (cls == 'value' and same_value(out, impl))
            if meta['kind'] == 'deep' or after_repair:
                same = True       # the interpreter's own limit / a changed workbook: compared with Spec only
            if not same:
                res.drift.append({'case': j['id'], 'entry': e, 'cells': j['cells'], 'model': impl, 'real': out[:200]})
        if len(res.samples) < 12 and (res.evaluations % 997 == 1 or meta['kind'] != 'graph' and res.evaluations % 37 == 0):
            res.sample({'case': j['id'], 'cells': j['cells'], 'entry': e, 'real': out[:120], 'class': cls,
                        'wall_s': round(wall, 5), 'model': impl, 'cycle_reachable': cyc})
        if meta['kind'] == 'chain':
            key = f'chain:{meta["fail"]}'
            res.extra.setdefault('chain_profile', {}).setdefault(key, []).append(
                [meta['depth'], mlen if mlen is not None else 0, round(wall, 5)])
    return abort


def run_corpus(ctx, res, workers):
    """minimised past failures (D11, D12) and guards: real code against the recorded expectation"""
    import common
    files = sorted((common.CORPUS / 'C06').glob('*.json')) if (common.CORPUS / 'C06').exists() else []
    if ctx.replay:
        files = [common.VERIF / ctx.replay] if not os.path.isabs(ctx.replay) else [ctx.replay]
    jobs, specs = [], {}
    for f in files:
        d = json.loads(open(f).read())
        if 'cells' not in d and 'input' in d:          # a replay file written by run.py
            d = {'cells': d['input']['cells'], 'entries': [d['input']['entry']], 'expect': None,
                 'what': d.get('what', '')}
        jid = 'corpus:' + os.path.basename(str(f))
        jobs.append({'id': jid, 'cells': d['cells'], 'entries': d['entries']})
        specs[jid] = d
    results, abort = run_real(jobs, workers)
    for j in jobs:
        spec = specs[j['id']]
        for e in j['entries']:
            if (j['id'], e) not in results:
                continue
            out, wall, _fresh = results[(j['id'], e)]
            cls, mlen = classify(out)
            res.evaluations += 1
            res.count('kind:corpus')
            res.nontrivial.add(j['id'] + e)
            if ctx.replay:
                print(f'replay {j["id"]} entry {e}: {out[:200]} ({wall:.4f}s)')
            bad = None
            if cls in ('timeout', 'memory'):
                bad = 'evaluation does not terminate promptly (resource limit hit)'
            elif spec.get('expect') and cls != spec['expect']:
                bad = f'outcome class {cls}, recorded expectation {spec["expect"]}'
            elif mlen is not None and spec.get('max_message') is not None and mlen > spec['max_message']:
                bad = f'report of {mlen} characters'
            if bad:
                res.violations.append({'what': bad + ' — ' + spec.get('what', ''),
                                       'input': {'cells': j['cells'], 'entry': e, 'case': j['id']},
                                       'expected': {'class': spec.get('expect'), 'max_message': spec.get('max_message')},
                                       'got': {'outcome': out[:200], 'wall_s': round(wall, 4)}})
    return not abort.now


def nested_evaluator_cases(res):
    """SEVERAL Evaluator objects in one process, one evaluating while another is in progress (a user function that looks a
    cell up in ANOTHER workbook), both workbooks holding formulas at the SAME addresses: each evaluator's in-progress
    bookkeeping is its own — the acyclic pair must give values, a workbook that is cyclic by itself must be reported, and
    afterwards both evaluators must still work.  (In process: small cases, no resource limits needed.)"""
    import common  # noqa: F401
    from xlcalculator import ModelCompiler, Evaluator
    from xlcalculator.xlfunctions import xl
    inner_cells = {'Sheet1!A1': '=A2+41', 'Sheet1!A2': '=A3', 'Sheet1!A3': 1, 'Sheet1!B1': '=B2', 'Sheet1!B2': '=B1'}
    inner = Evaluator(ModelCompiler().read_and_parse_dict(dict(inner_cells)))

    def PEER(addr):
        return inner.evaluate(str(addr))
    outer_cells = {'Sheet1!A1': '=PEER("Sheet1!A1")+1', 'Sheet1!A2': '=A1*2', 'Sheet1!A3': '=PEER("Sheet1!A2")+A2',
                   'Sheet1!B1': '=PEER("Sheet1!B1")', 'Sheet1!C1': '=A3+PEER("Sheet1!A1")'}
    ns = dict(xl.FUNCTIONS)
    ns['PEER'] = PEER
    outer = Evaluator(ModelCompiler().read_and_parse_dict(dict(outer_cells)), namespace=ns)
    expect = [('Sheet1!A1', 'value', 43), ('Sheet1!A2', 'value', 86), ('Sheet1!A3', 'value', 87), ('Sheet1!B1', 'cycle', None),
              ('Sheet1!C1', 'value', 129), ('Sheet1!A1', 'value', 43)]
    for addr, kind, val in expect:
        try:
            got = ('value', float(outer.evaluate(addr)))
        except RuntimeError as exc:
            got = ('cycle' if 'ycle' in str(exc) else 'error:' + str(exc)[:80], None)
        except Exception as exc:  # noqa: BLE001
            got = ('raised:' + type(exc).__name__, None)
        res.evaluations += 1
        res.count('nested-evaluators')
        res.nontrivial.add(('nested', addr, kind))
        if got[0] != kind or (kind == 'value' and got[1] != val):
            res.violations.append({
                'what': ('an acyclic pair of workbooks evaluated by nested evaluators is reported as circular / gives a wrong value'
                         if kind == 'value' else 'a cycle inside the peer workbook is not reported as a cycle'),
                'input': {'outer': outer_cells, 'inner (evaluated by PEER)': inner_cells, 'entry': addr},
                'expected': [kind, val], 'got': list(got)})


def run(ctx):
    from common import Result
    res = Result()
    thorough = ctx.tier == 'thorough'
    wide = thorough or ctx.widen
    workers = min(16, os.cpu_count() or 4) if wide else min(8, os.cpu_count() or 4)
    res.rule = ('every directed graph (self loops included) on 1..3 cells with every labelling, on 4 cells up to '
                'isomorphism (thorough/widened: every labelling on 4 cells, and 5 cells up to isomorphism), every cell '
                'as entry point; rendered as sums of references, with maximal runs of consecutive successors as '
                'SUM(range), with a repeated reference, in a 2-D grid with SUM(A1:B2), and (graphs on <= 4 cells) as lazy '
                'AND / OR over references and bare RANGE arguments with zero / non-zero constants (compared with the Lean '
                'model, whose Fx.sc flattens range arguments); chains of depth 1..60 ending '
                'in an unknown function / a function raising ValueError / RuntimeError / a self reference / a reference '
                'back to the top or the middle / a value / a RuntimeError SUBCLASS (NotImplementedError from a registered function and from '
                'the library\'s approximate VLOOKUP, a custom subclass, RecursionError), over one and three sheets; chains of 130..400 '
                'cells that hit the interpreter\'s own recursion limit; HISTORIES of 4-5 evaluations on ONE Evaluator (a failing '
                'chain at top / second / middle / bottom, mixed with non-failing entry points, re-evaluated after the missing '
                'function was registered or the input was set; every cell of every small graph in turn) against a new evaluator per '
                'step and the model of an evaluator history; diamond ladders, ranges sharing '
                'cells, IF with a cyclic unselected branch. Each evaluation runs in a child process (RLIMIT_AS 3 GiB, 4 s '
                'timer); observable = outcome class, len(str(exc)), CPU time (chains: <= 0.25 s + 0.2 ms x depth^2, re-measured before it counts), compared with the Spec oracle '
                '(cycle reachable?) and exactly with the Lean model. non-trivial = distinct (graph, rendering, entry) with a '
                'reachable cycle, or acyclic with a cell reached along two paths / referenced twice; every chain and '
                'special case')
    t0 = time.time()
    modes = ['refs', 'ranges', 'repeat', 'errleft']

    def batches():
        yield special_jobs()
        depths = list(range(1, 61))
        kinds = ['unknown', 'valueerror', 'runtimeerror', 'notimplemented', 'subclass', 'recursionerror', 'vlookup',
                 'self', 'back-to-top', 'back-to-middle', 'value']
        yield chain_jobs(depths, kinds)
        # the interpreter's own recursion limit (about 7 frames per cell level) on acyclic chains
        yield deep_jobs([130, 150, 200, 400] + ([700, 1500] if wide else []), ['value', 'unknown', 'notimplemented'])
        # histories on ONE evaluator
        hdepths = list(range(2, 61)) if wide else [2, 3, 4, 5, 7, 10, 20, 40, 60]
        yield chain_hist_jobs(hdepths, ['unknown', 'valueerror', 'runtimeerror', 'notimplemented', 'subclass',
                                        'recursionerror', 'vlookup', 'switch', 'self', 'back-to-middle', 'value'])
        for n in (1, 2, 3):
            yield graph_jobs(range(1 << (n * n)), n, modes + ['andor'], 'g')
            yield graph_hist_jobs(range(1 << (n * n)), n, 'g')
        # acyclic sharing in bulk: every graph whose edges go from a lower to a higher cell (all DAGs up to
        # relabelling)
        nd = 6 if wide else 5
        pairs = [(i, j) for i in range(nd) for j in range(i + 1, nd)]
        dags = []
        for bits in range(1 << len(pairs)):
            mask = 0
            for k, (i, j) in enumerate(pairs):
                if (bits >> k) & 1:
                    mask |= 1 << (i * nd + j)
            dags.append(mask)
        for k in range(0, len(dags), 8192):
            yield graph_jobs(dags[k:k + 8192], nd, modes, 'dag')
        if wide:
            for k in range(0, 1 << 16, 8192):
                yield graph_jobs(range(k, k + 8192), 4, modes + ['grid'], 'g')
                yield graph_hist_jobs(range(k, k + 8192), 4, 'g')
            yield graph_jobs([int(x) for x in canonical_reps(4)], 4, ['andor'], 'g')
            reps5 = [int(x) for x in canonical_reps(5)]
            res.count('graphs5_up_to_isomorphism', len(reps5))
            for k in range(0, len(reps5), 8192):
                yield graph_jobs(reps5[k:k + 8192], 5, ['refs', 'ranges'], 'g')
        else:
            reps4 = [int(x) for x in canonical_reps(4)]
            res.count('graphs4_up_to_isomorphism', len(reps4))
            yield graph_jobs(reps4, 4, modes + ['grid', 'andor'], 'g')
            yield graph_hist_jobs(reps4, 4, 'g')

    complete = run_corpus(ctx, res, workers)
    if ctx.replay:
        return res
    for jobs in batches():
        abort = check_batch(ctx, res, jobs, workers)
        if abort.now:
            complete = False
            res.notes.append('exploration stopped early: resource limits were hit repeatedly')
            break
        if res.violations and len(res.violations) > 200:
            complete = False
            res.notes.append('exploration stopped early: more than 200 violations')
            break
    res.exhaustive = complete
    nested_evaluator_cases(res)
    prof = res.extra.get('chain_profile', {})
    summary = {}
    for k, rows in prof.items():
        rows.sort()
        summary[k] = {'depths': len(rows), 'max_message': max(r[1] for r in rows),
                      'message_at_1_30_60': [r[1] for r in rows if r[0] in (1, 30, 60)][:6],
                      'max_wall_s': max(r[2] for r in rows)}
    res.extra['chain_profile'] = summary
    res.extra['explore_wall_s'] = round(time.time() - t0, 1)
    if res.drift:
        res.notes.append(f'{len(res.drift)} model/implementation differences where the code still meets Spec')
    return res


if __name__ == '__main__' and len(sys.argv) > 1 and sys.argv[1] == '--child':
    child_main()
