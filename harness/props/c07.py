"""C07 — Excel errors are values that propagate; typed operands never crash (DESIGN.md §4 C07)."""
import datetime
import inspect
import itertools

import common
from common import Result, parse_kv, call_real_limited as call_real, w_text, w_frac, frac_of, CODE_WIRE

LEVEL_TEXT = (
    'Lean theorems, for ALL operand values and ANY function body: an error operand of the twelve infix '
    'operators, unary minus, percent, ^ and & is the result, the left one first; no operator ever raises a '
    'Python exception for any pair of scalar operands (ops_total); the validate_args wrapper returns the '
    'leftmost error argument whatever the body is (first_error_wins) and the leftmost error element of a '
    'list/range argument (tuple_error_wins); decide-obligations on the regenerated registry: every function '
    'carries the wrapper except the IS-family/=,<>/argument-less ones, the aggregates have raising item types; '
    'IS-family truth tables. Tied to the code by an exhaustive differential run: every operator x every pair '
    'of scalar types x 7 codes x positions, every registered function x position x 7 codes (direct and through '
    'formulas with the error coming from a literal, a 1/0 sub-expression and a referenced cell).')
LEVEL_NOTE = (
    'Trusted: Lean kernel (propext, Classical.choice, Quot.sound); hand models Model/Value.lean and '
    'Model/Validate.lean (correspondence-checked); translator for the registry; function bodies are arbitrary '
    'in the wrapper theorem (their own error handling after validation is checked by correspondence only). '
    'Known finding D59 (SUMPRODUCT reports #N/A for any error element, asserted by the suite).')
DESIGN_REF = '§4 C07'

# theorems of the integrated pipeline model (Props/X01.lean) that carry this property's theorems to formula TEXTS in a
# compiled workbook; re-built and audited with this check (harness/common.prepare: soft obligations)
TRANSPORT = ('XlVerif.Props.X01', ['compile_call_formula', 'libSem_call_body'])
TRUSTED = [
    'Lean 4.33 kernel; axioms propext, Classical.choice, Quot.sound only',
    'hand-written models lean/XlVerif/Model/Value.lean, Model/Validate.lean (correspondence-checked)',
    'translator extractors/a_core.py (registry with validate_args flag and annotations)',
    'sig.bind argument binding of Python is mirrored by the harness, not modelled',
]
ASSUMPTIONS = [
    'IS*/COUNT family, IF/AND/OR/NOT (C10), CHOOSE value arguments, SUMIF/SUMIFS (pandas 3 removed applymap), '
    'volatile and argument-less functions are outside the error-propagation clause',
    'operands are finite numbers; texts that Python reads as inf/nan are TEXT that is not numeric (#VALUE! in arithmetic; D23a, fixed)',
]

CODES = ['#NULL!', '#DIV/0!', '#VALUE!', '#REF!', '#NAME?', '#NUM!', '#N/A']
INFIX = {'ADD': ('OP_ADD', '+'), 'SUB': ('OP_SUB', '-'), 'MUL': ('OP_MUL', '*'), 'DIV': ('OP_DIV', '/'),
         'EQ': ('OP_EQ', '='), 'NE': ('OP_NE', '<>'), 'LT': ('OP_LT', '<'), 'GT': ('OP_GT', '>'),
         'LE': ('OP_LE', '<='), 'GE': ('OP_GE', '>='), 'POW': ('POWER', '^'), 'CONCAT': ('CONCAT', '&')}
EXCLUDED = {'ISERR', 'ISERROR', 'ISNA', 'ISBLANK', 'ISNUMBER', 'ISTEXT', 'COUNT', 'COUNTA', 'COUNTIF',
            'COUNTIFS', 'NOW', 'TODAY', 'RAND', 'PI', 'TRUE', 'FALSE', 'NA', 'IF', 'AND', 'OR', 'NOT',
            'SUMIF', 'SUMIFS'}
ALLOWED_OP_ERRORS = {'E:VALUE', 'E:DIV0', 'E:NUM'}


def err(code):
    from xlcalculator.xlfunctions import xlerrors
    return xlerrors.ERRORS_BY_CODE[code]()


def wire(v):
    from xlcalculator.xlfunctions import xlerrors
    if isinstance(v, xlerrors.ExcelError):
        return 'E:' + CODE_WIRE[v.value]
    if v is None:
        return 'Z'
    if isinstance(v, bool):
        return 'B:1' if v else 'B:0'
    if isinstance(v, int):
        return f'I:{v}'
    if isinstance(v, float):
        return 'F:' + w_frac(frac_of(v))
    if isinstance(v, str):
        return w_text(v)
    if isinstance(v, datetime.datetime):
        return 'D:' + w_frac(common.serial_of(v))
    raise TypeError(v)


def typed(v):
    from xlcalculator.xlfunctions import func_xltypes as ft, xlerrors
    if isinstance(v, xlerrors.ExcelError):
        return v
    if v is None:
        return ft.BLANK
    if isinstance(v, bool):
        return ft.Boolean(v)
    if isinstance(v, (int, float)):
        return ft.Number(v)
    if isinstance(v, str):
        return ft.Text(v)
    return ft.DateTime(v)


def scalar_pool():
    d = datetime.datetime
    return [0, 1, -3, 2.5, -0.5, 7, 'abc', '', '3', '-2.5', 'true', 'x y', '1e2', True, False, None,
            d(2020, 1, 1), d(1900, 3, 1)]


def lookalike_texts():
    """texts that spell an error code or a type name: they are TEXT, not errors"""
    return ['#N/A', '#DIV/0!', '#VALUE!', '#REF!', '#NAME?', '#NUM!', '#NULL!', '#n/a', ' #N/A', 'TRUE', 'FALSE', '0', 'None']


def lit(v):
    """formula literal of a scalar (None = reference to an empty cell)"""
    if v is None:
        return 'Z9'
    if isinstance(v, bool):
        return 'TRUE' if v else 'FALSE'
    if isinstance(v, str):
        return '"' + v.replace('"', '""') + '"'
    if isinstance(v, float) and v < 0 or isinstance(v, int) and v < 0:
        return f'({v})'
    return repr(v)


def default_for(ann, ft):
    if ann == ft.XlText:
        return 'ab', '"ab"'
    if ann == ft.XlDateTime:
        return datetime.datetime(2020, 1, 15), '43845'
    if ann == ft.XlBoolean:
        return True, 'TRUE'
    if ann == ft.XlArray:
        return ft.Array([[1, 2], [3, 4]]), 'D1:E2'
    return 2, '2'


def run(ctx):
    import xlcalculator  # noqa: F401
    from xlcalculator import ModelCompiler, Evaluator
    from xlcalculator.xlfunctions import xl, func_xltypes as ft, xlerrors
    res = Result()
    res.rule = ('(1) every operator x every ordered pair of an 18-value scalar pool (all types) and x 7 error '
                'codes left/right/both, typed library calls and formulas; (2) every registered function outside '
                'the excluded families x every parameter position x 7 codes, direct and through formulas with the '
                'error coming from a literal, a 1/0 sub-expression and a referenced cell; (3) error elements in '
                'range/list arguments of the aggregates; (4) IS-family truth tables; non-trivial = distinct '
                '(callable, position, code, other-argument types)')
    kf59 = any(e['id'] == 'D59' and e.get('status') == 'known' for e in ctx.known)
    pool = scalar_pool()
    if ctx.tier == 'thorough' or ctx.widen:
        pool = pool + [ctx.rng.randint(-999, 999) for _ in range(6)] + [ctx.rng.randint(-999, 999) / 8 for _ in range(6)] \
            + [''.join(ctx.rng.choice('abXY 019.-e') for _ in range(ctx.rng.randint(1, 5))) for _ in range(8)]
    errs = [err(c) for c in CODES]

    # ---------------------------------------------------------------- (1) operators
    reqs, meta = [], []
    for o in INFIX:
        for a, b in itertools.product(pool, repeat=2):
            if o == 'POW' and (isinstance(b, datetime.datetime)
                               or (isinstance(a, datetime.datetime) and b not in (0, 1, None, False, True, ''))):
                continue     # astronomically large powers: outside what a spreadsheet can hold
            reqs.append('\t'.join(['C07', 'op', o, wire(a), wire(b)])); meta.append((o, a, b))
        for e in errs:
            for v in pool:
                reqs.append('\t'.join(['C07', 'op', o, wire(e), wire(v)])); meta.append((o, e, v))
                reqs.append('\t'.join(['C07', 'op', o, wire(v), wire(e)])); meta.append((o, v, e))
            for e2 in errs:
                reqs.append('\t'.join(['C07', 'op', o, wire(e), wire(e2)])); meta.append((o, e, e2))
    for o in ('NEG', 'PCT'):
        for v in pool + errs:
            reqs.append('\t'.join(['C07', 'un', o, wire(v)])); meta.append((o, v, None))
    resp = ctx.driver.batch(reqs)
    direct = {}
    for (o, a, b), r in zip(meta, resp):
        impl = parse_kv(r)['impl']
        if o in INFIX:
            fn = xl.FUNCTIONS[INFIX[o][0]]
            real = call_real(fn, typed(a), typed(b))
        else:
            fn = xl.FUNCTIONS['OP_NEG' if o == 'NEG' else 'OP_PERCENT']
            real = call_real(fn, typed(a))
        res.evaluations += 1
        res.count('op:' + o)
        ea = isinstance(a, xlerrors.ExcelError)
        eb = isinstance(b, xlerrors.ExcelError)
        inp = {'op': o, 'left': wire(a), 'right': None if b is None and o in ('NEG', 'PCT') else wire(b),
               'route': 'typed'}
        direct[(o, wire(a), wire(b) if o in INFIX else None)] = real
        res.nontrivial.add((o, wire(a), wire(b) if o in INFIX else None))
        res.sample({**inp, 'real': real})
        if ea or eb:
            want = wire(a) if ea else wire(b)
            other = b if ea else a
            if (o in ('ADD', 'SUB', 'MUL', 'DIV', 'POW') and not (ea and eb) and isinstance(other, str)
                    and not numeric_text(other)):
                # the other operand is not a valid operand of an arithmetic operator: the statement does not
                # say whether its #VALUE! or the error operand wins (the operators differ, like Excel's)
                res.count('outside-domain:non-numeric-text-with-error')
                if real not in (want, 'E:VALUE'):
                    res.violations.append({'what': f'operator {o}: neither the error operand nor #VALUE! returned',
                                           'input': inp, 'expected': want + ' or E:VALUE', 'got': real})
                continue
            if real != want:
                res.violations.append({'what': f'operator {o}: an error operand is not returned (leftmost first)',
                                       'input': inp, 'expected': want, 'got': real})
            continue
        if real.startswith('X:') or (real.startswith('E:') and real not in ALLOWED_OP_ERRORS):
            res.violations.append({'what': f'operator {o} raised or returned an unexpected error on scalar operands',
                                   'input': inp, 'expected': 'a value or #VALUE!/#DIV/0!/#NUM!', 'got': real})
        elif impl != 'N:nonfinite' and not common.same_value(real, impl):
            if o == 'CONCAT' and ('60.102.108.111.97.116.62' in impl or '60.100.97.116.101.116.105.109.101.62' in impl):
                res.count('text-form-of-float-or-date-not-modelled')
            elif o == 'POW' and impl == 'E:NUM' and real.startswith('F:'):
                res.count('pow-fractional-exponent-not-modelled')   # float pow is an uninterpreted primitive
            elif not (real.startswith('F:') and impl.startswith(('F:', 'I:')) and close(real, impl)):
                res.drift.append({**inp, 'impl_model': impl, 'real': real})

    # operators through formulas (operands from cells; errors from a literal, 1/0 and a referenced cell)
    fpool = [v for v in pool if not isinstance(v, datetime.datetime)]
    step = 1 if (ctx.tier == 'thorough' or ctx.widen) else 4
    fcases = []
    for o in INFIX:
        for a, b in list(itertools.product(fpool, repeat=2))[::step]:
            fcases.append((o, a, b))
    for (o, a, b) in fcases:
        cells, later = {}, {}
        for addr, v in (('Sheet1!A1', a), ('Sheet1!B1', b)):
            if isinstance(v, str) and v == '':
                later[addr] = v
            elif v is not None:
                cells[addr] = v
        cells['Sheet1!C1'] = f'=A1{INFIX[o][1]}B1'
        got = eval_cells(cells, later, 'Sheet1!C1')
        want = direct[(o, wire(a), wire(b))]
        res.evaluations += 1
        res.count('formula-op:' + o)
        if not same(got, want):
            res.violations.append({'what': f'operator {o} through a formula differs from the typed library call',
                                   'input': {'op': o, 'left': wire(a), 'right': wire(b), 'route': 'formula'},
                                   'expected': want, 'got': got})
    for o in INFIX:
        sym = INFIX[o][1]
        for code in CODES:
            for form in (f'={code}{sym}2', f'=2{sym}{code}', f'={code}{sym}(1/0)', f'=A1{sym}2', f'=2{sym}A1'):
                cells = {'Sheet1!A1': f'={code}', 'Sheet1!C1': form}
                got = eval_cells(cells, {}, 'Sheet1!C1')
                res.evaluations += 1
                res.count('formula-op-error')
                res.nontrivial.add((o, form))
                if got != 'E:' + CODE_WIRE[code]:
                    res.violations.append({'what': f'operator {o}: error operand not returned through a formula',
                                           'input': {'formula': form, 'A1': f'={code}'},
                                           'expected': 'E:' + CODE_WIRE[code], 'got': got})
        form = f'=(1/0){sym}#N/A'
        got = eval_cells({'Sheet1!C1': form}, {}, 'Sheet1!C1')
        res.evaluations += 1
        if got != 'E:DIV0':
            res.violations.append({'what': f'operator {o}: leftmost of two errors is not the result',
                                   'input': {'formula': form}, 'expected': 'E:DIV0', 'got': got})

    # (1b) totality on awkward operands, typed calls and formulas: every way a BLANK reaches an operator (the BLANK
    # singleton of an unknown cell, a fresh Blank object — what an empty cell the model holds evaluates to —, a cell
    # emptied with set_cell_value), and texts that a date parser chokes on (enormous date / time fields).  Only
    # the "value or #VALUE!/#DIV/0!/#NUM!, never a Python exception" clause is demanded here.
    awkward_texts = ['9999999999-01-01', '12:99999999999999999999', '1/1/99999999999999999999',
                     'Jan 99999999999999999999999999', '99999999999999999999999999999999999999999999', '1-1-1-1-1-1-1',
                     '0000-00-00', '24:61:61', '١٢', '1e999', '-1e999', 'inf', '-inf', 'nan', 'Infinity', '0x10', '1,5', '$3', '3%', '\x00']
    blanks = [('singleton', ft.BLANK), ('fresh', ft.Blank(None)), ('fresh2', ft.Blank(None))]
    others = [typed(v) for v in (0, 2.5, 'abc', '', True, False, datetime.datetime(2020, 1, 1))]
    tcases = []
    for o in INFIX:
        fn = xl.FUNCTIONS[INFIX[o][0]]
        for (na, a), (nb, b) in itertools.product(blanks, repeat=2):
            tcases.append((o, fn, f'blank:{na}', a, f'blank:{nb}', b))
        for nb, b in blanks:
            for x in others:
                tcases.append((o, fn, f'blank:{nb}', b, repr(x), x))
                tcases.append((o, fn, repr(x), x, f'blank:{nb}', b))
        for t in awkward_texts:
            if o == 'POW' and numeric_text(t):
                continue        # astronomically large powers (10^44 digits): outside what a spreadsheet can hold
            for x in others + [ft.BLANK, ft.Text(t)]:
                tcases.append((o, fn, repr(t), ft.Text(t), repr(x), x))
                tcases.append((o, fn, repr(x), x, repr(t), ft.Text(t)))
    for o, fn, na, a, nb, b in tcases:
        real = call_real(fn, a, b)
        res.evaluations += 1
        res.count('op-awkward:' + o)
        res.nontrivial.add(('awk', o, na, nb))
        if real.startswith('X:') or (real.startswith('E:') and real not in ALLOWED_OP_ERRORS):
            res.violations.append({'what': f'operator {o} raised or returned an unexpected error on scalar operands',
                                   'input': {'op': o, 'left': na, 'right': nb, 'route': 'typed'},
                                   'expected': 'a value or #VALUE!/#DIV/0!/#NUM!', 'got': real})
    for o in ('NEG', 'PCT'):
        fn = xl.FUNCTIONS['OP_NEG' if o == 'NEG' else 'OP_PERCENT']
        for na, a in blanks + [(repr(t), ft.Text(t)) for t in awkward_texts]:
            real = call_real(fn, a)
            res.evaluations += 1
            if real.startswith('X:') or (real.startswith('E:') and real not in ALLOWED_OP_ERRORS):
                res.violations.append({'what': f'operator {o} raised or returned an unexpected error on a scalar operand',
                                       'input': {'op': o, 'operand': na, 'route': 'typed'},
                                       'expected': 'a value or #VALUE!/#DIV/0!/#NUM!', 'got': real})
    for o in INFIX:
        sym = INFIX[o][1]
        # both operands empty cells that the model HOLDS (members of a range referenced elsewhere), one emptied cell
        for how in ('in-range', 'emptied', 'emptied-vs-in-range'):
            cells = {'Sheet1!C1': f'=A1{sym}B1', 'Sheet1!C2': f'=A1{sym}A1', 'Sheet1!C3': f'=Z9{sym}A1', 'Sheet1!C4': f'=B1{sym}7'}
            later = {}
            if how != 'emptied':
                cells['Sheet1!D1'] = '=COUNTA(A1:B1)'
            if how != 'in-range':
                cells['Sheet1!A1'] = 5
                later['Sheet1!A1'] = None
            if how == 'emptied':
                cells['Sheet1!B1'] = 'x'
                later['Sheet1!B1'] = None
            for probe in ('Sheet1!C1', 'Sheet1!C2', 'Sheet1!C3', 'Sheet1!C4'):
                got = eval_cells(cells, later, probe)
                res.evaluations += 1
                res.count('formula-op-blank:' + how)
                res.nontrivial.add(('fblank', o, how, probe))
                if got.startswith('X:') or (got.startswith('E:') and got not in ALLOWED_OP_ERRORS):
                    res.violations.append({'what': f'operator {o} on blank cells raised or returned an unexpected error',
                                           'input': {'cells': cells, 'then_set': {k: None for k in later}, 'probe': probe},
                                           'expected': 'a value or #VALUE!/#DIV/0!/#NUM!', 'got': got})
        for t in awkward_texts[:8]:
            for form, cells in ((f'="{t}"{sym}1', {}), (f'=A1{sym}1', {'Sheet1!A1': t}), (f'=1{sym}A1', {'Sheet1!A1': t})):
                cells = dict(cells, **{'Sheet1!C1': form})
                got = eval_cells(cells, {}, 'Sheet1!C1')
                res.evaluations += 1
                res.count('formula-op-awkward-text')
                if got.startswith('X:') or (got.startswith('E:') and got not in ALLOWED_OP_ERRORS):
                    res.violations.append({'what': f'operator {o} on a text operand raised or returned an unexpected error',
                                           'input': {'cells': cells}, 'expected': 'a value or #VALUE!/#DIV/0!/#NUM!', 'got': got})

    # ---------------------------------------------------------------- (2) registered functions x position x code
    reqs, meta = [], []
    for name in sorted(xl.FUNCTIONS):
        if name in EXCLUDED:
            continue
        f = xl.FUNCTIONS[name]
        sig = inspect.signature(f)
        slots = []   # (param, python default, formula literal, is_vararg_item)
        for p in sig.parameters.values():
            if p.name == '_rounding':
                continue
            if p.kind == p.VAR_POSITIONAL:
                inner = getattr(p.annotation, '__args__', [None])[0]
                if name == 'CHOOSE':
                    continue
                py, fl = default_for(inner, ft)
                slots.append((p, py, fl, True))
                slots.append((p, py, fl, True))
            else:
                py, fl = default_for(p.annotation, ft)
                slots.append((p, py, fl, False))
        for i in range(len(slots)):
            for code in CODES:
                args = [s[1] for s in slots]
                args[i] = err(code)
                # model request: bound parameters
                bound, k = [], 0
                params = [p for p in sig.parameters.values() if p.name != '_rounding']
                for p in params:
                    if p.kind == p.VAR_POSITIONAL:
                        if name == 'CHOOSE':
                            bound.append('m=')
                            continue
                        items = [args[k], args[k + 1]]
                        k += 2
                        bound.append('m=' + '|'.join(item_wire(x, ft) for x in items))
                    else:
                        bound.append(('oa=' if isinstance(args[k], ft.Array) else 'o=') + item_wire(args[k], ft))
                        k += 1
                reqs.append('\t'.join(['C07', 'call', name] + bound))
                meta.append((name, i, code, args, [s[2] for s in slots], slots[i][3]))
    resp = ctx.driver.batch(reqs)
    for (name, i, code, args, lits, in_var), r in zip(meta, resp):
        impl = parse_kv(r).get('impl', r)
        f = xl.FUNCTIONS[name]
        want = 'E:' + CODE_WIRE[code]
        real = call_real(f, *args)
        res.evaluations += 1
        res.count('call:' + name)
        res.nontrivial.add((name, i, code))
        inp = {'fn': name, 'position': i, 'code': code, 'route': 'direct'}
        if len(res.samples) < 12 and i == 0 and code == '#N/A':
            res.sample({**inp, 'real': real, 'impl_model': impl})
        ok = real == want
        if not ok:
            if name == 'SUMPRODUCT' and kf59 and real in ('E:NA', 'E:VALUE'):
                res.known.setdefault('D59', []).append(inp)
            else:
                res.violations.append({'what': f'{name}: error argument at position {i} is not returned',
                                       'input': inp, 'expected': want, 'got': real})
        elif impl not in (want, 'unwrapped') and not (name == 'SUMPRODUCT'):
            res.drift.append({**inp, 'impl_model': impl, 'real': real})
        # through formulas: literal, 1/0 (only #DIV/0!), referenced cell
        if ctx.tier != 'thorough' and not ctx.widen and code not in ('#N/A', '#DIV/0!'):
            continue
        forms = []
        la = list(lits)
        la[i] = code
        forms.append(f'={name}(' + ','.join(la) + ')')
        la[i] = 'Z1'
        forms.append(f'={name}(' + ','.join(la) + ')')
        if code == '#DIV/0!':
            la[i] = '1/0'
            forms.append(f'={name}(' + ','.join(la) + ')')
        for form in forms:
            cells = {'Sheet1!D1': 1, 'Sheet1!E1': 2, 'Sheet1!D2': 3, 'Sheet1!E2': 4,
                     'Sheet1!Z1': f'={code}', 'Sheet1!C1': form}
            got = eval_cells(cells, {}, 'Sheet1!C1')
            res.evaluations += 1
            res.count('formula-call')
            if got != want:
                if name == 'SUMPRODUCT' and kf59 and got in ('E:NA', 'E:VALUE'):
                    res.known.setdefault('D59', []).append({'formula': form})
                    continue
                res.violations.append({'what': f'{name}: error argument at position {i} is not returned (formula)',
                                       'input': {'formula': form, 'Z1': f'={code}'}, 'expected': want, 'got': got})

    # ---------------------------------------------------------------- (3) error elements inside ranges / lists
    for name in ['SUM', 'AVERAGE', 'MIN', 'MAX', 'CONCAT', 'CONCATENATE', 'NPV', 'SUMPRODUCT']:
        for code in CODES:
            for pos in range(4):
                vals = [1, 2, 3, 4]
                want = 'E:' + CODE_WIRE[code]
                cells = {f'Sheet1!A{k + 1}': v for k, v in enumerate(vals)}
                cells[f'Sheet1!A{pos + 1}'] = f'={code}'
                if pos < 3:
                    other = CODES[(CODES.index(code) + 1) % 7]
                    cells['Sheet1!A4'] = f'={other}'      # a later, different error must not win
                pre = '0.1,' if name == 'NPV' else ''
                form = f'={name}({pre}A1:A4)' if name != 'SUMPRODUCT' else '=SUMPRODUCT(A1:A4,A1:A4)'
                if name == 'CONCATENATE':
                    form = '=CONCATENATE(A1,A2,A3,A4)'
                cells['Sheet1!C1'] = form
                got = eval_cells(cells, {}, 'Sheet1!C1')
                res.evaluations += 1
                res.count('aggregate-error')
                res.nontrivial.add((name, 'range', code, pos))
                if got != want:
                    if name == 'SUMPRODUCT' and kf59 and got == 'E:NA':
                        res.known.setdefault('D59', []).append({'formula': form, 'code': code})
                        continue
                    res.violations.append({'what': f'{name}: leftmost error element of its range is not the result',
                                           'input': {'cells': {k: str(v) for k, v in cells.items()}},
                                           'expected': want, 'got': got})

    # (3c) MIXED argument lists (round-8 seed C07-11: a fast path returning the first DIRECT error argument before the
    # arguments were converted): an error element inside a range argument and a different error as another, direct
    # argument (literal, NA()-style call, a cell) — the leftmost in ARGUMENT order is the result
    for name in ['SUM', 'AVERAGE', 'MIN', 'MAX']:
        for ci, code in enumerate(CODES):
            other = CODES[(ci + 3) % 7]
            for pos in range(3):
                cells = {'Sheet1!A1': 1, 'Sheet1!A2': 2, 'Sheet1!A3': 3, 'Sheet1!Z1': f'={other}'}
                cells[f'Sheet1!A{pos + 1}'] = f'={code}' if code != '#DIV/0!' else '=1/0'
                w_in, w_out = 'E:' + CODE_WIRE[code], 'E:' + CODE_WIRE[other]
                for form, want in ((f'={name}(A1:A3,{other})', w_in), (f'={name}(A1:A3,5,Z1)', w_in),
                                   (f'={name}(7,A1:A3,{other})', w_in), (f'={name}({other},A1:A3)', w_out),
                                   (f'={name}(Z1,7,A1:A3)', w_out), (f'={name}(A1:A3,A1:A3,Z1)', w_in),
                                   (f'={name}(A1:A3,{other})+1', w_in)):
                    c2 = dict(cells)
                    c2['Sheet1!C1'] = form
                    got = eval_cells(c2, {}, 'Sheet1!C1')
                    res.evaluations += 1
                    res.count('aggregate-error-mixed')
                    res.nontrivial.add((name, 'mixed', code, pos, form))
                    if got != want:
                        res.violations.append({'what': f'{name}: with an error element in a range argument and another error as a '
                                                       'direct argument, the leftmost in argument order is not the result',
                                               'input': {'cells': {k: str(v) for k, v in c2.items()}},
                                               'expected': want, 'got': got})

    # (3b) the same in LARGE ranges: an error element behind long runs of ordinary values (0, FALSE, 7, "x") — none of
    # them is an empty cell, so nothing of the range may be dropped — as a wide row, a tall column and a block;
    # the error must be the result and must be handed on to a dependant
    import openpyxl.utils as _ou
    for filler in (0, False, 7, 'x', 0.0):
        for shape, n in (('row', 130), ('col', 130), ('row', 260), ('block', 150)):
            for name in ('SUM', 'AVERAGE', 'MAX', 'MIN'):
                code = CODES[(n + len(name)) % 7]
                if shape == 'row':
                    addrs = [f'{_ou.get_column_letter(k + 1)}1' for k in range(n)]
                    rng_txt = f'A1:{_ou.get_column_letter(n)}1'
                elif shape == 'col':
                    addrs = [f'A{k + 1}' for k in range(n)]
                    rng_txt = f'A1:A{n}'
                else:
                    addrs = [f'{_ou.get_column_letter(c + 1)}{r + 1}' for r in range(n // 3) for c in range(3)]
                    rng_txt = f'A1:C{n // 3}'
                cells = {f'Sheet1!{a}': filler for a in addrs}
                cells[f'Sheet1!{addrs[-8]}'] = f'={code}'
                cells['Sheet1!ZZ900'] = f'={name}({rng_txt})'
                cells['Sheet1!ZZ901'] = '=ZZ900+1'
                want = 'E:' + CODE_WIRE[code]
                for probe in ('Sheet1!ZZ900', 'Sheet1!ZZ901'):
                    got = eval_cells(cells, {}, probe)
                    res.evaluations += 1
                    res.count('aggregate-error-large-range')
                    res.nontrivial.add((name, 'large', shape, n, repr(filler), probe))
                    if got != want:
                        res.violations.append({'what': f'{name}: an error element of a large range is not the result / not handed on',
                                               'input': {'range': rng_txt, 'filler': repr(filler), 'error at': addrs[-8],
                                                         'code': code, 'probe': probe, 'formula': cells['Sheet1!ZZ900']},
                                               'expected': want, 'got': got})

    # ---------------------------------------------------------------- (4) IS-family, NA
    reqs, meta = [], []
    for fn in ['ISERROR', 'ISERR', 'ISNA', 'ISNUMBER', 'ISTEXT', 'ISBLANK']:
        for v in pool + errs + lookalike_texts():
            reqs.append('\t'.join(['C07', 'is', fn, wire(v)])); meta.append((fn, v))
    for (fn, v), r in zip(meta, ctx.driver.batch(reqs)):
        impl = parse_kv(r)['impl']
        real = call_real(xl.FUNCTIONS[fn], typed(v))
        is_err = isinstance(v, xlerrors.ExcelError)
        want = None
        if fn == 'ISERROR':
            want = is_err
        elif fn == 'ISERR':
            want = is_err and v.value != '#N/A'
        elif fn == 'ISNA':
            want = is_err and v.value == '#N/A'
        elif not is_err:
            if fn == 'ISNUMBER':
                want = isinstance(v, (int, float)) and not isinstance(v, bool)
            elif fn == 'ISTEXT':
                want = isinstance(v, str)
            elif fn == 'ISBLANK':
                want = v is None or v == ''
        res.evaluations += 1
        res.count('is:' + fn)
        res.nontrivial.add((fn, wire(v)))
        if want is not None:
            w = 'B:1' if want else 'B:0'
            if real != w:
                res.violations.append({'what': f'{fn} truth table', 'input': {'fn': fn, 'arg': wire(v)},
                                       'expected': w, 'got': real})
            elif impl != real:
                res.drift.append({'fn': fn, 'arg': wire(v), 'impl_model': impl, 'real': real})
    for t in lookalike_texts()[:8]:
        for fn, want in (('ISNA', 'B:0'), ('ISERROR', 'B:0'), ('ISERR', 'B:0'), ('ISTEXT', 'B:1'), ('ISNUMBER', 'B:0')):
            cells = {'Sheet1!A1': t, 'Sheet1!C1': f'={fn}(A1)', 'Sheet1!C2': f'={fn}("' + t + '")',
                     'Sheet1!C3': f'={fn}(LEFT("' + t + ' or so",' + str(len(t)) + '))'}
            for addr in ('Sheet1!C1', 'Sheet1!C2', 'Sheet1!C3'):
                got = eval_cells(cells, {}, addr)
                res.evaluations += 1
                res.count('is-lookalike')
                res.nontrivial.add((fn, 'lookalike', t, addr))
                if got != want:
                    res.violations.append({'what': f'{fn} of a TEXT that spells an error code', 'input': {'cells': cells, 'cell': addr},
                                           'expected': want, 'got': got})
    real = call_real(xl.FUNCTIONS['NA'])
    res.evaluations += 1
    if real != 'E:NA':
        res.violations.append({'what': 'NA() is not #N/A', 'input': {'fn': 'NA'}, 'expected': 'E:NA', 'got': real})

    # ---------------------------------------------------------------- (5) a cell stores its error and hands it on
    for code in CODES:
        cells = {'Sheet1!A1': f'={code}', 'Sheet1!A2': '=1/0', 'Sheet1!B1': '=A1+1', 'Sheet1!B2': '=ABS(A2)',
                 'Sheet1!C1': '=B1*2', 'Sheet1!C2': '=SUM(B2,1)', 'Sheet1!D1': '=ISERROR(C1)'}
        try:
            m = ModelCompiler().read_and_parse_dict(cells)
            ev = Evaluator(m)
            got = {a: call_real(ev.evaluate, a) for a in ('Sheet1!C1', 'Sheet1!C2', 'Sheet1!D1')}
            stored = {a: common.canon(m.cells[a].value) for a in ('Sheet1!A1', 'Sheet1!B1', 'Sheet1!A2', 'Sheet1!B2')}
        except Exception as exc:  # noqa: BLE001
            got, stored = {'exception': repr(exc)}, {}
        want = {'Sheet1!C1': 'E:' + CODE_WIRE[code], 'Sheet1!C2': 'E:DIV0', 'Sheet1!D1': 'B:1'}
        wstored = {'Sheet1!A1': 'E:' + CODE_WIRE[code], 'Sheet1!B1': 'E:' + CODE_WIRE[code],
                   'Sheet1!A2': 'E:DIV0', 'Sheet1!B2': 'E:DIV0'}
        res.evaluations += 1
        res.count('stored-and-handed-on')
        if got != want or stored != wstored:
            res.violations.append({'what': 'a cell whose formula yields an error must store it and hand it on',
                                   'input': {'cells': cells}, 'expected': {**want, **wstored},
                                   'got': {**got, **stored}})
    if res.drift:
        res.notes.append(f'{len(res.drift)} model/implementation differences where the code still meets Spec')
    return res


def numeric_text(t):
    try:
        import math
        return math.isfinite(float(t))
    except ValueError:
        return t.lower() in ('true', 'false')


def item_wire(x, ft):
    from xlcalculator.xlfunctions import xlerrors
    if isinstance(x, ft.Array):
        return common.canon(x)
    if isinstance(x, xlerrors.ExcelError):
        return 'x:' + wire(x)
    return 'n:' + wire(x)


def eval_cells(cells, later, addr):
    from xlcalculator import ModelCompiler, Evaluator

    def go():
        m = ModelCompiler().read_and_parse_dict(cells)
        for a, v in later.items():
            m.set_cell_value(a, v)
        return Evaluator(m).evaluate(addr)
    return call_real(go)


def close(a, b, ulps=8):
    x, y = common.num_value(a), common.num_value(b)
    if x is None or y is None:
        return False
    if x == y:
        return True
    return abs(x - y) <= abs(y) * ulps / 2 ** 52


def same(a, b):
    return common.same_value(a, b) or close(a, b)
