"""C08 — functions coerce arguments the Excel way, however the value is spelt (DESIGN.md §4 C08)."""
import datetime
import inspect
import itertools
from fractions import Fraction

import common
from common import Result, parse_kv, call_real_limited as call_real, w_text, w_frac, frac_of, same_value

LEVEL_TEXT = (
    'Lean theorems: the body of a wrapped function sees only validated values, and two spellings that cast '
    'alike give the same result in every position of every function whatever its body (spelling_invariant); '
    'int / numpy.int64 / Number object, float / numpy.float64 / Number object, bool / Boolean object (TRUE=1), '
    'None / BLANK (0), str / Text object cast to the same typed scalar; every well-formed decimal or scientific '
    'numeral with optional sign, exponent and surrounding blanks is read as the number it denotes '
    '(spelling_numeric_text, unbounded induction over digit lists); text that is not numeric gives #VALUE!; '
    'arithmetic coerces operands through the same cast, & converts to text; function names resolve '
    'case-insensitively and ignore an _xlfn. prefix (all registry keys are upper-case: decide); the registration '
    'state machine: registered functions are visible to evaluators created afterwards, earlier ones unchanged. '
    'Tied to the code by a differential run: every registered function with numeric parameters x position x '
    'value x 12-16 spellings (direct calls and formulas), every arithmetic operator x type pair, name spellings, '
    'the README registration example.')
LEVEL_NOTE = (
    'Trusted: Lean kernel (propext, Classical.choice, Quot.sound); hand models Model/Value.lean, '
    'Model/Validate.lean, Model/C08.lean (correspondence-checked); dateutil is an uninterpreted parameter; that '
    'each function BODY is insensitive to int-vs-float of an equal number is checked by correspondence only. '
    'Known findings D22 (numpy 32-bit scalars rejected), D23 (date-like text and Python underscore numerals accepted).')
DESIGN_REF = '§4 C08'

# theorems of the integrated pipeline model (Props/X01.lean) that carry this property's theorems to formula TEXTS in a
# compiled workbook; re-built and audited with this check (harness/common.prepare: soft obligations)
TRANSPORT = ('XlVerif.Props.X01', ['wrapper_refines', 'compile_call_formula'])
TRUSTED = [
    'Lean 4.33 kernel; axioms propext, Classical.choice, Quot.sound only',
    'hand-written models Model/Value.lean, Model/Validate.lean, Model/C08.lean (correspondence-checked)',
    'translator extractors/a_core.py (registry, NATIVE_TO_XLTYPE, boolean_texts)',
    'dateutil.parser is an uninterpreted parameter of the model',
]
ASSUMPTIONS = [
    'the text form of floats and booleans under & / as text arguments is not constrained by the statement',
    'volatile functions (RAND, RANDBETWEEN, NOW, TODAY) are excluded from result comparison',
    'texts that Python reads as numerals but Excel does not ("1_0", "inf", "nan") and texts dateutil reads as '
    'dates are reported under known finding D23, not demanded to be #VALUE!',
]

VOLATILE = {'RAND', 'RANDBETWEEN', 'NOW', 'TODAY'}
ARITH = {'ADD': ('OP_ADD', '+'), 'SUB': ('OP_SUB', '-'), 'MUL': ('OP_MUL', '*'), 'DIV': ('OP_DIV', '/')}


def spellings(value):
    """(label, python object, wire or None) for every spelling of a numeric value"""
    import numpy
    from xlcalculator.xlfunctions import func_xltypes as ft
    out = []
    q = Fraction(value)
    is_int = q.denominator == 1
    iv = int(q) if is_int else None
    fv = float(q)
    if is_int:
        out += [('int', iv, f'n:I:{iv}'), ('numpy.int64', numpy.int64(iv), f'np64:I:{iv}'),
                ('Number(int)', ft.Number(iv), f'x:I:{iv}'),
                ('numpy.int32', numpy.int32(iv), f'np32:I:{iv}')]
    fw = 'F:' + w_frac(q)
    out += [('float', fv, 'n:' + fw), ('numpy.float64', numpy.float64(fv), 'np64:' + fw),
            ('Number(float)', ft.Number(fv), 'x:' + fw), ('numpy.float32', numpy.float32(fv), 'np32:' + fw)]
    texts = []
    if is_int:
        texts += [str(iv), f' {iv} ', f'{iv}.0', f'{iv}e0', f'{iv}E+0', f'{iv}.']
        if iv >= 0:
            texts += [f'+{iv}', f'0{iv}', f'{iv * 10}e-1']
        if 0 <= iv < 10:
            texts += [f'.{iv}e1', f'.{iv}E+1', f'+.{iv}e1']      # no digit before the decimal point
    else:
        texts += [repr(fv), f' {fv!r}', f'{fv * 10!r}e-1', f'{fv!r}E0']
        if abs(fv) < 1:                                          # '.5', '-.25', '.5e0'
            bare = repr(fv).replace('0.', '.', 1)
            texts += [bare, bare + 'e0', bare + 'E+0'] + (['+' + bare] if fv > 0 else [])
    for t in texts:
        out.append((f'str {t!r}', t, 'n:' + w_text(t)))
    out.append((f'Text {texts[0]!r}', ft.Text(texts[0]), 'x:' + w_text(texts[0])))
    padded = f' {texts[0]} '
    out.append((f'Text {padded!r}', ft.Text(padded), 'x:' + w_text(padded)))
    if q == 1:
        out += [('True', True, 'n:B:1'), ('Boolean(True)', ft.Boolean(True), 'x:B:1'), ('"TRUE"', 'TRUE', 'n:' + w_text('TRUE'))]
    if q == 0:
        out += [('False', False, 'n:B:0'), ('Boolean(False)', ft.Boolean(False), 'x:B:0'),
                ('None', None, 'n:Z'), ('BLANK', ft.BLANK, 'x:Z'), ('"false"', 'false', 'n:' + w_text('false'))]
    return out


def default_for(ann, ft):
    if ann == ft.XlText:
        return 'ab'
    if ann == ft.XlDateTime:
        return datetime.datetime(2020, 1, 15)
    if ann == ft.XlBoolean:
        return True
    if ann == ft.XlArray:
        return ft.Array([[1, 2], [3, 4]])
    return 2


def text_class(t):
    """numeric | python-only numeral | date-like | garbage"""
    import re
    import dateutil.parser
    if re.fullmatch(r'\s*[+-]?(\d+\.?\d*|\.\d+)([eE][+-]?\d+)?\s*', t) or t.strip().lower() in ('true', 'false'):
        return 'numeric'
    try:
        import math
        # a text float() reads as inf / nan (also a numeral beyond the float range) is NOT a number (D23a, fixed)
        return 'python-numeral' if math.isfinite(float(t)) else 'garbage'
    except ValueError:
        pass
    try:
        dateutil.parser.parse(t)
        return 'date-like'
    except Exception:  # noqa: BLE001
        return 'garbage'


def run(ctx):
    import xlcalculator  # noqa: F401
    from xlcalculator import ModelCompiler, Evaluator
    from xlcalculator.xlfunctions import xl, func_xltypes as ft, xlerrors
    res = Result()
    res.rule = ('every registered function with XlNumber parameters x position x value in {3, 1, 0, -2, 2.5} x every '
                'spelling (int, float, numpy 64/32-bit scalars, Number/Text/Boolean/Blank objects, decimal and '
                'scientific text with blanks/sign/leading zero); results must equal the canonical Number-object '
                'call; non-numeric text must give #VALUE!; arithmetic operators x type pairs vs the coercion model; '
                'name spellings; registration decorators; non-trivial = distinct (function, position, spelling kind, value)')
    known = {e['id'] for e in ctx.known if e.get('status') == 'known'}
    thorough = ctx.tier == 'thorough' or ctx.widen
    values = [3, 1, 0, -2, Fraction(5, 2), Fraction(1, 2), Fraction(-1, 4)]
    if thorough:
        # (kept small: FACT, POWER, DEC2BIN … are called with these values)
        values += [7, -13, Fraction(1, 8), Fraction(-7, 4), 100, 12]
        values += [ctx.rng.randint(-150, 150) for _ in range(6)]
        values += [Fraction(ctx.rng.randint(-600, 600), 2 ** ctx.rng.randint(1, 4)) for _ in range(6)]

    # ---- (0) the cast model against Number.cast for every spelling
    reqs, meta = [], []
    for v in values:
        for label, obj, w in spellings(v):
            reqs.append('\t'.join(['C08', 'cast', 'NUM', w])); meta.append((v, label, obj))
    for (v, label, obj), r in zip(meta, ctx.driver.batch(reqs)):
        impl = parse_kv(r)['impl']
        real = call_real(cast_number, obj)
        res.evaluations += 1
        res.count('cast')
        want = 'F:' + w_frac(Fraction(v))
        inp = {'cast': 'Number', 'value': str(v), 'spelling': label}
        if same_value(real, want):
            if not same_value(impl, real):
                res.drift.append({**inp, 'impl_model': impl, 'real': real})
        elif 'numpy.int32' in label or 'numpy.float32' in label:
            if 'D22' in known and real == 'E:VALUE' and impl == real:
                res.known.setdefault('D22', []).append(inp)
            else:
                res.violations.append({'what': 'Number.cast rejects a numpy 32-bit scalar differently than listed',
                                       'input': inp, 'expected': want, 'got': real})
        else:
            res.violations.append({'what': 'Number.cast: a spelling of a value does not cast to that value',
                                   'input': inp, 'expected': want, 'got': real})

    # ---- (0b) whole numbers beyond 2**53 (round-6 seed C08-10: numeric text parsed through float() lost the last digits):
    #      every EXACT spelling of the value — int, Number, numpy.int64, digit text with blanks / sign / leading zero, Text
    #      objects, a cell holding the text — must cast to exactly that integer and take part in arithmetic as it
    bigs = [2 ** 53 + 1, -(2 ** 53 + 1), 10 ** 15 + 1, 2 ** 62 + 1, 10 ** 17 + 3, 10 ** 20 + 7, 3 ** 40, 99999999999999999]
    bigs += [ctx.rng.randrange(2 ** 53, 2 ** 80) * 2 + 1 for _ in range(12 if thorough else 4)]
    import numpy
    for iv in bigs:
        exact = [('int', iv), ('Number(int)', ft.Number(iv)), ('str', str(iv)), ('str blanks', f' {iv} '),
                 ('Text', ft.Text(str(iv))), ('Text blanks', ft.Text(f'  {iv} '))]
        if iv >= 0:
            exact += [('str +', f'+{iv}'), ('str 0', f'0{iv}'), ('Text +', ft.Text(f'+{iv}'))]
        if -2 ** 63 <= iv < 2 ** 63:
            exact.append(('numpy.int64', numpy.int64(iv)))
        want = f'I:{iv}'
        for label, obj in exact:
            checks = [('Number.cast', call_real(cast_number, obj), want),
                      ('OP_ADD(x,0)', call_real(xl.FUNCTIONS['OP_ADD'], obj, 0), want),
                      ('OP_SUB(x,1)', call_real(xl.FUNCTIONS['OP_SUB'], obj, 1), f'I:{iv - 1}'),
                      ('OP_NEG(x)', call_real(xl.FUNCTIONS['OP_NEG'], obj), f'I:{-iv}'),
                      ('ABS(x)', call_real(xl.FUNCTIONS['ABS'], obj), f'I:{abs(iv)}')]
            for what, got, w in checks:
                res.evaluations += 1
                res.count('big-int')
                res.nontrivial.add(('big-int', what, label, iv))
                if not same_value(got, w):
                    res.violations.append({'what': f'{what}: an exact spelling of a whole number beyond 2**53 does not denote that number',
                                           'input': {'value': str(iv), 'spelling': label}, 'expected': w, 'got': got})
        for cellv, label in ((iv, 'int cell'), (str(iv), 'text cell'), (f' {iv}', 'text cell blanks')):
            for form, w in (('=A1+0', want), ('=A1-1', f'I:{iv - 1}'), ('=-A1', f'I:{-iv}'), ('=ABS(A1)', f'I:{abs(iv)}'),
                            ('=SUM(A1,0)' if not isinstance(cellv, str) else '=A1*1', want)):
                got = eval_cells({'Sheet1!A1': cellv, 'Sheet1!C1': form}, 'Sheet1!C1')
                res.evaluations += 1
                res.count('big-int-formula')
                res.nontrivial.add(('big-int-formula', form, label, iv))
                if not same_value(got, w):
                    res.violations.append({'what': 'a whole number beyond 2**53 in a cell does not take part in a formula as that number',
                                           'input': {'A1': repr(cellv), 'formula': form}, 'expected': w, 'got': got})

    # ---- (1) every function with numeric parameters x position x value x spelling
    fnames = [n for n in sorted(xl.FUNCTIONS) if n not in VOLATILE]
    for name in fnames:
        f = xl.FUNCTIONS[name]
        if not hasattr(f, '__wrapped__'):
            continue
        sig = inspect.signature(f)
        params = [p for p in sig.parameters.values() if p.name != '_rounding']
        if any(p.kind == p.VAR_POSITIONAL for p in params):
            positional = [p for p in params if p.kind != p.VAR_POSITIONAL]
        else:
            positional = params
        base = [default_for(p.annotation, ft) for p in positional]
        for i, p in enumerate(positional):
            if p.annotation != ft.XlNumber:
                continue
            vals = values if thorough else values[:3] + [Fraction(5, 2)]
            for v in vals:
                canon_args = list(base)
                canon_args[i] = ft.Number(int(v) if Fraction(v).denominator == 1 else float(v))
                extra = [1, 2] if name in ('NPV', 'CHOOSE') else []
                want = call_real(f, *canon_args, *extra)
                for label, obj, w in spellings(v):
                    args = list(base)
                    args[i] = obj
                    before = repr(obj.value) if isinstance(obj, ft.ExcelType) else None
                    got = call_real(f, *args, *extra)
                    res.evaluations += 1
                    res.count('fn:' + name)
                    if before is not None and repr(obj.value) != before:
                        # "the same result for every spelling" includes the NEXT use of the same object: a cell value
                        # is one object for every reference within a formula
                        res.violations.append({'what': f'{name}: converting an argument changed the argument object itself',
                                               'input': {'fn': name, 'position': i, 'spelling': label},
                                               'expected': before, 'got': repr(obj.value)})
                    kind = label.split(' ')[0]
                    res.nontrivial.add((name, i, kind, str(v)))
                    inp = {'fn': name, 'position': i, 'value': str(v), 'spelling': label, 'route': 'direct'}
                    if len(res.samples) < 12 and kind == 'str':
                        res.sample({**inp, 'canonical': want, 'got': got})
                    if same_value(got, want) or close(got, want):
                        continue
                    if kind in ('numpy.int32', 'numpy.float32') and 'D22' in known and got == 'E:VALUE':
                        res.known.setdefault('D22', []).append(inp)
                        continue
                    if label.startswith(('float', 'numpy.float', 'Number(float)')) and want.startswith('I:') is False \
                            and int_float_body_difference(name):
                        res.count('int-vs-float-body')
                    res.violations.append({'what': f'{name}: a spelling of the argument gives a different result',
                                           'input': inp, 'expected': want, 'got': got})
            # non-numeric text must give #VALUE!
            for t in ['abc', '3 apples', '', 'x3', '1,5', 'may', '--1', '1_0', 'inf', 'nan', '-Infinity', '1e999', '1 2', '$3', '3%']:
                args = list(base)
                args[i] = t
                extra = [1, 2] if name in ('NPV', 'CHOOSE') else []
                got = call_real(f, *args, *extra)
                cls = text_class(t)
                res.evaluations += 1
                res.count('non-numeric:' + cls)
                inp = {'fn': name, 'position': i, 'text': t, 'class': cls}
                if cls == 'garbage':
                    res.nontrivial.add((name, i, 'garbage', t))
                    if got != 'E:VALUE':
                        res.violations.append({'what': f'{name}: text that is not numeric does not give #VALUE!',
                                               'input': inp, 'expected': 'E:VALUE', 'got': got})
                elif got != 'E:VALUE':
                    if 'D23' in known:
                        res.known.setdefault('D23', []).append(inp)
                    else:
                        res.violations.append({'what': f'{name}: date-like / Python-only numeral accepted as a number',
                                               'input': inp, 'expected': 'E:VALUE', 'got': got})

    # ---- (1a') one cell used TWICE in one formula, once as a number and once as a text, in both orders: each use
    # converts on its own ("3"+1 = 4 and & converts to text), the cell's text is what it is
    for t in [' 42 ', '42 ', ' 42', '+42', '042', '4.20', '1e2', ' 7', 'TRUE', '-3 ', '.5', '5.']:
        try:
            num = float(t) if t.strip().lower() not in ('true', 'false') else 1.0
        except ValueError:
            continue
        for form, want in ((f'=(A1+1)&"|"&A1', None), ('=A1&"|"&(A1+1)', None), ('=A1*0+LEN(A1)', f'I:{len(t)}'),
                           ('=LEN(A1)+A1*0', f'I:{len(t)}'), ('=ABS(A1)*0+LEN(A1&"")', f'I:{len(t)}'),
                           ('=IF(A1+0>-1000,LEN(A1),0)', f'I:{len(t)}'), ('=SUM(A1,1)*0+LEN(A1)', f'I:{len(t)}'),
                           ('=EXACT(A1,A1&"")', 'B:1'), ('=(A1+1)*0+(A1=A1&"")', 'I:1')):
            def go(form=form):
                m = ModelCompiler().read_and_parse_dict({'Sheet1!A1': t, 'Sheet1!B1': form, 'Sheet1!B2': '=A1+1'})
                e = Evaluator(m)
                return e.evaluate('Sheet1!B1'), e.evaluate('Sheet1!B2')
            try:
                v1, v2 = go()
                got = common.canon(v1)
                plus1 = str(v2)
            except Exception as exc:  # noqa: BLE001
                got, plus1 = 'X:' + type(exc).__name__, '?'
            if want is None:
                want = w_text(plus1 + '|' + t) if form.startswith('=(A1+1)') else w_text(t + '|' + plus1)
            res.evaluations += 1
            res.count('double-use')
            res.nontrivial.add(('double-use', t, form))
            if not same_value(got, want):
                res.violations.append({'what': 'a cell used twice in one formula (as a number and as a text) is not converted '
                                               'independently at each use',
                                       'input': {'A1': t, 'formula': form}, 'expected': want, 'got': got})

    # ---- (1b) the same through formulas for one-argument numeric functions and text literals
    one_arg = [n for n in fnames if hasattr(xl.FUNCTIONS[n], '__wrapped__')
               and [p.annotation for p in inspect.signature(xl.FUNCTIONS[n]).parameters.values()] == [ft.XlNumber]]
    for name in one_arg:
        for v, forms in ((3, ['3', '3.0', '"3"', '" 3 "', '"3e0"', '"+3"', 'A1', 'A2']),
                         (1, ['1', 'TRUE', '"1"', '"true"', 'A3']), (0, ['0', 'FALSE', '"0"', 'A4', 'Z9'])):
            cells = {'Sheet1!A1': 3, 'Sheet1!A2': '3', 'Sheet1!A3': True, 'Sheet1!A4': False}
            want = None
            for form in forms:
                cells2 = dict(cells)
                cells2['Sheet1!C1'] = f'={name.lower() if form == "A1" else name}({form})'
                got = eval_cells(cells2, 'Sheet1!C1')
                res.evaluations += 1
                res.count('formula-fn')
                if want is None:
                    want = got
                elif not (same_value(got, want) or close(got, want)):
                    res.violations.append({'what': f'{name}: spelling through a formula gives a different result',
                                           'input': {'formula': cells2['Sheet1!C1'], 'value': v},
                                           'expected': want, 'got': got})

    # ---- (2) text parameters accept numbers (by their decimal text form)
    for args, want in ((('LEFT', 12345, 2), 'T:49.50'), (('LEN', 12345), 'I:5'), (('LEN', -7), 'I:2'),
                       (('RIGHT', 12345, 2), 'T:52.53'), (('MID', 12345, 2, 2), 'T:50.51'),
                       (('EXACT', 12, '12'), 'B:1'), (('FIND', 3, 12345), 'I:3'),
                       (('CONCAT', 1, 2), 'T:49.50'), (('UPPER', 12), 'T:49.50'), (('LEN', 120), 'I:3'),
                       (('RIGHT', 1200, 2), 'T:48.48'), (('EXACT', 100, '100'), 'B:1'), (('CONCAT', 120, 0), 'T:49.50.48.48'),
                       (('LEN', 0), 'I:1'), (('LEFT', -10, 3), 'T:45.49.48')):
        got = call_real(xl.FUNCTIONS[args[0]], *args[1:])
        res.evaluations += 1
        res.count('text-param')
        res.nontrivial.add(('text-param',) + tuple(map(str, args)))
        if not same_value(got, want):
            res.violations.append({'what': 'a text parameter does not accept a number by its text form',
                                   'input': {'call': list(map(str, args))}, 'expected': want, 'got': got})

    # ---- (3) arithmetic coercion: every operator x every pair of scalar kinds, against the model
    pool = [3, -2, 2.5, 0, '3', ' 3 ', '2.5', '1e1', 'true', 'FALSE', '', 'abc', True, False, None]
    reqs, meta = [], []
    for o in ARITH:
        for a, b in itertools.product(pool, repeat=2):
            reqs.append('\t'.join(['C08', 'op', o, swire(a), swire(b)])); meta.append((o, a, b))
    for (o, a, b), r in zip(meta, ctx.driver.batch(reqs)):
        impl = parse_kv(r)['impl']
        real = call_real(xl.FUNCTIONS[ARITH[o][0]], a, b)
        res.evaluations += 1
        res.count('arith:' + o)
        res.nontrivial.add(('arith', o, repr(a), repr(b)))
        inp = {'op': o, 'left': repr(a), 'right': repr(b)}
        # Spec: the operands' numeric values combined (impl is proved to do exactly that: arith_coerces)
        na, nb = numeric_value(a), numeric_value(b)
        if (na is None or nb is None) and o == 'DIV' and (nb == 0 or na is None and nb is None):
            continue      # non-numeric operand AND zero divisor: the statement does not say which error wins
        if na is None or nb is None:
            want = 'E:VALUE'
        elif o == 'DIV' and nb == 0:
            want = 'E:DIV0'
        else:
            want = 'F:' + w_frac({'ADD': na + nb, 'SUB': na - nb, 'MUL': na * nb, 'DIV': (na / nb) if nb else 0}[o])
        if not (same_value(real, want) or close(real, want)):
            res.violations.append({'what': f'arithmetic coercion: {o}', 'input': inp, 'expected': want, 'got': real})
        elif not (same_value(real, impl) or close(real, impl)):
            res.drift.append({**inp, 'impl_model': impl, 'real': real})
    for form, want in (('="3"+1', 'I:4'), ('=TRUE+1', 'I:2'), ('=Z9+1', 'I:1'), ('="3"&1', 'T:51.49'),
                       ('=1&2', 'T:49.50'), ('="a"&TRUE', None), ('=2*"2.5"', 'I:5'), ('="1e1"/4', 'F:5/2')):
        got = eval_cells({'Sheet1!C1': form}, 'Sheet1!C1')
        res.evaluations += 1
        res.count('arith-formula')
        if want is not None and not same_value(got, want):
            res.violations.append({'what': 'arithmetic / & coercion through a formula', 'input': {'formula': form},
                                   'expected': want, 'got': got})

    # ---- (3b) arithmetic with numpy scalar operands must equal the arithmetic on the Python numbers they stand for
    import numpy
    big = [3, -2, 2 ** 40, 2 ** 62, -(2 ** 62), 10 ** 15 + 1, 2.5, 1e200]
    npv = []
    for v in big:
        npv.append((v, numpy.int64(v) if isinstance(v, int) else numpy.float64(v)))
    ops = dict(ARITH)
    ops['POW'] = ('POWER', '^')
    for o, (fname, sym) in ops.items():
        for (a, na), (b, nb) in itertools.product(npv, repeat=2):
            if o == 'POW' and (abs(b) > 64 or abs(a) > 2 ** 40):
                continue
            want = call_real(xl.FUNCTIONS[fname], a, b)
            for x, y, how in ((na, nb, 'both numpy'), (na, b, 'left numpy'), (a, nb, 'right numpy')):
                got = call_real(xl.FUNCTIONS[fname], x, y)
                res.evaluations += 1
                res.count('arith-numpy')
                res.nontrivial.add(('arith-numpy', o, repr(a), repr(b), how))
                if not (same_value(got, want) or close(got, want)):
                    res.violations.append({'what': f'{fname} on numpy scalar operands differs from the Python numbers',
                                           'input': {'op': o, 'left': repr(a), 'right': repr(b), 'spelling': how},
                                           'expected': want, 'got': got})
            # the same with the numpy value stored in a cell
            m = ModelCompiler().read_and_parse_dict({'Sheet1!A1': 1, 'Sheet1!A2': 1, 'Sheet1!C1': f'=A1{sym}A2',
                                                     'Sheet1!C2': f'={fname}(A1,A2)'})
            m.set_cell_value('Sheet1!A1', na)
            m.set_cell_value('Sheet1!A2', nb)
            ev = Evaluator(m)
            for addr in ('Sheet1!C1', 'Sheet1!C2'):
                got = call_real(ev.evaluate, addr)
                res.evaluations += 1
                res.count('arith-numpy-cell')
                if not (same_value(got, want) or close(got, want)):
                    res.violations.append({'what': f'{fname} on cells holding numpy scalars differs from the Python numbers',
                                           'input': {'op': o, 'A1': repr(na), 'A2': repr(nb), 'cell': addr},
                                           'expected': want, 'got': got})

    # ---- (4) function names: case-insensitive, _xlfn. ignored
    names = ['sum', 'Sum', 'SUM', '_xlfn.SUM', '_XLFN.sum', '_xlfn.Sum', 'sUm']
    reqs = ['\t'.join(['C08', 'name', w_text(n)[2:]]) for n in names]
    for n, r in zip(names, ctx.driver.batch(reqs)):
        d = parse_kv(r)
        got = eval_cells({'Sheet1!C1': f'={n}(1,2)'}, 'Sheet1!C1')
        res.evaluations += 1
        res.count('name')
        res.nontrivial.add(('name', n))
        if not same_value(got, 'I:3'):
            res.violations.append({'what': 'function name spelling is not resolved', 'input': {'formula': f'={n}(1,2)'},
                                   'expected': 'I:3', 'got': got})
        elif d.get('found') != '1':
            res.drift.append({'name': n, 'impl_model': d, 'real': got})
    for name in fnames:
        f = xl.FUNCTIONS[name]
        sig = inspect.signature(f)
        if [p.annotation for p in sig.parameters.values()] == [ft.XlNumber]:
            a = eval_cells({'Sheet1!C1': f'={name}(1)'}, 'Sheet1!C1')
            b = eval_cells({'Sheet1!C1': f'=_xlfn.{name.lower()}(1)'}, 'Sheet1!C1')
            res.evaluations += 1
            res.count('name-all')
            if a != b:
                res.violations.append({'what': 'lower-case / _xlfn. spelling of a function name differs',
                                       'input': {'fn': name}, 'expected': a, 'got': b})

    # ---- (5) registration decorators: same rules, visible to evaluators created afterwards
    res.evaluations += 1
    res.count('registration')
    res.nontrivial.add(('registration',))
    model = ModelCompiler().read_and_parse_dict({'Sheet1!A1': '=ADDONE("1")', 'Sheet1!A2': '=addone(TRUE)'})
    before = Evaluator(model)
    try:
        @xl.register()
        @xl.validate_args
        def ADDONE(x: ft.XlNumber) -> ft.XlNumber:
            return x + 1
        after = Evaluator(model)
        got = [call_real(ADDONE, '1'), call_real(after.evaluate, 'Sheet1!A1'), call_real(after.evaluate, 'Sheet1!A2'),
               call_real(ADDONE, 'abc'), call_real(ADDONE, xlerrors.NaExcelError())]
        want = ['I:2', 'I:2', 'I:2', 'E:VALUE', 'E:NA']
        if not all(same_value(g, w) for g, w in zip(got, want)):
            res.violations.append({'what': 'a function registered through the decorators does not obey the coercion rules '
                                           'or is not visible to an evaluator created afterwards',
                                   'input': {'register': 'ADDONE(x: XlNumber) -> XlNumber'}, 'expected': want, 'got': got})
        seen_before = 'ADDONE' in before.namespace
        if seen_before:
            res.violations.append({'what': 'an evaluator created before the registration sees the new function '
                                           '(its namespace is not a copy)', 'input': {'register': 'ADDONE'},
                                   'expected': 'not in namespace', 'got': 'in namespace'})
        # the SECOND registration under a name that is taken (a redefinition by the user, also of a built-in, also
        # under an explicit name): evaluators created afterwards see the latest one, earlier evaluators keep theirs
        @xl.register()
        @xl.validate_args
        def ADDONE(x: ft.XlNumber) -> ft.XlNumber:  # noqa: F811
            return x + 10
        again = Evaluator(model)
        orig_sign = xl.FUNCTIONS.get('SIGN')
        try:
            @xl.register('SIGN')
            @xl.validate_args
            def my_sign(x: ft.XlNumber) -> ft.XlNumber:
                return x * 100
            m2 = ModelCompiler().read_and_parse_dict({'Sheet1!A1': '=SIGN("-3")', 'Sheet1!A2': '=_xlfn.sign(TRUE)'})
            e2 = Evaluator(m2)
            got = [call_real(again.evaluate, 'Sheet1!A1'), call_real(again.evaluate, 'Sheet1!A2'),
                   call_real(after.evaluate, 'Sheet1!A1'), call_real(e2.evaluate, 'Sheet1!A1'), call_real(e2.evaluate, 'Sheet1!A2')]
            want = ['I:11', 'I:11', 'I:2', 'I:-300', 'I:100']
            res.evaluations += 1
            res.count('re-registration')
            res.nontrivial.add(('re-registration',))
            if not all(same_value(g, w) for g, w in zip(got, want)):
                res.violations.append({'what': 'a function registered AGAIN under a taken name (user redefinition / built-in name) '
                                               'is not the one evaluators created afterwards use, or an earlier evaluator changed',
                                       'input': {'register': ['ADDONE := x+1', 'ADDONE := x+10', "register('SIGN') := x*100"],
                                                 'probes': ['again: =ADDONE("1")', 'again: =addone(TRUE)', 'earlier evaluator: =ADDONE("1")',
                                                            'new: =SIGN("-3")', 'new: =_xlfn.sign(TRUE)']},
                                       'expected': want, 'got': got})
        finally:
            if orig_sign is not None:
                xl.FUNCTIONS['SIGN'] = orig_sign
    finally:
        xl.FUNCTIONS.pop('ADDONE', None)
    if res.drift:
        res.notes.append(f'{len(res.drift)} model/implementation differences where the code still meets Spec')
    return res


def cast_number(obj):
    """Number.cast as the wrapper uses it: a raised ExcelError is the returned error value"""
    from xlcalculator.xlfunctions import func_xltypes as ft, xlerrors
    try:
        return ft.Number.cast(obj)
    except xlerrors.ExcelError as err:
        return err


def int_float_body_difference(name):
    return False


def swire(v):
    if v is None:
        return 'Z'
    if isinstance(v, bool):
        return 'B:1' if v else 'B:0'
    if isinstance(v, int):
        return f'I:{v}'
    if isinstance(v, float):
        return 'F:' + w_frac(frac_of(v))
    return w_text(v)


def numeric_value(v):
    """the statement's coercion: numbers, numeric text, TRUE=1/FALSE=0, blank=0; None = not numeric"""
    if v is None:
        return Fraction(0)
    if isinstance(v, bool):
        return Fraction(int(v))
    if isinstance(v, (int, float)):
        return Fraction(v)
    t = v.strip()
    if t.lower() in ('true', 'false'):
        return Fraction(int(t.lower() == 'true'))
    import re
    if re.fullmatch(r'[+-]?(\d+\.?\d*|\.\d+)([eE][+-]?\d+)?', t):
        return Fraction(t)
    return None


def eval_cells(cells, addr):
    from xlcalculator import ModelCompiler, Evaluator

    def go():
        m = ModelCompiler().read_and_parse_dict(cells)
        return Evaluator(m).evaluate(addr)
    return call_real(go)


def close(a, b, ulps=8):
    x, y = common.num_value(a), common.num_value(b)
    if x is None or y is None:
        return False
    if x == y:
        return True
    return abs(x - y) <= abs(y) * ulps / 2 ** 52
