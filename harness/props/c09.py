"""C09 — the comparison operators implement one total order on values (DESIGN.md §4 C09)."""
import datetime
import itertools

import common
from common import Result, parse_kv, call_real, w_text, w_frac, frac_of

LEVEL_TEXT = (
    'Lean theorems over the model of operator.py + the sort keys of func_xltypes.py, for ALL scalar values: '
    'the six operators refine the reference order (cmp_refines), which is proved a strict total order '
    '(irreflexive, asymmetric, transitive, trichotomous) on numbers/dates, case-folded texts and booleans; hence '
    'trichotomy, <=, >=, <> and a<b = b>a laws, transitivity, the class order number < text < FALSE < TRUE and '
    'the blank equalities. The model is tied to the code by an exhaustive pairs (and thorough: triples) '
    'differential run over a 60-value pool, as typed library calls, native library calls and formulas.')
LEVEL_NOTE = (
    'Trusted: Lean kernel (propext, Classical.choice, Quot.sound); the hand model of func_xltypes/operator '
    '(validated by correspondence); Python str.upper for non-ASCII text (ASCII modelled); sort_precedence table '
    'regenerated from the code and pinned by a decide obligation. Known finding D57 (native library calls of '
    'OP_EQ/OP_NE use Python ==, asserted by the suite).')
DESIGN_REF = '§4 C09'
TRUSTED = [
    'Lean 4.33 kernel; axioms propext, Classical.choice, Quot.sound only',
    'hand-written model lean/XlVerif/Model/Value.lean of func_xltypes.py / operator.py (correspondence-checked)',
    'translator extractors/a_core.py for the sort_precedence table',
    'Python str.upper() on non-ASCII text (only ASCII case folding is modelled)',
]
ASSUMPTIONS = [
    'ordering operators with a blank operand are not constrained by the statement (the code returns FALSE)',
    'blank compared with a date is not constrained by C09 (C07 covers the no-crash clause)',
    'dates are whole days, or moments of ONE day compared with each other (across days the time-of-day slip D45 of C18 decides)',
]

OPS = {'EQ': 'OP_EQ', 'NE': 'OP_NE', 'LT': 'OP_LT', 'GT': 'OP_GT', 'LE': 'OP_LE', 'GE': 'OP_GE'}
SYM = {'EQ': '=', 'NE': '<>', 'LT': '<', 'GT': '>', 'LE': '<=', 'GE': '>='}


def pool(rng=None, extra=0):
    d = datetime.datetime
    nums = [0, 1, -1, 5, 10, 2, 0.5, -2.5, 1.0, 1e10, -0.0, 43831, 61,
            0.3, 0.1 + 0.2, 1.0000000000000002, 1000000000000001, 1000000000000002, -9007199254740993,
            -9007199254740992, 2.5e-300, 2.5000000000000004e-300, 123456789012345.67, 123456789012345.69]
    dates = [d(2020, 1, 1), d(1900, 3, 1), d(1999, 12, 31)]
    texts = ['', 'a', 'A', 'ab', 'aB', 'B', 'b', '1', '5', '10', '-1', 'true', 'TRUE', 'false', 'abc', 'ABD',
             ' ', 'z', 'Z', 'a b', '0', 'True', '1e3', '#N/A', 'abcd']
    bools = [True, False]
    more = []
    if rng is not None:
        for _ in range(extra):
            k = rng.randrange(4)
            if k == 0:
                more.append(rng.randint(-10**6, 10**6))
            elif k == 1:
                more.append(rng.randint(-10**6, 10**6) / 2 ** rng.randint(1, 10))
            elif k == 2:
                more.append(''.join(rng.choice('abABzZ019 -.e') for _ in range(rng.randint(0, 6))))
            else:
                more.append(d(1900, 3, 1) + datetime.timedelta(days=rng.randint(0, 80000)))
    return nums + dates + texts + bools + [None] + more


def wire(v):
    if v is None:
        return 'Z'
    if isinstance(v, bool):
        return 'B:1' if v else 'B:0'
    if isinstance(v, int):
        return f'I:{v}'
    if isinstance(v, float):
        return 'F:' + w_frac(frac_of(v))
    if isinstance(v, str):
        return w_text(v)
    if isinstance(v, datetime.datetime):
        return 'D:' + w_frac(common.serial_of(v))
    raise TypeError(v)


def typed(v):
    from xlcalculator.xlfunctions import func_xltypes as ft
    if v is None:
        return ft.BLANK
    if isinstance(v, bool):
        return ft.Boolean(v)
    if isinstance(v, (int, float)):
        return ft.Number(v)
    if isinstance(v, str):
        return ft.Text(v)
    return ft.DateTime(v)


def key_of(v):
    return repr(v) + type(v).__name__


def run(ctx):
    from xlcalculator.xlfunctions import xl
    import xlcalculator  # noqa: F401
    from xlcalculator import ModelCompiler, Evaluator
    res = Result()
    vals = pool(ctx.rng, 60 if (ctx.tier == 'thorough' or ctx.widen) else 0)
    res.rule = ('all ordered pairs over a pool of %d values (ints, floats, negatives, zero, dates, texts '
                'empty/numeric-looking/true-false/mixed case/prefixes, booleans, blank) through the six '
                'operators, as library calls with typed operands, with native operands, and as formulas; '
                'thorough adds all ordered triples for transitivity on the real code; non-trivial = distinct '
                '(operator, left, right) with a result demanded by the statement' % len(vals))
    pairs = list(itertools.product(vals, repeat=2))
    reqs, meta = [], []
    for a, b in pairs:
        for o in OPS:
            reqs.append('\t'.join(['C09', 'op', o, wire(a), wire(b)]))
            meta.append((o, a, b))
    resp = ctx.driver.batch(reqs)
    res.exhaustive = True
    kf57 = any(e['id'] == 'D57' and e.get('status') == 'known' for e in ctx.known)
    # native Python equality model for D57
    nat_reqs = ['\t'.join(['C09', 'nateq', 'n:' + wire(a), 'n:' + wire(b)]) for a, b in pairs]
    nat = {}
    for (a, b), r in zip(pairs, ctx.driver.batch(nat_reqs)):
        nat[(key_of(a), key_of(b))] = parse_kv(r).get('impl')
    truth = {}
    for (o, a, b), r in zip(meta, resp):
        d = parse_kv(r)
        impl, spec = d['impl'], d['spec']
        fn = xl.FUNCTIONS[OPS[o]]
        for route in ('typed', 'native'):
            if route == 'typed':
                real = call_real(fn, typed(a), typed(b))
            else:
                real = call_real(fn, a, b)
            res.evaluations += 1
            res.count(f'{route}:{o}')
            if spec != '-':
                res.nontrivial.add((o, key_of(a), key_of(b)))
            inp = {'op': o, 'left': repr(a), 'right': repr(b), 'route': route}
            res.sample({**inp, 'real': real, 'spec': spec})
            if route == 'typed':
                truth[(o, key_of(a), key_of(b))] = real
            if spec == '-':
                if real.startswith('X:') and real != impl:
                    res.drift.append({**inp, 'impl_model': impl, 'real': real})
                continue
            if real == spec:
                if real != impl:
                    res.drift.append({**inp, 'impl_model': impl, 'real': real})
                continue
            # real fails the statement
            if route == 'native' and o in ('EQ', 'NE') and kf57:
                want = nat[(key_of(a), key_of(b))]
                if o == 'NE' and want in ('B:0', 'B:1'):
                    want = 'B:1' if want == 'B:0' else 'B:0'
                if real == want:
                    res.known.setdefault('D57', []).append(inp)
                    continue
            res.violations.append({'what': f'{OPS[o]} ({route} operands) disagrees with the total order',
                                   'input': inp, 'expected': spec, 'got': real})
    # formulas: operands come from cells, so they are typed by the evaluator
    step = 1 if ctx.tier == 'thorough' or ctx.widen else 3
    fvals = [v for v in vals if not isinstance(v, datetime.datetime)]
    fpairs = list(itertools.product(fvals, repeat=2))[::step]
    blank_pairs = [(a, b) for a in fvals for b in fvals if a is None or b is None]
    jobs = [(a, b, 'absent') for a, b in fpairs]
    # a blank operand spelt three ways: a cell the model does not hold (above), an empty cell the compiler
    # registered because a formula elsewhere refers to a range over it, a cell emptied with set_cell_value(…, None)
    jobs += [(a, b, how) for a, b in blank_pairs for how in ('in-range', 'emptied')]
    for a, b, how in jobs:
        cells, later = {}, {}
        for addr, v in (('Sheet1!A1', a), ('Sheet1!B1', b)):
            if v == '' and isinstance(v, str):
                later[addr] = v      # read_and_parse_dict indexes value[0]; set empty text afterwards
            elif v is not None:
                cells[addr] = v
            elif how == 'emptied':
                cells[addr] = 7
                later[addr] = None
        for i, o in enumerate(OPS):
            cells[f'Sheet1!C{i + 1}'] = f'=A1{SYM[o]}B1'
        if how == 'in-range':
            cells['Sheet1!D1'] = '=COUNTA(A1:B1)'
        try:
            model = ModelCompiler().read_and_parse_dict(cells)
            for addr, v in later.items():
                model.set_cell_value(addr, v)
            ev = Evaluator(model)
            if how == 'in-range':
                ev.evaluate('Sheet1!D1')
        except Exception as exc:  # noqa: BLE001
            res.violations.append({'what': 'model with comparison formulas does not compile',
                                   'input': {'cells': repr(cells)}, 'expected': 'a model', 'got': repr(exc)})
            continue
        for i, o in enumerate(OPS):
            got = call_real(ev.evaluate, f'Sheet1!C{i + 1}')
            want = truth[(o, key_of(a), key_of(b))]
            res.evaluations += 1
            res.count(f'formula:{o}' + ('' if how == 'absent' else ':blank-' + how))
            if got != want:
                res.violations.append({'what': f'formula {SYM[o]} differs from the typed library call',
                                       'input': {'op': o, 'left': repr(a), 'right': repr(b), 'route': 'formula',
                                                 'blank': how, 'cells': repr(cells)},
                                       'expected': want, 'got': got})
    # (a2) LITERAL operands (round-8 seed C09-10: constants cached process-wide by their SPELLING, so the text literal
    # "2.50" met after the number literal 2.50 was that number).  Number, text and logical literals with IDENTICAL
    # spellings, every ordered pair, every operator; the reference is the typed library call on the values the literals
    # denote; run in this process in generated order and in fresh interpreters in both orders of first appearance
    lits = [('1', 1), ('0', 0), ('2.50', 2.5), ('10', 10), ('5', 5), ('1.0', 1.0), ('1E1', 10.0),
            ('"1"', '1'), ('"0"', '0'), ('"2.50"', '2.50'), ('"10"', '10'), ('"5"', '5'), ('"1.0"', '1.0'), ('"1E1"', '1E1'),
            ('TRUE', True), ('FALSE', False), ('"TRUE"', 'TRUE'), ('"FALSE"', 'FALSE'), ('"abc"', 'abc'), ('""', '')]
    lit_jobs = []
    for (sa, va), (sb, vb) in itertools.product(lits, repeat=2):
        for o in OPS:
            want = call_real(xl.FUNCTIONS[OPS[o]], typed(va), typed(vb))
            lit_jobs.append((f'={sa}{SYM[o]}{sb}', want))
    ctx.rng.shuffle(lit_jobs)

    def lit_eval(jobs):
        out = []
        for k in range(0, len(jobs), 200):
            chunk = jobs[k:k + 200]
            cells = {f'Sheet1!A{i + 1}': f for i, (f, _w) in enumerate(chunk)}
            m = ModelCompiler().read_and_parse_dict(cells)
            e = Evaluator(m)
            out += [call_real(e.evaluate, f'Sheet1!A{i + 1}') for i in range(len(chunk))]
        return out

    def lit_judge(jobs, gots, where):
        for (f, want), got in zip(jobs, gots):
            res.evaluations += 1
            res.count('literal:' + where)
            res.nontrivial.add(('literal', f))
            if got != want:
                res.violations.append({'what': 'a comparison of LITERAL operands differs from the typed library call on the values '
                                               f'the literals denote ({where})',
                                       'input': {'formula': f, 'route': 'literal', 'where': where},
                                       'expected': want, 'got': got})
    lit_judge(lit_jobs, lit_eval(lit_jobs), 'this process, generated order')
    import json as _json
    import os as _os
    import subprocess as _sp
    import sys as _sys
    code = ('import sys, json\n'
            f'sys.path.insert(0, {str(common.REPO)!r}); sys.path.insert(0, {_os.path.dirname(_os.path.dirname(_os.path.abspath(__file__)))!r})\n'
            'import common\nfrom common import call_real\n'
            'from xlcalculator import ModelCompiler, Evaluator\n'
            'jobs = json.loads(sys.stdin.read())\nout = []\n'
            'for k in range(0, len(jobs), 200):\n'
            '    chunk = jobs[k:k + 200]\n'
            '    cells = {f"Sheet1!A{i + 1}": f for i, f in enumerate(chunk)}\n'
            '    e = Evaluator(ModelCompiler().read_and_parse_dict(cells))\n'
            '    out += [call_real(e.evaluate, f"Sheet1!A{i + 1}") for i in range(len(chunk))]\n'
            'print(json.dumps(out))\n')
    for where, order in (('fresh interpreter, generated order', lit_jobs),
                         ('fresh interpreter, reverse order', lit_jobs[::-1]),
                         ('fresh interpreter, text-first order', sorted(lit_jobs, key=lambda j: (not j[0].startswith('="'), j[0])))):
        pr = _sp.run([_sys.executable, '-c', code], input=_json.dumps([f for f, _w in order]), stdout=_sp.PIPE,
                     stderr=_sp.DEVNULL, text=True, timeout=600)
        try:
            gots = _json.loads(pr.stdout)
        except Exception:  # noqa: BLE001
            raise RuntimeError(f'C09 literal route: the child ({where}) gave no result')
        lit_judge(order, gots, where)

    # (b) moments of ONE day and texts mixing ASCII with non-ASCII letters: the order is decided by the time of day /
    # by the case-insensitive letters whatever class of text the other operand is.  (Across days a time of day is
    # known finding D45 of C18: the fraction is scaled wrongly; within one day the order of the fractions is what counts.)
    dd = datetime.datetime
    moments = [dd(2021, 3, 14), dd(2021, 3, 14, 6, 0), dd(2021, 3, 14, 18, 0), dd(2021, 3, 14, 18, 0, 1),
               dd(2021, 3, 14, 23, 59, 59)]
    mixed = ['café', 'dog', 'Müller', 'nash', 'señor', 'TABLE', 'apé', 'Zoo', 'zoë', 'apple', 'CAFÉ', 'Cafe', 'cafe',
             'ÉCOLE', 'ecole', 'eagle', 'Éa', 'ea', 'naïve', 'NAIVE', 'naive', 'ñu', 'nu', 'Nz']

    def ci_key(t):      # reference: case-insensitive comparison letter by letter (no expanding characters in the pool)
        return [ord(c.upper()) if len(c.upper()) == 1 else ord(c) for c in t]

    def ref(o, ka, kb):
        return 'B:1' if {'EQ': ka == kb, 'NE': ka != kb, 'LT': ka < kb, 'GT': ka > kb, 'LE': ka <= kb, 'GE': ka >= kb}[o] else 'B:0'
    for group, keyf in ((moments, lambda v: v), (mixed, ci_key)):
        for a, b in itertools.product(group, repeat=2):
            cells = {'Sheet1!A1': 0, 'Sheet1!B1': 0}
            for i, o in enumerate(OPS):
                cells[f'Sheet1!C{i + 1}'] = f'=A1{SYM[o]}B1'
            try:
                model = ModelCompiler().read_and_parse_dict(cells)      # (a datetime cannot be given in the dict)
                model.set_cell_value('Sheet1!A1', a)
                model.set_cell_value('Sheet1!B1', b)
                ev = Evaluator(model)
            except Exception as exc:  # noqa: BLE001
                res.violations.append({'what': 'model does not compile', 'input': {'cells': repr(cells)}, 'expected': 'a model',
                                       'got': repr(exc)})
                continue
            for i, o in enumerate(OPS):
                want = ref(o, keyf(a), keyf(b))
                for route, got in (('typed', call_real(xl.FUNCTIONS[OPS[o]], typed(a), typed(b))),
                                   ('formula', call_real(ev.evaluate, f'Sheet1!C{i + 1}'))):
                    res.evaluations += 1
                    res.count('same-day-moments' if group is moments else 'mixed-ascii-texts')
                    res.nontrivial.add(('grp', o, repr(a), repr(b), route))
                    if got != want:
                        res.violations.append({'what': f'{OPS[o]} disagrees with the total order '
                                                       + ('(moments of one day order by their time)' if group is moments
                                                          else '(texts compare case-insensitively)'),
                                               'input': {'op': o, 'left': repr(a), 'right': repr(b), 'route': route},
                                               'expected': want, 'got': got})
    # operands that are RESULTS of functions returning native Python values (COUNT, MAX, ISBLANK…): the
    # comparison must still follow the one order (TRUE is not 1), inside one formula and across cells (D64)
    producers = {'COUNT(1)': 1, 'COUNT(1,2)': 2, 'COUNTA(Z9)': 0, 'MAX(1,2)': 2, 'MIN(0,5)': 0, 'ISBLANK(Z9)': True,
                 'ISNUMBER("x")': False, 'ISTEXT("x")': True, 'LEN("ab")': 2, 'ISODD(11)': True}
    for (fa, va), (fb, vb) in itertools.product(producers.items(), repeat=2):
        for i, o in enumerate(OPS):
            want = truth[(o, key_of(va), key_of(vb))] if (o, key_of(va), key_of(vb)) in truth else None
            if want is None:
                req = '\t'.join(['C09', 'op', o, wire(va), wire(vb)])
                want = parse_kv(ctx.driver.batch([req])[0])['spec']
            cells = {'Sheet1!A1': f'={fa}', 'Sheet1!B1': f'={fb}', 'Sheet1!C1': f'={fa}{SYM[o]}{fb}',
                     'Sheet1!C2': f'=A1{SYM[o]}B1'}
            try:
                ev = Evaluator(ModelCompiler().read_and_parse_dict(cells))
            except Exception as exc:  # noqa: BLE001
                res.violations.append({'what': 'model does not compile', 'input': {'cells': cells}, 'expected': 'a model',
                                       'got': repr(exc)})
                continue
            for addr in ('Sheet1!C1', 'Sheet1!C2'):
                got = call_real(ev.evaluate, addr)
                res.evaluations += 1
                res.count('formula-over-function-results')
                res.nontrivial.add(('fnres', o, fa, fb, addr))
                if want != '-' and got != want:
                    res.violations.append({'what': f'comparison {SYM[o]} of function results disagrees with the total order',
                                           'input': {'cells': cells, 'cell': addr}, 'expected': want, 'got': got})
    # transitivity on the real code over triples (thorough: all; quick: sampled)
    nb = [v for v in vals if v is not None]
    lt = {(key_of(a), key_of(b)) for a in nb for b in nb if truth[('LT', key_of(a), key_of(b))] == 'B:1'}
    triples = itertools.product(nb, repeat=3)
    if not (ctx.tier == 'thorough' or ctx.widen):
        triples = (t for i, t in enumerate(triples) if i % 7 == 0)
    nt = 0
    for a, b, c in triples:
        nt += 1
        if (key_of(a), key_of(b)) in lt and (key_of(b), key_of(c)) in lt and (key_of(a), key_of(c)) not in lt:
            res.violations.append({'what': '< is not transitive on the real code',
                                   'input': {'a': repr(a), 'b': repr(b), 'c': repr(c)},
                                   'expected': 'a<c', 'got': 'a<b, b<c, not a<c'})
    res.evaluations += nt
    res.count('triples', nt)
    if res.drift:
        res.notes.append(f'{len(res.drift)} model/implementation differences where the code still meets Spec')
    return res
