"""C10 — IF / AND / OR / NOT select lazily and follow Excel's truth rules (DESIGN.md §4 C10).

Observable: (value or failure, call log of a SPY function registered in the evaluator's namespace).
SPY(k, x) logs k and then calls its lazily passed argument; formula cells other than the entry cell are wrapped
in SPY(1000+index, …), so the log is the trace of everything that was evaluated.
"""
import itertools
import signal
import sys

import os
HERE = os.path.dirname(os.path.abspath(__file__))
if os.path.dirname(HERE) not in sys.path:
    sys.path.insert(0, os.path.dirname(HERE))
import common  # noqa: E402
from common import Result, parse_kv, same_value  # noqa: E402
import evalwire
from evalwire import cp

LEVEL_TEXT = (
    'Lean theorems over the bodies of logical.py on thunks (arbitrary state transformers that may return, raise, '
    'diverge or close a cycle), for ALL conditions, branches, argument lists and states: if_selects / if_omitted '
    '(TRUE, non-zero -> a; FALSE, zero, blank -> b; omitted b -> FALSE; error -> the error), if_lazy / if_trace / '
    'iff_unselected / iff_trace (result, final state and trace are independent of the unselected branch; trace = '
    'trace c ++ trace selected), and_or_shape / and_or_lazy / and_or_error / verdict_junction (left to right, stop '
    'at the first non-neutral argument, an error anywhere in an evaluated argument is the result, otherwise the '
    'conjunction / disjunction of the non-blank elements), not_spec, refinement of the Spec combinators '
    '(if_refines, and_or_refines, not_refines) and the embedding into the shared evaluator model (evalFx_iff, '
    'evalSc_eq, SCs_eq_SC, evalSc_eq_SC, evalFx_sc, evalLx_andor_fx: Fx.sc of the evaluator model IS the AND / OR '
    'body for scalar AND range arguments; evalEntry_fx). Tied to the code by formulas evaluated with a spy function: all truth '
    'assignments of TRUE, FALSE, 0, 1, 2.5, -1, blank to <= 4 cells, all argument counts 1..5 of AND/OR with '
    'ranges and blanks, poisoned branches (unknown function, 1/0, self reference, raising cell, spy), random '
    'nestings; (value, spy log) against the Spec interpreter and exactly against the model.')
LEVEL_NOTE = (
    'Trusted: Lean kernel (propext, Classical.choice, Quot.sound); the hand-written models (Model/C10.lean for '
    'logical.py + FunctionNode thunk wrapping, Model/Evaluator.lean for cell evaluation; validated by '
    'correspondence, not proved equal to the Python); strict operators inside the generated formulas are an '
    'uninterpreted parameter of the Spec interpreter. Text and array conditions are outside the statement.')
DESIGN_REF = '§4 C10'

# theorems of the integrated pipeline model (Props/X01.lean) that carry this property's theorems to formula TEXTS in a
# compiled workbook; re-built and audited with this check (harness/common.prepare: soft obligations)
TRANSPORT = ('XlVerif.Props.X01', ['X01_IF_lazy_tree', 'X01_IF_lazy_partial'])
TRUSTED = [
    'Lean 4.33 kernel; axioms propext, Classical.choice, Quot.sound only',
    'hand-written model lean/XlVerif/Model/C10.lean of logical.py and of the Expr thunks of FunctionNode.eval, '
    'and the shared evaluator model, tied to the code by this correspondence run',
    'the SPY function registered in the evaluator namespace observes calls faithfully (it is decorated like the '
    'library\'s own functions: validate_args with an XlExpr parameter)',
]
ASSUMPTIONS = [
    'conditions are logical / numeric / blank / error values; text, date and array conditions are outside the '
    'statement (compared with the model only)',
    'AND()/OR() without arguments (#NULL! as coded) is outside the statement',
    'inside one formula every formula cell is referenced at most once (the per-formula memo of eval_cell belongs '
    'to C04/C05); constant cells are referenced freely',
    'which exception a poisoned selected branch raises is not constrained here (C06/C07): only that it fails',
]

ENTRY = 'Sheet1!A1'
S1 = 'Sheet1'
TRUTH_VALUES = [True, False, 0, 1, 2.5, -1, None]      # None = blank (no such cell)
MAGNITUDES = [5e-324, 1e-300, 1e-20, 4e-16, -2.5e-17, -1e-15, 1e-9, 1e300, -1e300, 0.0, -0.0]
NA = ('err', '#N/A')
DIV0 = ('err', '#DIV/0!')


# ------------------------------------------------------------------------------ expressions: text and wire

def lit(v):
    return ('lit', v)


def ref(a):
    return ('ref', f'{S1}!{a}' if '!' not in a else a)


def rng(k):
    return ('rng', f'{S1}!{k}' if '!' not in k else k)


def render(e):
    k = e[0]
    if k in ('lit', 'ref', 'rng'):
        return evalwire.render(e, S1)
    if k == 'app':
        f, args = e[1], e[2]
        if f in evalwire.INFIX:
            return '(' + render(args[0]) + evalwire.INFIX[f] + render(args[1]) + ')'
        return evalwire.FN[f] + '(' + ','.join(render(a) for a in args) + ')'
    if k == 'if3':
        return f'IF({render(e[1])},{render(e[2])},{render(e[3])})'
    if k == 'if2':
        return f'IF({render(e[1])},{render(e[2])})'
    if k == 'if1':
        return f'IF({render(e[1])})'
    if k in ('and', 'or'):
        return k.upper() + '(' + ','.join(render(a) for a in e[1]) + ')'
    if k == 'not':
        return f'NOT({render(e[1])})'
    if k == 'spy':
        return f'SPY({e[1]},{render(e[2])})'
    if k == 'fail':
        return 'NOSUCHFN(' + ','.join(render(a) for a in e[1]) + ')'
    raise ValueError(e)


def wire(e):
    k = e[0]
    if k in ('lit', 'ref', 'rng'):
        return evalwire.wire_fx(e)
    if k == 'app':
        return f'[ app {e[1]} ' + ' '.join(wire(a) for a in e[2]) + ' ]'
    if k in ('if3', 'if2', 'if1'):
        return f'[ {k} ' + ' '.join(wire(a) for a in e[1:]) + ' ]'
    if k in ('and', 'or'):
        return f'[ {k} ' + ' '.join(wire(a) for a in e[1]) + (' ]' if e[1] else ']')
    if k == 'not':
        return f'[ not {wire(e[1])} ]'
    if k == 'spy':
        return f'[ spy {e[1]} {wire(e[2])} ]'
    if k == 'fail':
        return '[ fail 20 ' + ' '.join(wire(a) for a in e[1]) + (' ]' if e[1] else ']')
    raise ValueError(e)


def ranges_in(e, acc):
    k = e[0]
    if k == 'rng':
        acc.add(e[1])
    elif k == 'app':
        for a in e[2]:
            ranges_in(a, acc)
    elif k in ('if3', 'if2', 'if1'):
        for a in e[1:]:
            ranges_in(a, acc)
    elif k in ('and', 'or', 'fail'):
        for a in e[1]:
            ranges_in(a, acc)
    elif k == 'not':
        ranges_in(e[1], acc)
    elif k == 'spy':
        ranges_in(e[2], acc)
    return acc


_ROWS = {}


def rows_of(key):
    if key not in _ROWS:
        _ROWS[key] = evalwire.range_matrix(key)
    return _ROWS[key]


class Case:
    """consts: {addr: value}; spies: list of (addr, evalwire-fx) formula cells wrapped in SPY(1000+index, …);
    expr: the entry formula"""

    def __init__(self, tag, consts, spies, expr, keep_blank=False):
        self.tag, self.consts, self.spies, self.expr = tag, consts, spies, expr
        # keep_blank: a blank input is a cell WITH the value None (as after set_cell_value(addr, None)), so that the
        # cell order — and with it the SPY ids of the formula cells — is the same for every assignment of a history
        self.keep_blank = keep_blank

    def build(self):
        real, cells = {}, []
        order = []
        self.later = {}
        for a, v in self.consts.items():
            if v is None:
                if self.keep_blank:
                    cells.append(f'{cp(a)}~c~Z')
                    order.append(a)
                continue
            if v == '' and isinstance(v, str):
                self.later[a] = v          # an explicit empty text: model.set_cell_value after compilation
            else:
                real[a] = v
            cells.append(f'{cp(a)}~c~{evalwire.wire_scalar(v)}')
            order.append(a)
        ranges = ranges_in(self.expr, set())
        for a, fx in self.spies:
            idx = len(order)
            text = f'=SPY({1000 + idx},{evalwire.render(fx, S1)})'
            real[a] = text
            cells.append(f'{cp(a)}~f~{len(text)}~{evalwire.wire_fx(fx)}')
            order.append(a)
            evalwire.ranges_of(fx, ranges)
        rw = []
        for key in sorted(ranges):
            rows = rows_of(key)
            rw.append(cp(key) + '~' + ';'.join(','.join(cp(x) for x in row) for row in rows))
            for row in rows:
                for x in row:
                    if x not in order and x != ENTRY:
                        order.append(x)
                        cells.append(f'{cp(x)}~c~Z')         # build_ranges creates XLCell(addr, None): BLANK
        text = '=' + render(self.expr)
        real[ENTRY] = text
        self.real = real
        self.text = text
        self.line = '\t'.join(['C10', 'eval', '5000', '|'.join(cells), '|'.join(rw), '', cp(ENTRY), str(len(text)),
                               wire(self.expr)])
        return self


# ------------------------------------------------------------------------------ real side

class Real:
    def __init__(self):
        from xlcalculator.xlfunctions import xl, func_xltypes
        self.log = []
        log = self.log

        @xl.validate_args
        def SPY(k: func_xltypes.XlNumber, v: func_xltypes.XlExpr):
            log.append(int(k))
            return v()

        self.ns = {**xl.FUNCTIONS, 'SPY': SPY}
        self.xl = xl
        self.ft = func_xltypes

    def run(self, case):
        from xlcalculator import ModelCompiler, Evaluator
        model = ModelCompiler().read_and_parse_dict(case.real, default_sheet=S1)
        for a, v in getattr(case, 'later', {}).items():
            model.set_cell_value(a, v)
        ev = Evaluator(model, namespace=self.ns)
        del self.log[:]
        out = evalwire.canon_result(ev.evaluate, ENTRY)
        return out, list(self.log)


    def run_history(self, steps):
        """ONE model and ONE evaluator; step i>0 sets the inputs of step i with set_cell_value, then evaluates"""
        from xlcalculator import ModelCompiler, Evaluator
        model = ModelCompiler().read_and_parse_dict(steps[0].real, default_sheet=S1)
        ev = Evaluator(model, namespace=self.ns)
        outs = []
        for i, c in enumerate(steps):
            if i:
                for a, v in c.consts.items():
                    ev.set_cell_value(a, v)
            del self.log[:]
            out = evalwire.canon_result(ev.evaluate, ENTRY)
            outs.append((out, list(self.log)))
        return outs


class History:
    """the same workbook evaluated on one evaluator under a sequence of truth assignments"""

    def __init__(self, tag, spies, expr, assignments_):
        self.tag = tag
        self.steps = [Case(tag, consts_of(vals), spies, expr, keep_blank=True).build() for vals in assignments_]


# ------------------------------------------------------------------------------ generators

def spyw(k, e):
    return ('spy', k, e)


def assignments(n, values=TRUTH_VALUES):
    return itertools.product(values, repeat=n)


def consts_of(vals):
    return {f'{S1}!B{i + 1}': v for i, v in enumerate(vals)}


B = [ref(f'B{i}') for i in range(1, 6)]


def exhaustive_cases(thorough):
    """shapes x all truth assignments"""
    cases = []
    s1, s2 = spyw(1, lit(10)), spyw(2, lit(20))
    shapes1 = [
        ('if3', lambda: ('if3', B[0], s1, s2)),
        ('if2', lambda: ('if2', B[0], s1)),
        ('if1', lambda: ('if1', B[0])),
        ('not', lambda: ('not', B[0])),
        ('if-not', lambda: ('if3', ('not', B[0]), s1, s2)),
        ('if3-poison-else', lambda: ('if3', B[0], s1, ('fail', [lit(1)]))),
        ('if3-poison-then', lambda: ('if3', B[0], ('fail', []), s2)),
        ('if3-self-else', lambda: ('if3', B[0], s1, ref('A1'))),
        ('if3-div0-else', lambda: ('if3', B[0], s1, ('app', 3, [lit(1), lit(0)]))),
        ('if2-d25', lambda: ('if2', B[0], lit(5))),
        ('and1', lambda: ('and', [spyw(1, B[0])])),
        ('or1', lambda: ('or', [spyw(1, B[0])])),
        ('if-cmp', lambda: ('if3', ('app', 10, [B[0], lit(1)]), s1, s2)),
    ]
    for tag, mk in shapes1:
        for vals in assignments(1):
            cases.append(Case(tag, consts_of(vals), [], mk()))
    shapes2 = [
        ('and2', lambda: ('and', [spyw(1, B[0]), spyw(2, B[1])])),
        ('or2', lambda: ('or', [spyw(1, B[0]), spyw(2, B[1])])),
        ('if-and2', lambda: ('if3', ('and', [spyw(3, B[0]), spyw(4, B[1])]), s1, s2)),
        ('if-or2', lambda: ('if3', ('or', [spyw(3, B[0]), spyw(4, B[1])]), s1, s2)),
        ('and-range2', lambda: ('and', [rng('B1:B2'), spyw(1, lit(True))])),
        ('or-range2', lambda: ('or', [rng('B1:B2'), spyw(1, lit(False))])),
        ('and-poison2', lambda: ('and', [B[0], spyw(1, B[1]), ('fail', [])])),
        ('or-poison2', lambda: ('or', [B[0], spyw(1, B[1]), ref('A1')])),
    ]
    for tag, mk in shapes2:
        for vals in assignments(2):
            cases.append(Case(tag, consts_of(vals), [], mk()))
    shapes3 = [
        ('and3', lambda: ('and', [spyw(1, B[0]), spyw(2, B[1]), spyw(3, B[2])])),
        ('or3', lambda: ('or', [spyw(1, B[0]), spyw(2, B[1]), spyw(3, B[2])])),
        ('if-nested', lambda: ('if3', ('if3', B[0], B[1], B[2]), s1, s2)),
        ('if-branch-if', lambda: ('if3', B[0], ('if3', B[1], s1, s2), ('if2', B[2], spyw(3, lit(30))))),
        ('and-or', lambda: ('and', [spyw(1, B[0]), ('or', [spyw(2, B[1]), spyw(3, B[2])])])),
        ('or-and-not', lambda: ('or', [('not', spyw(1, B[0])), ('and', [spyw(2, B[1]), spyw(3, B[2])])])),
        ('and-range3', lambda: ('and', [spyw(1, rng('B1:B3')), spyw(2, lit(True))])),
        ('or-range3', lambda: ('or', [spyw(1, rng('B1:B3')), spyw(2, lit(True))])),
    ]
    # numbers are TRUE exactly when non-zero, whatever their magnitude: denormals, values below any "noise"
    # threshold, huge values — as cell values, as literals of the formula, and as range members
    for tag, mk in shapes1:
        for v in MAGNITUDES:
            cases.append(Case(tag + '-magnitude', consts_of((v,)), [], mk()))
    for tag, mk in shapes2:
        for v in MAGNITUDES:
            for other in (False, 0, True, None):
                cases.append(Case(tag + '-magnitude', consts_of((v, other)), [], mk()))
                cases.append(Case(tag + '-magnitude', consts_of((other, v)), [], mk()))
    for v in MAGNITUDES:
        cases.append(Case('if3-literal-magnitude', {}, [], ('if3', lit(v), s1, s2)))
        cases.append(Case('not-literal-magnitude', {}, [], ('not', lit(v))))
        cases.append(Case('and-literal-magnitude', {}, [], ('and', [spyw(1, lit(v)), spyw(2, lit(True))])))
        cases.append(Case('or-literal-magnitude', {}, [], ('or', [spyw(1, lit(v)), spyw(2, lit(False))])))
    # long runs of blank cells INSIDE a range, up to the longest run RangeNode.eval still reads completely
    # (MAX_EMPTY = 100; longer runs are known finding D6 of C03): the deciding element behind the run counts
    import openpyxl.utils as _ou
    for k in (1, 37, 99, 100):
        for shape in ('row', 'col'):
            if shape == 'row':
                first, last = 'B7', f'{_ou.get_column_letter(k + 3)}7'
            else:
                first, last = 'B7', f'B{k + 8}'
            R = f'{first}:{last}'
            for a, b in ((True, False), (0, 7), (True, True), (False, False), (1, 0)):
                consts = {f'{S1}!{first}': a, f'{S1}!{last}': b}
                for tag, mk in (('and', lambda: ('and', [rng(R), spyw(1, lit(True))])),
                                ('or', lambda: ('or', [rng(R), spyw(1, lit(False))])),
                                ('if-and', lambda: ('if3', ('and', [rng(R)]), s1, s2)),
                                ('not-or', lambda: ('not', ('or', [rng(R)])))):
                    cases.append(Case(f'{tag}-blank-run-{shape}-{k}', dict(consts), [], mk()))
    # explicit empty-text cells (set_cell_value(addr, '')) next to blanks and never-set range members
    withempty = TRUTH_VALUES + ['']
    for tag, mk in shapes1[:5] + shapes1[10:12]:
        cases.append(Case(tag + '-emptytext', consts_of(('',)), [], mk()))
    for tag, mk in shapes2:
        for vals in assignments(2, withempty):
            if '' in vals:
                cases.append(Case(tag + '-emptytext', consts_of(vals), [], mk()))
    vals3 = TRUTH_VALUES if thorough else [True, False, 0, 2.5, None]
    for tag, mk in shapes3:
        for vals in assignments(3, vals3):
            cases.append(Case(tag, consts_of(vals), [], mk()))
    shapes4 = [
        ('and4', lambda: ('and', [spyw(1, B[0]), spyw(2, B[1]), spyw(3, B[2]), spyw(4, B[3])])),
        ('or4', lambda: ('or', [spyw(1, B[0]), spyw(2, B[1]), spyw(3, B[2]), spyw(4, B[3])])),
        ('and5-range', lambda: ('and', [spyw(1, B[0]), spyw(2, B[1]), spyw(3, rng('B3:B4')), spyw(4, lit(1)),
                                        spyw(5, B[0])])),
        ('or5-range', lambda: ('or', [spyw(1, B[0]), spyw(2, rng('B2:B3')), spyw(3, B[3]), spyw(4, lit(0)),
                                      spyw(5, B[1])])),
        ('if-and-range4', lambda: ('if3', ('and', [rng('B1:B4')]), s1, s2)),
        ('if-or-range4', lambda: ('if3', ('or', [rng('B1:B2'), rng('B3:B4')]), s1, s2)),
    ]
    vals4 = TRUTH_VALUES if thorough else [True, False, 0, 2.5, None]
    for tag, mk in shapes4:
        for vals in assignments(4, vals4):
            cases.append(Case(tag, consts_of(vals), [], mk()))
    return cases


def error_cases():
    """errors as conditions / arguments (D17) and inside ranges at every position (D1001)"""
    cases = []
    s1, s2 = spyw(1, lit(10)), spyw(2, lit(20))
    for err in (NA, DIV0):
        e = lit(err)
        cases.append(Case('if-error-cond', {}, [], ('if3', e, s1, s2)))
        cases.append(Case('if2-error-cond', {}, [], ('if2', e, s1)))
        cases.append(Case('not-error', {}, [], ('not', e)))
        for isand in ('and', 'or'):
            for other in (True, False, 1, 0):
                cases.append(Case(f'{isand}-error-second', {}, [], (isand, [spyw(1, lit(other)), e, spyw(2, lit(True))])))
                cases.append(Case(f'{isand}-error-first', {}, [], (isand, [e, spyw(1, lit(other))])))
    div = ('app', 3, [lit(1), lit(0)])
    cases.append(Case('if-div0-cond', {}, [], ('if3', div, s1, s2)))
    cases.append(Case('and-div0', {}, [], ('and', [lit(True), div])))
    # a range B1:B3 with an error cell (a formula cell =1/0) at each position, the others from the truth values
    for pos in range(3):
        for others in itertools.product([True, False, 1, 0, None], repeat=2):
            vals = list(others)
            consts = {}
            spies = []
            k = 0
            for i in range(3):
                a = f'{S1}!B{i + 1}'
                if i == pos:
                    spies.append((a, ('app', 3, [('lit', 1), ('lit', 0)])))
                else:
                    consts[a] = vals[k]
                    k += 1
            for isand in ('and', 'or'):
                cases.append(Case(f'{isand}-range-error-at-{pos}', dict(consts), list(spies),
                                  (isand, [rng('B1:B3'), spyw(1, lit(True))])))
    return cases


POISONS = {
    'unknown': lambda: ('fail', [lit(1)]),
    'unknown-noargs': lambda: ('fail', []),
    'self': lambda: ref('A1'),
    'self-in-sum': lambda: ('app', 0, [ref('A1'), lit(1)]),
    'raising-cell': lambda: ref('C1'),       # C1 = SPY(…, NOSUCHFN())
    'cycle-cell': lambda: ref('C2'),         # C2 = SPY(…, A1): closes a cycle through the entry cell
    'self-range': lambda: ('app', 4, [rng('A1:A3')]),   # SUM over a range that contains the entry cell
}


def history_cases(rng_, thorough):
    """poisoned shapes over SEQUENCES of truth assignments on one evaluator: poisoned branch selected (the evaluation
    fails / reports a cycle / yields an error value), then the healthy one, and healthy -> poisoned -> healthy"""
    hs = []
    spies = [(f'{S1}!C1', ('fail', [])), (f'{S1}!C2', ('ref', ENTRY))]
    good = spyw(1, lit(10))
    seqs1 = [[False, True], [True, False], [True, False, True], [False, True, False], [0, 2.5], [None, 1, 0],
             [2.5, None, True], [False, 2.5, False, -1]]
    for pname, mk in list(POISONS.items()) + [('div0', lambda: ('app', 3, [lit(1), lit(0)]))]:
        shapes = [
            ('else', ('if3', B[0], good, mk())),
            ('then', ('if3', B[0], mk(), good)),
            ('if2', ('if2', B[0], mk())),
            ('and-after', ('and', [spyw(1, B[0]), mk()])),
            ('or-after', ('or', [spyw(1, B[0]), mk()])),
            ('nested', ('if3', ('or', [B[0], lit(False)]), ('if3', lit(False), mk(), good), mk())),
            ('not', ('if3', ('not', B[0]), mk(), spyw(2, lit(20)))),
        ]
        for sname, expr in shapes:
            for seq in seqs1:
                hs.append(History(f'hist-{sname}:{pname}', spies, expr, [(v,) for v in seq]))
        two = ('if3', ('or', [B[0], ('not', B[1])]), good, mk())
        for seq in ([(False, True), (True, True), (False, True)], [(0, 1), (0, 0)], [(None, 2.5), (None, None), (1, 1)]):
            hs.append(History(f'hist-two:{pname}', spies, two, seq))
    # random formulas under three random assignments
    for c in random_cases(rng_, 3000 if thorough else 250):
        seq = [tuple(rng_.choice(TRUTH_VALUES) for _ in range(4)) for _ in range(3)]
        hs.append(History('hist-random', c.spies, c.expr, seq))
    return hs


def poison_cases():
    """every lazy position poisoned: unselected => no effect; selected => the evaluation fails"""
    cases = []
    spies = [(f'{S1}!C1', ('fail', [])), (f'{S1}!C2', ('ref', ENTRY))]
    good = spyw(1, lit(10))
    for pname, mk in POISONS.items():
        for cond in (True, False, 1, 0, None):
            consts = {f'{S1}!B1': cond}
            cases.append(Case(f'poison-else:{pname}', consts, spies, ('if3', B[0], good, mk())))
            cases.append(Case(f'poison-then:{pname}', consts, spies, ('if3', B[0], mk(), good)))
            cases.append(Case(f'poison-if2:{pname}', consts, spies, ('if2', B[0], mk())))
            cases.append(Case(f'poison-and-after:{pname}', consts, spies, ('and', [spyw(1, B[0]), mk()])))
            cases.append(Case(f'poison-or-after:{pname}', consts, spies, ('or', [spyw(1, B[0]), mk()])))
            cases.append(Case(f'poison-and-before:{pname}', consts, spies, ('and', [mk(), spyw(1, B[0])])))
            cases.append(Case(f'poison-nested:{pname}', consts, spies,
                              ('if3', ('or', [B[0], lit(False)]), ('if3', lit(False), mk(), good), mk())))
    return cases


def random_expr(rng_, depth, env):
    """env: dict with lists 'consts' (refs), 'spycells' (unused refs), counter for inline spies"""
    r = rng_.random()
    if depth <= 0 or r < 0.22:
        k = rng_.randrange(8)
        if k <= 2 and env['consts']:
            return rng_.choice(env['consts'])
        if k == 3 and env['spycells']:
            return env['spycells'].pop()
        if k == 4:
            return lit(rng_.choice([True, False]))
        if k == 5:
            return lit(rng_.choice([0, 1, 2, 7]))
        if k == 6 and rng_.random() < 0.5:
            return rng_.choice([('fail', []), ref('A1'), ('app', 3, [lit(1), lit(0)]), lit(NA)])
        return lit(rng_.choice([True, False, 0, 3]))
    k = rng_.randrange(10)
    sub = lambda: random_expr(rng_, depth - 1, env)   # noqa: E731
    if k <= 2:
        return ('if3', sub(), sub(), sub())
    if k == 3:
        return ('if2', sub(), sub())
    if k in (4, 5):
        n = rng_.randint(1, 4)
        args = [sub() for _ in range(n)]
        if rng_.random() < 0.25 and env['ranges']:
            args.insert(rng_.randrange(len(args) + 1), rng_.choice(env['ranges']))
        return (rng_.choice(['and', 'or']), args)
    if k == 6:
        return ('not', sub())
    if k == 7:
        env['spy'] += 1
        return spyw(env['spy'], sub())
    if k == 8:
        return ('app', rng_.choice([0, 6, 10]), [sub(), sub()])
    env['spy'] += 1
    return spyw(env['spy'], sub())


def random_cases(rng_, n):
    cases = []
    for i in range(n):
        vals = [rng_.choice(TRUTH_VALUES) for _ in range(4)]
        consts = consts_of(vals)
        spy_fx = [
            ('lit', rng_.choice([True, False, 0, 5])),
            ('ref', f'{S1}!B{rng_.randint(1, 4)}'),
            ('if', ('ref', f'{S1}!B{rng_.randint(1, 4)}'), ('lit', 1), ('lit', 2)),
            rng_.choice([('fail', []), ('app', 3, [('lit', 1), ('lit', 0)]), ('ref', ENTRY),
                         ('and', [('ref', f'{S1}!B1'), ('ref', f'{S1}!B2')]),
                         ('or', [('ref', f'{S1}!B3'), ('lit', False)])]),
        ]
        spies = [(f'{S1}!C{j + 1}', fx) for j, fx in enumerate(spy_fx)]
        env = {'consts': B[:4], 'spycells': [ref(f'C{j + 1}') for j in range(4)], 'spy': 0,
               'ranges': [rng('B1:B2'), rng('B2:B4'), rng('B1:B4')]}
        rng_.shuffle(env['spycells'])
        expr = random_expr(rng_, rng_.randint(1, 4), env)
        if expr[0] in ('lit', 'ref', 'rng'):
            expr = ('if3', expr, spyw(1, lit(1)), spyw(2, lit(2)))
        cases.append(Case('random', consts, spies, expr))
    return cases


def range_sc_cases(thorough):
    """AND / OR with RANGE arguments and no SPY call in the entry formula: such a formula is expressible in the shared
    evaluator model (`Lx.toFx?` = some: `Fx.sc` flattens its evaluated arguments), so the driver evaluates it a second
    time through `Evaluator.evaluate` / `evalSc` (impl2, log2).  Laziness stays observable: the arguments after the
    range are formula cells wrapped in SPY(1000+index, …) (C1, C2), logged by both sides when they are evaluated."""
    cases = []
    spies = [(f'{S1}!C1', ('lit', True)), (f'{S1}!C2', ('lit', False)), (f'{S1}!C3', ('fail', []))]
    c1, c2, c3 = ref('C1'), ref('C2'), ref('C3')
    shapes3 = [
        ('and-range3-fx', lambda: ('and', [rng('B1:B3'), c1])),
        ('or-range3-fx', lambda: ('or', [rng('B1:B3'), c2])),
        ('and-range3-poison-fx', lambda: ('and', [c1, rng('B1:B3'), c3])),
        ('or-range3-poison-fx', lambda: ('or', [c2, rng('B1:B3'), ref('A1')])),
        ('if-and-range3-fx', lambda: ('if3', ('and', [rng('B1:B2'), B[2]]), c1, c2)),
        ('not-or-range3-fx', lambda: ('not', ('or', [B[0], rng('B2:B3')]))),
    ]
    vals3 = TRUTH_VALUES + [''] if thorough else [True, False, 0, 2.5, None, '']
    for tag, mk in shapes3:
        for vals in assignments(3, vals3):
            cases.append(Case(tag, consts_of(vals), list(spies), mk()))
    shapes4 = [
        ('and-range4-fx', lambda: ('and', [rng('B1:B4'), c1])),
        ('or-2ranges-fx', lambda: ('or', [rng('B1:B2'), rng('B3:B4'), c2])),
        ('and-or-range4-fx', lambda: ('and', [('or', [rng('B1:B2'), c2]), rng('B3:B4'), c1])),
    ]
    vals4 = TRUTH_VALUES if thorough else [True, False, 0, None]
    for tag, mk in shapes4:
        for vals in assignments(4, vals4):
            cases.append(Case(tag, consts_of(vals), list(spies), mk()))
    # an error cell (=1/0, a formula cell) at every position of the range, also AFTER a deciding item (D1001)
    for pos in range(3):
        for others in itertools.product([True, False, 1, 0, None], repeat=2):
            consts, sp, k = {}, [], 0
            for i in range(3):
                a = f'{S1}!B{i + 1}'
                if i == pos:
                    sp.append((a, ('app', 3, [('lit', 1), ('lit', 0)])))
                else:
                    consts[a] = others[k]
                    k += 1
            sp.append((f'{S1}!C1', ('lit', True)))
            for isand in ('and', 'or'):
                cases.append(Case(f'{isand}-range-error-at-{pos}-fx', dict(consts), list(sp), (isand, [rng('B1:B3'), c1])))
                cases.append(Case(f'{isand}-range-error-at-{pos}-second-fx', dict(consts), list(sp),
                                  (isand, [lit(isand == 'and'), rng('B1:B3'), c1])))
    return cases


def has_range_sc(e):
    """an AND / OR node with a range among its direct arguments"""
    k = e[0]
    if k in ('and', 'or'):
        return any(a[0] == 'rng' for a in e[1]) or any(has_range_sc(a) for a in e[1])
    if k == 'app':
        return any(has_range_sc(a) for a in e[2])
    if k in ('if3', 'if2', 'if1'):
        return any(has_range_sc(a) for a in e[1:])
    if k == 'fail':
        return any(has_range_sc(a) for a in e[1])
    if k == 'not':
        return has_range_sc(e[1])
    if k == 'spy':
        return has_range_sc(e[2])
    return False


# ------------------------------------------------------------------------------ direct calls of the bodies

def twin_sheet_cases(res):
    """the SAME formula text on two (three) sheets over unqualified references that hold different values on each sheet,
    evaluated in both orders on one model: every copy follows the truth rules on its OWN sheet's cells.
    Reference: the statement's rules, computed here for logical / numeric / blank cells."""
    from xlcalculator import ModelCompiler, Evaluator

    def truth(v):
        return None if v is None else bool(v)

    def AND(vs):
        ts = [truth(v) for v in vs if v is not None]
        return all(ts)

    def OR(vs):
        ts = [truth(v) for v in vs if v is not None]
        return any(ts)
    forms = [('=AND(A1:A3)', lambda c: AND([c['A1'], c['A2'], c['A3']])),
             ('=OR(B1:B3)', lambda c: OR([c['B1'], c['B2'], c['B3']])),
             ('=IF(AND(A1:A3),"all","some")', lambda c: 'all' if AND([c['A1'], c['A2'], c['A3']]) else 'some'),
             ('=NOT(OR(B1:B3))', lambda c: not OR([c['B1'], c['B2'], c['B3']])),
             ('=AND(A1,B1)', lambda c: AND([c['A1'], c['B1']])),
             ('=IF(A1,B2,A3)', lambda c: c['B2'] if truth(c['A1']) else c['A3']),      # a blank branch value stays blank
             ('=OR(A1:B3,FALSE)', lambda c: OR([c[k] for k in ('A1', 'B1', 'A2', 'B2', 'A3', 'B3')]))]
    sheets = {'Sheet1': {'A1': True, 'A2': 1, 'A3': True, 'B1': False, 'B2': 0, 'B3': False},
              'Other': {'A1': True, 'A2': 0, 'A3': True, 'B1': False, 'B2': 3, 'B3': False},
              'Sheet1 (2)': {'A1': 2.5, 'A2': None, 'A3': -1, 'B1': None, 'B2': None, 'B3': 0}}
    for order in (['Sheet1', 'Other', 'Sheet1 (2)'], ['Sheet1 (2)', 'Other', 'Sheet1'], ['Other', 'Sheet1', 'Sheet1 (2)']):
        cells = {}
        for sh in order:                    # dict order = compile order
            for a, v in sheets[sh].items():
                if v is not None:
                    cells[f'{sh}!{a}'] = v
            for i, (f, _r) in enumerate(forms):
                cells[f'{sh}!D{i + 1}'] = f
        try:
            ev = Evaluator(ModelCompiler().read_and_parse_dict(cells, default_sheet=order[0]))
        except Exception as exc:  # noqa: BLE001
            res.violations.append({'what': 'a workbook with the same formula text on several sheets does not compile',
                                   'input': {'cells': cells}, 'expected': 'a model', 'got': repr(exc)})
            continue
        for sh in order:
            for i, (f, r) in enumerate(forms):
                got = common.call_real(ev.evaluate, f'{sh}!D{i + 1}')
                wv = r(sheets[sh])
                want = common.canon(wv)
                res.evaluations += 1
                res.count('twin-sheets')
                res.nontrivial.add(('twin', tuple(order), sh, f))
                if not common.same_value(got, want):
                    res.violations.append({'what': 'the same formula text on another sheet does not follow the truth rules on its own cells',
                                           'input': {'sheet': sh, 'formula': f, 'cells of the sheet': {k: repr(v) for k, v in sheets[sh].items()},
                                                     'compile order': order}, 'expected': want, 'got': got})


def direct_cases(real, res, ctx):
    """the function objects called directly with Expr thunks that log themselves (no evaluator involved)"""
    ft, xl = real.ft, real.xl
    lines, expect = [], []
    vals = [True, False, 0, 1, 2.5, -1, None]

    def thunk(k, v, log):
        def f():
            log.append(k)
            return ft.ExcelType.cast_from_native(v) if v is not None else ft.BLANK
        return ft.Expr(f)

    def w(v):
        return ('lit', v) if v is not None else ('ref', f'{S1}!Z9')

    shapes = []
    for c in vals:
        shapes.append(('IF', [c, 10, 20], lambda a: ('if3',) + tuple(a)))
        shapes.append(('IF', [c, 10], lambda a: ('if2',) + tuple(a)))
        shapes.append(('NOT', [c], lambda a: ('not', a[0])))
    for n in (1, 2, 3):
        for combo in itertools.product([True, False, 0, 2.5, None], repeat=n):
            shapes.append(('AND', list(combo), lambda a: ('and', list(a))))
            shapes.append(('OR', list(combo), lambda a: ('or', list(a))))
    for fn, args, mk in shapes:
        log = []
        th = [thunk(i + 1, v, log) for i, v in enumerate(args)]
        out = common.call_real(xl.FUNCTIONS[fn], *th)
        expr = mk([spyw(i + 1, w(v)) for i, v in enumerate(args)])
        case = Case('direct:' + fn, {}, [], expr).build()
        lines.append(case.line)
        expect.append((fn, args, out, list(log)))
    resp = ctx.driver.batch(lines)
    for (fn, args, out, log), r in zip(expect, resp):
        d = parse_kv(r)
        res.evaluations += 1
        res.count('direct:' + fn)
        slog = [int(x) for x in d['slog'].split(',') if x]
        if d['spec'] in ('UNDEF',):
            continue
        if not same_value(out, d['spec']) or log != slog:
            res.violations.append({'what': f'{fn} called directly with thunks disagrees with the reference semantics',
                                   'input': {'fn': fn, 'args': [repr(a) for a in args]},
                                   'expected': {'value': d['spec'], 'calls': slog}, 'got': {'value': out, 'calls': log}})


# ------------------------------------------------------------------------------ run

class Watchdog(Exception):
    pass


# ------------------------------------------------------------------------------ fresh interpreters

WARMUPS = [
    ('nothing', []),
    ('IF with 2 arguments', ['=IF(B1,5)']),
    ('IF with 3 arguments', ['=IF(B1,5,6)']),
    ('IF with 1 argument', ['=IF(B1)']),
    ('AND / OR with 1 argument', ['=AND(B1)', '=OR(B1)']),
    ('AND / OR with 4 arguments, NOT', ['=AND(B1,B1,B1,B1)', '=OR(B1,B1,B1,B1)', '=NOT(B1)']),
    ('empty AND / OR', ['=AND()', '=OR()']),
    ('a failing IF', ['=IF(NOSUCHFN(1),1,2)']),
    ('reverse order', None),
]


def child_main():
    """fresh interpreter: evaluate the warm-up formulas, then the cases, print [[outcome, spy log], …]"""
    import json
    job = json.loads(sys.stdin.read())
    real = Real()

    class C:
        pass
    for text in job['warm']:
        c = C()
        c.real, c.later = {ENTRY: text, 'Sheet1!B1': True}, {}
        try:
            real.run(c)
        except BaseException:  # noqa: BLE001  (the warm-up only has to HAPPEN)
            pass
    out = []
    for d in job['cases']:
        c = C()
        c.real, c.later = d['real'], d['later']
        o, log = real.run(c)
        out.append([o, log])
    sys.stdout.write(json.dumps(out))


def fresh_process_cases(outcomes, res, ctx):
    """Round-7 seed C10-10 (a process-wide cache of a function's lazy parameters filled from the FIRST call's bound
    arguments: after a 2-argument IF every 3-argument IF evaluated its else branch eagerly).  What a formula evaluates
    to, and which of its arguments are evaluated, must not depend on which IF / AND / OR call the interpreter happened
    to see first: a sample of the cases judged above (their outcome in THIS process met Spec) is re-evaluated in fresh
    interpreters after different first calls, and in reverse order; every outcome and spy log must be the same."""
    import json
    import os
    import subprocess
    pool = [(c, o, l) for c, o, l in outcomes if getattr(c, 'real', None) and ('SPY(' in c.text or 'NOSUCHFN' in c.text)]
    thorough = ctx.tier == 'thorough' or ctx.widen
    want = 1500 if thorough else 350
    stride = max(1, len(pool) // want)
    sample = pool[ctx.rng.randrange(stride)::stride][:want + 50]
    # always include shapes where an UNSELECTED branch would be visible at once
    extra = []
    for text, consts in (('=IF(B1,SPY(1,5),SPY(2,1/B2))', {'Sheet1!B1': True, 'Sheet1!B2': 0}),
                         ('=IF(B1,SPY(1,1/B2),SPY(2,7))', {'Sheet1!B1': False, 'Sheet1!B2': 0}),
                         ('=IF(B1,SPY(1,5))', {'Sheet1!B1': False}),
                         ('=IF(B1,SPY(1,5),NOSUCHFN(1))', {'Sheet1!B1': True}),
                         ('=AND(B1,SPY(1,1/B2))', {'Sheet1!B1': False, 'Sheet1!B2': 0}),
                         ('=OR(B1,SPY(1,1/B2))', {'Sheet1!B1': True, 'Sheet1!B2': 0}),
                         ('=AND(B1,B1,B1,SPY(1,B2))', {'Sheet1!B1': True, 'Sheet1!B2': False})):
        class C:
            pass
        c = C()
        c.real, c.later, c.text = {ENTRY: text, **consts}, {}, text
        extra.append(c)
    real = Real()
    items = [(c.real, getattr(c, 'later', {}), c.text, o, l) for c, o, l in sample]
    for c in extra:
        o, l = real.run(c)
        items.append((c.real, {}, c.text, o, l))
    procs = []
    env = dict(os.environ)
    for label, warm in WARMUPS:
        order = list(range(len(items)))
        if warm is None:
            order.reverse()
            warm = []
        job = {'warm': warm, 'cases': [{'real': items[i][0], 'later': items[i][1]} for i in order]}
        p = subprocess.Popen([sys.executable, os.path.abspath(__file__), '--child'], stdin=subprocess.PIPE,
                             stdout=subprocess.PIPE, stderr=subprocess.DEVNULL, env=env, text=True)
        procs.append((label, warm, order, p, json.dumps(job)))
    import threading
    results = {}

    def feed(label, p, data):
        try:
            results[label] = p.communicate(data, timeout=600)[0]
        except Exception:  # noqa: BLE001
            p.kill()
            results[label] = None
    threads = [threading.Thread(target=feed, args=(label, p, data)) for label, _w, _o, p, data in procs]
    for t in threads:
        t.start()
    for t in threads:
        t.join()
    for label, warm, order, p, _data in procs:
        raw = results.get(label)
        try:
            outs = json.loads(raw)
        except Exception:  # noqa: BLE001
            raise RuntimeError(f'C10 fresh-process route: the child for warm-up {label!r} gave no result')
        for i, (o, log) in zip(order, outs):
            cells, later, text, want_o, want_log = items[i]
            res.evaluations += 1
            res.count('fresh-process:' + label)
            if len(log) < text.count('SPY('):
                res.nontrivial.add(('fresh', label, text, json.dumps(cells, sort_keys=True, default=str)))
            if (o, log) != (want_o, list(want_log)) and not (same_value(o, want_o) and log == list(want_log)):
                res.violations.append({
                    'what': 'the outcome / the arguments evaluated depend on what the interpreter evaluated FIRST: in a fresh '
                            f'process, after the first call(s) {warm or label}, the formula does not behave as in the '
                            'process where it met the reference (a lazily selected branch evaluated eagerly, or order)',
                    'input': {'cells': cells, 'later': later, 'entry': ENTRY, 'fresh_process_first_calls': warm,
                              'order': label},
                    'expected': {'value': want_o, 'spy_log': list(want_log)},
                    'got': {'value': o, 'spy_log': log, 'formula': text}})



def fresh_replay(inp, d, res):
    """replay of a fresh-process violation: the formula in a new interpreter after the recorded first calls, against
    the recorded reference outcome"""
    import json
    import os
    import subprocess
    job = {'warm': inp['fresh_process_first_calls'], 'cases': [{'real': inp['cells'], 'later': inp.get('later', {})}]}
    p = subprocess.run([sys.executable, os.path.abspath(__file__), '--child'], input=json.dumps(job),
                       stdout=subprocess.PIPE, stderr=subprocess.DEVNULL, text=True, timeout=600)
    o, log = json.loads(p.stdout)[0]
    want = d['expected']
    res.evaluations += 1
    print(f'replay (fresh process, first calls {job["warm"]}): {inp["cells"]} -> {o} log={log}; reference={want}')
    if not (same_value(o, want['value']) and log == list(want['spy_log'])):
        res.violations.append({'what': d.get('what', 'fresh-process outcome differs'), 'input': inp, 'expected': want,
                               'got': {'value': o, 'spy_log': log}})
    return res


def run(ctx):
    res = Result()
    thorough = ctx.tier == 'thorough' or ctx.widen
    res.rule = ('entry formulas over IF (3, 2 and 1 arguments), AND, OR (1..5 arguments, ranges, blanks), NOT, comparison '
                'and arithmetic, with a SPY function in branches / arguments and formula cells wrapped in SPY: (a) 35 shapes x '
                'ALL assignments of TRUE, FALSE, 0, 1, 2.5, -1, blank to the 1..4 referenced cells (quick: 5 values for 3 and '
                '4 cells), (b) errors as condition / argument and at every position of a range, (c) every lazy position '
                'poisoned by an unknown function, a self reference, a raising cell, a cell closing a cycle, for every '
                'condition value, (d) random nestings of depth <= 4 over random assignments, (e) the function objects '
                'called directly with logging thunks, (f) 9 spy-free shapes of AND / OR with RANGE arguments (x all assignments '
                'incl. empty text; an error cell at every position of the range) which are ALSO evaluated through the shared '
                'evaluator model (Fx.sc flattens its arguments; formula cells C1..C3 make laziness visible in the log), '
                '(g) HISTORIES on ONE Evaluator: the poisoned shapes (and random formulas) under sequences of 2-4 truth '
                'assignments set with set_cell_value — poisoned branch selected, then the healthy one; healthy, poisoned, '
                'healthy — judged per step by Spec on the current inputs. '
                'Observable (value | failure, spy log) vs Spec.C10.eval and vs the model '
                '(exactly, including message lengths). non-trivial = distinct (formula, assignment) in which some spy, poison '
                'or argument is NOT evaluated (lazy selection visible) or the result is an error / failure')
    real = Real()
    cases = []
    cases += error_cases()
    cases += poison_cases()
    cases += exhaustive_cases(thorough)
    cases += range_sc_cases(thorough)
    cases += random_cases(ctx.rng, 60000 if thorough else 2500)
    if ctx.replay:
        import json
        d = json.loads(open(common.VERIF / ctx.replay if not str(ctx.replay).startswith('/') else ctx.replay).read())
        inp = d['input']
        if 'fresh_process_first_calls' in inp:
            return fresh_replay(inp, d, res)
        c = Case('replay', {}, [], None)
        c.real, c.text, c.line = inp['cells'], inp['cells'][ENTRY], inp['line']
        c.later = inp.get('later', {})
        # never-set range members are BLANK placeholders (XLCell(addr, None)); only explicit '' cells are empty text
        # (replays written before /repo b6c2c71 carry `T:` for the placeholders)
        f = c.line.split('\t')
        f[3] = '|'.join(w[:-2] + 'Z' if w.endswith('~c~T:') and evalwire.un_cp(w.split('~')[0]) not in c.later else w
                        for w in f[3].split('|'))
        c.line = '\t'.join(f)
        c.replay_history = inp.get('history')
        if c.replay_history is not None:
            c.consts = inp.get('consts', {})
        cases = [c]
    else:
        for c in cases:
            c.build()
    lines = [c.line for c in cases]
    resp = ctx.driver.batch(lines)

    def alarm(_s, _f):
        raise Watchdog('an evaluation did not return within 60 s (C06 territory): infrastructure stop')

    def judge(c, r, out, log, hist=None):
        if True:
            d = parse_kv(r)
            if 'impl' not in d:
                raise RuntimeError(f'driver: {r!r} for {c.line[:400]!r}')
            res.evaluations += 1
            res.count('shape:' + c.tag.split(':')[0])
            cls = 'failure' if out.startswith('X:') else 'error' if out.startswith('E:') else 'value'
            res.count('outcome:' + cls)
            spec, slog = d['spec'], [int(x) for x in d['slog'].split(',') if x]
            mlog = [int(x) for x in d['log'].split(',') if x]
            inp = {'cells': c.real, 'entry': ENTRY, 'line': c.line, 'later': getattr(c, 'later', {})}
            if hist is not None:
                inp['history'] = hist       # the inputs set on the SAME evaluator before this evaluation
                inp['consts'] = dict(c.consts)
            text = render(c.expr) if c.expr else c.text
            nspy = text.count('SPY(') + sum(1 for a in c.real if a != ENTRY and str(c.real[a]).startswith('=SPY'))
            if len(slog) < nspy or cls != 'value' or 'NOSUCHFN' in text:
                res.nontrivial.add(c.line)
            if ctx.replay:
                print(f'replay: {c.real} -> {out} log={log}; spec={spec} slog={slog}; model={d["impl"]} log={mlog}')
            bad = None
            if spec == 'UNDEF':
                res.count('outside-domain')
            elif spec == 'FAIL':
                if cls != 'failure':
                    bad = 'a poisoned argument that is selected / evaluated must make the evaluation fail'
                elif log != slog:
                    bad = 'the spy log differs from the reference evaluation order'
            else:
                if cls == 'failure':
                    bad = 'the evaluation fails although no selected argument fails (an unselected one was evaluated?)'
                elif not same_value(out, spec):
                    bad = 'wrong value (truth rules / selection)'
                elif log != slog:
                    bad = 'the spy log differs: an unselected branch / a short-circuited argument was evaluated, or order'
            if bad and hist is not None:
                bad += ' — on a REUSED evaluator, after the evaluations under the earlier assignments of the history'
            if bad:
                res.violations.append({'what': bad, 'input': inp, 'expected': {'value': spec, 'spy_log': slog},
                                       'got': {'value': out, 'spy_log': log, 'formula': c.text}})
            else:
                same = (out == d['impl'] or (cls != 'failure' and same_value(out, d['impl']))) and log == mlog
                if not same:
                    res.drift.append({'formula': c.text, 'cells': c.real, 'model': [d['impl'], mlog], 'real': [out, log]})
                if d['impl2'] != '-' and (d['impl2'] != d['impl'] or d['log2'] != d['log']):
                    res.drift.append({'formula': c.text, 'cells': c.real, 'what': 'Model.C10 vs shared evaluator model',
                                      'model': [d['impl'], d['log']], 'shared': [d['impl2'], d['log2']]})
                if d['impl2'] != '-':
                    res.count('also-through-Fx.iff/Fx.sc')
                    if c.expr and has_range_sc(c.expr):
                        res.count('range-argument-through-Fx.sc')
            if res.evaluations % 499 == 7:
                res.sample({'formula': c.text, 'cells': {k: v for k, v in c.real.items() if k != ENTRY}, 'real': out,
                            'spy_log': log, 'spec': spec, 'spec_log': slog, 'model': d['impl']})

    outcomes = []
    old = signal.signal(signal.SIGALRM, alarm)
    try:
        for c, r in zip(cases, resp):
            signal.alarm(60)
            if getattr(c, 'replay_history', None) is not None:
                # replay of a history step: the earlier assignments are evaluated first on the same evaluator
                steps = []
                for consts in c.replay_history + [c.consts]:
                    st = Case('replay', consts, [], None)
                    st.real = {a: v for a, v in c.real.items() if a not in c.consts}
                    st.real.update({a: v for a, v in consts.items() if v is not None})
                    steps.append(st)
                out, log = real.run_history(steps)[-1]
            else:
                out, log = real.run(c)
            signal.alarm(0)
            outcomes.append((c, out, log))
            judge(c, r, out, log, hist=getattr(c, 'replay_history', None))
        if not ctx.replay:
            # histories: ONE evaluator over a sequence of truth assignments; per step the oracle is Spec on the
            # CURRENT inputs (theorem reused_eq_fresh: what a new evaluator would compute)
            hists = history_cases(ctx.rng, thorough)
            hresp = ctx.driver.batch([c.line for h in hists for c in h.steps])
            k = 0
            for h in hists:
                signal.alarm(60)
                outs = real.run_history(h.steps)
                signal.alarm(0)
                seen = []
                for c, (out, log) in zip(h.steps, outs):
                    judge(c, hresp[k], out, log, hist=list(seen))
                    seen.append({a: v for a, v in c.consts.items()})
                    k += 1
                res.count('histories')
    finally:
        signal.alarm(0)
        signal.signal(signal.SIGALRM, old)
    if not ctx.replay:
        direct_cases(real, res, ctx)
        twin_sheet_cases(res)
        fresh_process_cases(outcomes, res, ctx)
    res.exhaustive = True
    if res.drift:
        res.notes.append(f'{len(res.drift)} model/implementation differences where the code still meets Spec')
    return res


if __name__ == '__main__' and len(sys.argv) > 1 and sys.argv[1] == '--child':
    child_main()
