"""C11 — a workbook file loads into a model with the same cells and formulas (DESIGN.md §4 C11).

The harness writes real .xlsx packages from raw XML (every SpreadsheetML storage form), loads them with
ModelCompiler().read_and_parse_archive(path, ignore_sheets=…) for every subset of ignored sheets, and
compares the loaded model with (a) the reference semantics `Spec.C11` (cells, contents, names, cached values
— the property), (b) the Lean model `Model.C11.load` of the same abstract workbook (all four dicts, the
back-links and get_cell_value — model validation / recognition of listed findings), (c) a model built
directly from the same contents with read_and_parse_dict (evaluation, code vs code) and (d) values the
harness computes itself for the generated formulas.
"""
import itertools
import json
import logging
import os
import tempfile
import warnings
import zipfile
from fractions import Fraction
from xml.sax.saxutils import escape, quoteattr

import common
from common import Result, parse_kv, canon, same_value

LEVEL_TEXT = (
    'Lean theorems, for every abstract workbook (sheets x stored cells in any SpreadsheetML storage form, '
    'shared-string table, defined names) and every ignore list, over a statement-by-statement model of '
    'reader.py / patch.py / model.py (parse_archive, build_defined_names, link_cells_to_defined_names, '
    'build_ranges, get_cell_value) / xltypes.py / utils.py: load_cells (the key set = stored cells of the '
    'sheets not ignored + blank placeholders for members of referenced areas), load_content / '
    'load_refines_spec (constant or formula text + cached result per storage form = Spec), shared_expands, '
    'names_bound and names_bound_spec_partial (binding = Spec; apostrophes, "$" and "!" in sheet names '
    'included), cached_before_eval, ignored_sheets_contribute_nothing, address injectivity, load_total. The '
    'model is tied to the running code by loading real .xlsx packages written from raw XML (every storage '
    'form, every subset of ignored sheets) and comparing all four dicts of the model; the clause "evaluates '
    'like a model built from the same contents" is checked code against code and against values computed '
    'by the harness.')
LEVEL_NOTE = (
    'The theorems are about the mapping AFTER openpyxl\'s contract: XML parsing, value typing per storage '
    'form, the shared-formula translator, range_boundaries, the SHEET_TITLE regex and the tokenizer\'s area '
    'operands are hand-modelled (tied by the correspondence on generated workbooks only), not verified. '
    'The evaluation clause (load = dict) is not a theorem; it is tested. Partial: names_bound_spec_partial '
    '(guard: sheet name without ":", ",", edge blanks or a leading apostrophe; kernel-checked counter-example '
    'for an edge blank in Props/C11.lean). load_total has no guard on sheet names; its only hypothesis excludes '
    'area names with reversed corners. D1101, D1102 (this property) and D0301, D0302 are repaired in /repo and '
    'are ordinary violations if they return; regression workbooks are in corpus/C11.')
DESIGN_REF = '§4 C11'

TRUSTED = [
    'Lean 4.33 kernel; axioms propext, Classical.choice, Quot.sound only',
    'hand-written model lean/XlVerif/Model/C11.lean of reader.py, patch.py, model.py (loader part), xltypes.py, '
    'utils.py, tied to the code by this correspondence run (not proved equal to the Python)',
    'openpyxl 3.1.5 is modelled, not verified: XML -> cells, value typing per storage form (parse_cell), the '
    'shared-formula table and Translator.translate_formula (modelled by a reference scanner; the theorems '
    'assume the scanner reads the formula tokens back, which the driver checks for every generated formula '
    'and scan_reads_back proves for well-separated tokens), get_column_letter, range_boundaries, SHEET_TITLE',
    'the tokenizer\'s RANGE operands (XLFormula.terms) are modelled for area references only; '
    'associated_cells is not modelled',
    'the .xlsx writer and generators of this harness; zipfile; the evaluation clause is differential '
    '(loaded model vs read_and_parse_dict model with the same defined names vs values computed by the harness)',
]
ASSUMPTIONS = [
    'workbooks are well-formed SpreadsheetML: shared-string indices in range, one master per shared group '
    'preceding its members, translated references stay on the sheet, distinct sheet names and coordinates '
    '(the driver evaluates these hypotheses of the theorems on every generated workbook)',
    'defined names target one cell or one rectangular area on one sheet (constants, formulas, multi-area and '
    'whole-row/column targets are outside the statement); a name for a cell that is not loaded (empty, or on an '
    'ignored sheet) and hidden names are outside the statement; names are workbook-level names of every shape '
    'Excel accepts (first character a letter, "_" or "\\", then letters, digits, ".", "_", "?", "\\"; not a reference in A1 '
    'or R1C1 notation; up to 255 characters; no two differing by case only). Sheet-local names (localSheetId) '
    'and Excel\'s built-in _xlnm.* names are outside the domain: openpyxl turns the built-in ones into print '
    'settings / filters and never hands them over as defined names, and the model has one flat name space',
    'date-styled numbers (date and date-time formats) are serials >= 61 in the 1900 system, or >= 62 in the 1904 '
    'system (<workbookPr date1904="1"/>, 35 % of the workbooks), with a time part that is a multiple of 1/8 day; the '
    'expected datetime is computed by the harness from the serial and the epoch (the Lean model is sent the '
    'serial converted to the 1900 system: the epoch shift is part of the hand-modelled openpyxl contract)',
    'an empty <v/> with t="str" or t="e" (read as "no value" by openpyxl) is not generated',
    'placeholder cells that build_ranges adds for members of referenced areas are allowed by the statement as '
    'long as they are empty (no value, no formula)',
    'sheet names contain no "," and no blank at either end (observed while building the check, not modelled: a '
    '"," splits area references at the comma, edge blanks are stripped by resolve_sheet — both make references '
    'into such sheets read blank); formulas use upper-case references and no whole-row/column areas',
    'the spelling of XLRange.address_str, model.formulae, model.ranges, the back-links XLCell.defined_names and '
    'the placeholders are compared with the Lean model only (differences are reported as model drift)',
]

# ------------------------------------------------------------------------------------------ wire format


def enc_text(s):
    return 'e' if s == '' else '.'.join(str(ord(c)) for c in s)


def dec_text(w):
    return '' if w in ('e', '') else ''.join(chr(int(x)) for x in w.split('.'))


def enc_list(items):
    return '|'.join(items) if items else '-'


def enc_tok(t):
    if t[0] == 'C':
        return 'C%d_%d_%d_%d' % (int(t[1]), t[2], int(t[3]), t[4])
    if t[0] == 'X':
        return 'X' + enc_text(t[1])
    return 'L' + enc_text(t[1])           # 'L' literal and 'N' defined name both travel as literals


def enc_fform(f):
    if f is None:
        return '-'
    if f[0] == 'P':
        return '~'.join(['P'] + [enc_tok(t) for t in f[1]])
    if f[0] == 'M':
        return '~'.join(['M%d' % f[1]] + [enc_tok(t) for t in f[2]])
    return 'S%d' % f[1]


def enc_stored(st):
    k = st[0]
    if k == 'Z':
        return 'Z'
    if k in ('I', 'DI'):
        return '%s:%d' % (k, st[1])
    if k in ('F', 'DF'):
        q = Fraction(st[1])
        return '%s:%d/%d' % (k, q.numerator, q.denominator)
    if k == 'S':
        return 'S:%d' % st[1]
    if k == 'B':
        return 'B:%d' % int(st[1])
    return '%s:%s' % (k, enc_text(st[1]))          # R, L, E


def enc_cell(c):
    return ','.join([str(c['col']), str(c['row']), enc_fform(c['f']), enc_stored(c['st'])])


def enc_sheet(sh):
    return ';'.join([enc_text(sh['name'])] + [enc_cell(c) for c in sh['cells']])


def enc_name(d):
    t = d['target']
    if t[0] == 'R':
        tt = 'R:' + enc_text(t[1])
    else:
        tt = 'T:' + '_'.join([enc_text(t[1])] + [str(int(x)) for x in t[2:]])
    return ','.join([enc_text(d['name']), str(int(d['hidden'])), tt])


def request_line(wb, ignore):
    return '\t'.join(['C11', 'LOAD', enc_list([enc_text(s) for s in ignore]),
                      enc_list([enc_text(s) for s in wb['sst']]),
                      enc_list([enc_sheet(s) for s in wb['sheets']]),
                      enc_list([enc_name(d) for d in wb['names']])])


def dec_val(w):
    if w == 'Z':
        return ('Z',)
    k, body = w.split(':', 1)
    if k == 'I':
        return ('I', int(body))
    if k in ('F', 'D'):
        return (k, common.un_frac(body))
    if k == 'T':
        return ('T', dec_text(body))
    if k == 'B':
        return ('B', body == '1')
    raise RuntimeError('bad value ' + w)


def dec_rows(w):
    if w == '':
        return []
    return [[dec_text(a) for a in r[1:].split('~')] if r != 'r' else [] for r in w.split(';')]


def dec_range(fs):
    return (dec_text(fs[0]), dec_text(fs[1]), dec_text(fs[2]), dec_rows(fs[3]))


def split_entries(w):
    return [e.split(',') for e in w.split('|')] if w != '' else []


def dec_impl(w):
    if w.startswith('X:'):
        return {'crash': w[2:]}
    cells_w, formulae_w, names_w, ranges_w, gcv_w = w.split('#')
    cells = {}
    for fs in split_entries(cells_w):
        if fs[3] == '-':
            f = None
        else:
            a, b = fs[3].split(':')
            f = (dec_text(a), dec_text(b))
        cells[dec_text(fs[0])] = (dec_text(fs[1]), dec_val(fs[2]), f,
                                  [] if fs[4] == '-' else [dec_text(x) for x in fs[4].split('~')])
    formulae = {dec_text(fs[0]): (dec_text(fs[1]), dec_text(fs[2]),
                                  [] if fs[3] == '-' else sorted({dec_text(x) for x in fs[3].split('~')}))
                for fs in split_entries(formulae_w)}
    names = {}
    for fs in split_entries(names_w):
        names[dec_text(fs[0])] = ('C', dec_text(fs[2])) if fs[1] == 'C' else ('R',) + dec_range(fs[2:])
    ranges = {dec_text(fs[0]): dec_range(fs[1:]) for fs in split_entries(ranges_w)}
    gcv = {dec_text(fs[0]): dec_val(fs[1]) for fs in split_entries(gcv_w)}
    return {'cells': cells, 'formulae': formulae, 'names': names, 'ranges': ranges, 'gcv': gcv}


def dec_spec(w):
    cells_w, names_w = w.split('#')
    cells = [(dec_text(fs[0]), dec_val(fs[1]), None if fs[2] == '-' else dec_text(fs[2]))
             for fs in split_entries(cells_w)]
    names = []
    for fs in split_entries(names_w):
        n = dec_text(fs[0])
        if fs[1] == 'C':
            names.append((n, ('C', dec_text(fs[2]))))
        elif fs[1] == 'R':
            names.append((n, ('R', dec_text(fs[2]), dec_rows(fs[3]))))
        else:
            names.append((n, ('U',)))
    return {'cells': cells, 'names': names}


# ------------------------------------------------------------------------------------------ A1 notation

def col_name(n):
    s = ''
    while n > 0:
        n, r = divmod(n - 1, 26)
        s = chr(65 + r) + s
    return s


def ref_text(ac, col, ar, row):
    return ('$' if ac else '') + col_name(col) + ('$' if ar else '') + str(row)


def tok_text(t):
    if t[0] == 'C':
        return ref_text(t[1], t[2], t[3], t[4])
    if t[0] == 'X':
        return t[1] + '!'
    return t[1]


def render(toks):
    return ''.join(tok_text(t) for t in toks)


def shift_toks(toks, dc, dr):
    out = []
    for t in toks:
        if t[0] == 'C':
            out.append(['C', t[1], t[2] if t[1] else t[2] + dc, t[3], t[4] if t[3] else t[4] + dr])
        else:
            out.append(t)
    return out


def quote_sheet(name):
    return "'" + name.replace("'", "''") + "'"


def needs_quote(name):
    import re
    return re.fullmatch(r'[A-Za-z_][A-Za-z0-9_]*', name) is None


def target_text(t):
    if t[0] == 'R':
        return t[1]
    sheet, quoted = t[1], t[2]
    s = (quote_sheet(sheet) if quoted else sheet) + '!' + ref_text(t[3], t[4], t[5], t[6])
    if len(t) > 7:
        s += ':' + ref_text(t[7], t[8], t[9], t[10])
    return s


# ------------------------------------------------------------------------------------------ .xlsx writer

_CT = ('<?xml version="1.0" encoding="UTF-8" standalone="yes"?>\n'
       '<Types xmlns="http://schemas.openxmlformats.org/package/2006/content-types">'
       '<Default Extension="rels" ContentType="application/vnd.openxmlformats-package.relationships+xml"/>'
       '<Default Extension="xml" ContentType="application/xml"/>'
       '<Override PartName="/xl/workbook.xml" ContentType="application/vnd.openxmlformats-officedocument.'
       'spreadsheetml.sheet.main+xml"/>%s'
       '<Override PartName="/xl/sharedStrings.xml" ContentType="application/vnd.openxmlformats-officedocument.'
       'spreadsheetml.sharedStrings+xml"/>'
       '<Override PartName="/xl/styles.xml" ContentType="application/vnd.openxmlformats-officedocument.'
       'spreadsheetml.styles+xml"/></Types>')
_RELS = ('<?xml version="1.0" encoding="UTF-8" standalone="yes"?>\n'
         '<Relationships xmlns="http://schemas.openxmlformats.org/package/2006/relationships">'
         '<Relationship Id="rId1" Type="http://schemas.openxmlformats.org/officeDocument/2006/relationships/'
         'officeDocument" Target="xl/workbook.xml"/></Relationships>')
_STYLES = ('<?xml version="1.0" encoding="UTF-8" standalone="yes"?>\n'
           '<styleSheet xmlns="http://schemas.openxmlformats.org/spreadsheetml/2006/main">'
           '<fonts count="1"><font><sz val="11"/><name val="Calibri"/></font></fonts>'
           '<fills count="1"><fill><patternFill patternType="none"/></fill></fills>'
           '<borders count="1"><border/></borders>'
           '<cellStyleXfs count="1"><xf numFmtId="0" fontId="0" fillId="0" borderId="0"/></cellStyleXfs>'
           '<cellXfs count="3"><xf numFmtId="0" fontId="0" fillId="0" borderId="0" xfId="0"/>'
           '<xf numFmtId="22" fontId="0" fillId="0" borderId="0" xfId="0" applyNumberFormat="1"/>'
           '<xf numFmtId="14" fontId="0" fillId="0" borderId="0" xfId="0" applyNumberFormat="1"/></cellXfs>'
           '<cellStyles count="1"><cellStyle name="Normal" xfId="0" builtinId="0"/></cellStyles>'
           '</styleSheet>')
_NS = ('xmlns="http://schemas.openxmlformats.org/spreadsheetml/2006/main" '
       'xmlns:r="http://schemas.openxmlformats.org/officeDocument/2006/relationships"')
_WS_TYPE = 'http://schemas.openxmlformats.org/officeDocument/2006/relationships/worksheet'


def num_literal(kind, v):
    if kind in ('I', 'DI'):
        return str(int(v))
    s = repr(float(Fraction(v)))
    assert Fraction(float(s)) == Fraction(v) and ('.' in s or 'e' in s), s
    return s


def cell_xml(c, date1904=False):
    """One <c> element in the storage form of the abstract cell."""
    r = col_name(c['col']) + str(c['row'])
    st, f = c['st'], c['f']
    attrs, inner = '', ''
    k = st[0]
    if k == 'Z':
        if f is None:
            attrs = ' s="1"' if (c['col'] + c['row']) % 2 else ''        # a styled blank / a bare <c/>
    elif k in ('I', 'F'):
        attrs = ' t="n"' if (c['col'] + c['row']) % 3 == 0 else ''
        inner = '<v>%s</v>' % num_literal(k, st[1])
    elif k in ('DI', 'DF'):
        # date-formatted (s=2) or date-time-formatted (s=1); the abstract serial is in the 1900 system, the file
        # holds it in the workbook's own date system (1904: 1462 days less)
        attrs = ' s="%d"' % (1 + (c['col'] + c['row']) % 2)
        inner = '<v>%s</v>' % num_literal(k, Fraction(st[1]) - (1462 if date1904 else 0))
    elif k == 'S':
        attrs = ' t="s"'
        inner = '<v>%d</v>' % st[1]
    elif k == 'R':
        attrs = ' t="str"'
        inner = '<v>%s</v>' % escape(st[1])
    elif k == 'L':
        attrs = ' t="inlineStr"'
        inner = '<is><t xml:space="preserve">%s</t></is>' % escape(st[1])
    elif k == 'B':
        attrs = ' t="b"'
        inner = '<v>%d</v>' % int(st[1])
    elif k == 'E':
        attrs = ' t="e"'
        inner = '<v>%s</v>' % escape(st[1])
    fx = ''
    if f is not None:
        if f[0] == 'P':
            fx = '<f>%s</f>' % escape(render(f[1]))
        elif f[0] == 'M':
            fx = '<f t="shared" ref="%s" si="%d">%s</f>' % (c.get('ref', r), f[1], escape(render(f[2])))
        else:
            fx = '<f t="shared" si="%d"/>' % f[1]
    return '<c r="%s"%s>%s%s</c>' % (r, attrs, fx, inner)


def write_xlsx(path, wb):
    sheets = wb['sheets']
    with zipfile.ZipFile(path, 'w', zipfile.ZIP_DEFLATED) as z:
        ov = ''.join('<Override PartName="/xl/worksheets/sheet%d.xml" ContentType="application/vnd.'
                     'openxmlformats-officedocument.spreadsheetml.worksheet+xml"/>' % (i + 1)
                     for i in range(len(sheets)))
        z.writestr('[Content_Types].xml', _CT % ov)
        z.writestr('_rels/.rels', _RELS)
        sh = ''.join('<sheet name=%s sheetId="%d" r:id="rId%d"/>' % (quoteattr(s['name']), i + 1, i + 1)
                     for i, s in enumerate(sheets))
        dn = ''
        if wb['names']:
            dn = '<definedNames>' + ''.join(
                '<definedName name=%s%s>%s</definedName>' % (
                    quoteattr(d['name']), ' hidden="1"' if d['hidden'] else '', escape(target_text(d['target'])))
                for d in wb['names']) + '</definedNames>'
        z.writestr('xl/workbook.xml', '<?xml version="1.0" encoding="UTF-8" standalone="yes"?>\n'
                   '<workbook %s>%s<sheets>%s</sheets>%s</workbook>' % (
                       _NS, '<workbookPr date1904="1"/>' if wb.get('date1904') else '', sh, dn))
        n = len(sheets)
        rl = ''.join('<Relationship Id="rId%d" Type="%s" Target="worksheets/sheet%d.xml"/>' % (i + 1, _WS_TYPE, i + 1)
                     for i in range(n))
        rl += ('<Relationship Id="rId%d" Type="http://schemas.openxmlformats.org/officeDocument/2006/'
               'relationships/sharedStrings" Target="sharedStrings.xml"/>' % (n + 1))
        rl += ('<Relationship Id="rId%d" Type="http://schemas.openxmlformats.org/officeDocument/2006/'
               'relationships/styles" Target="styles.xml"/>' % (n + 2))
        z.writestr('xl/_rels/workbook.xml.rels', '<?xml version="1.0" encoding="UTF-8" standalone="yes"?>\n'
                   '<Relationships xmlns="http://schemas.openxmlformats.org/package/2006/relationships">%s'
                   '</Relationships>' % rl)
        for i, s in enumerate(sheets):
            rows = []
            for c in s['cells']:                       # document order = order of the abstract cells
                if rows and rows[-1][0] == c['row']:
                    rows[-1][1].append(cell_xml(c, wb.get('date1904', False)))
                else:
                    rows.append((c['row'], [cell_xml(c, wb.get('date1904', False))]))
            body = ''.join('<row r="%d">%s</row>' % (r, ''.join(cs)) for r, cs in rows)
            z.writestr('xl/worksheets/sheet%d.xml' % (i + 1),
                       '<?xml version="1.0" encoding="UTF-8" standalone="yes"?>\n'
                       '<worksheet %s><sheetData>%s</sheetData></worksheet>' % (_NS, body))
        sst = wb['sst']
        z.writestr('xl/sharedStrings.xml', '<?xml version="1.0" encoding="UTF-8" standalone="yes"?>\n'
                   '<sst xmlns="http://schemas.openxmlformats.org/spreadsheetml/2006/main" count="%d" '
                   'uniqueCount="%d">%s</sst>' % (
                       len(sst), len(sst),
                       ''.join('<si><t xml:space="preserve">%s</t></si>' % escape(s) for s in sst)))
        z.writestr('xl/styles.xml', _STYLES)


# ------------------------------------------------------------------------------------------ the real side

def py_val(v):
    import datetime
    if v is None:
        return ('Z',)
    if isinstance(v, bool):
        return ('B', v)
    if isinstance(v, int):
        return ('I', v)
    if isinstance(v, float):
        return ('F', Fraction(v))
    if isinstance(v, str):
        return ('T', v)
    if isinstance(v, datetime.datetime):
        return ('D', common.serial_of(v))
    return ('?', repr(v))


def real_model(model):
    from xlcalculator import xltypes
    cells = {}
    for k, c in model.cells.items():
        f = None if c.formula is None else (c.formula.formula, c.formula.sheet_name)
        cells[k] = (c.address, py_val(c.value), f, list(c.defined_names))
    formulae = {k: (f.formula, f.sheet_name, sorted({t for t in f.terms if ':' in t}))   # the area terms
                for k, f in model.formulae.items()}
    names = {}
    for k, d in model.defined_names.items():
        if isinstance(d, xltypes.XLCell):
            names[k] = ('C', d.address)
        elif isinstance(d, xltypes.XLRange):
            names[k] = ('R', d.address_str, d.name, d.sheet, [list(r) for r in d.cells])
        else:
            names[k] = ('?', repr(d))
    ranges = {k: (r.address_str, r.name, r.sheet, [list(x) for x in r.cells]) for k, r in model.ranges.items()}
    gcv = {k: py_val(model.get_cell_value(k)) for k in model.cells}
    return {'cells': cells, 'formulae': formulae, 'names': names, 'ranges': ranges, 'gcv': gcv}


def val_eq(a, b):
    """Equality of decoded values: same class and same payload (an int is not a float)."""
    return a == b


def load_real(path, ignore):
    from xlcalculator import ModelCompiler
    try:
        return ModelCompiler().read_and_parse_archive(path, ignore_sheets=list(ignore)), None
    except RecursionError:
        return None, 'RecursionError'
    except Exception as exc:  # noqa: BLE001
        return None, type(exc).__name__


# ------------------------------------------------------------------------------------------ own evaluation

class Unknown(Exception):
    pass


class OwnEval:
    """Values of the generated formulas computed by the harness itself: + - * over numbers, references to
    numeric cells and formula cells, SUM over areas and names.  Everything else is `unknown`."""

    def __init__(self, wb, ignore):
        self.wb, self.ignore = wb, set(ignore)
        self.content = {}       # address -> ('num', Fraction) | ('f', toks, sheet) | ('other',)
        self.sheetnames = [s['name'] for s in wb['sheets']]
        for s in wb['sheets']:
            if s['name'] in self.ignore:
                continue
            masters = {}
            for c in s['cells']:
                a = '%s!%s%d' % (s['name'], col_name(c['col']), c['row'])
                f = c['f']
                if f is None:
                    st = c['st']
                    self.content[a] = ('num', Fraction(st[1])) if st[0] in ('I', 'F') else ('other',)
                    continue
                if f[0] == 'P':
                    toks = f[1]
                elif f[0] == 'M':
                    toks = f[2]
                    masters.setdefault(f[1], (c['col'], c['row'], toks))
                else:
                    mc, mr, mt = masters[f[1]]
                    toks = shift_toks(mt, c['col'] - mc, c['row'] - mr)
                self.content[a] = ('f', toks, s['name'])
        self.names = {}
        for d in wb['names']:
            if not d['hidden'] and d['target'][0] == 'T':
                self.names[d['name']] = d['target']
        self.memo = {}
        self.busy = set()
        self.unbound_use = set()     # formula cells that (transitively) use a name that is not bound

    # --- formulas of a cell (text for the dict model: names replaced by their targets)
    def dict_formula(self, a):
        kind = self.content[a]
        out = []
        for t in kind[1]:
            if t[0] == 'N':
                tg = self.names.get(t[1])
                out.append(target_text(tg) if tg is not None else t[1])
            else:
                out.append(tok_text(t))
        return '=' + ''.join(out)

    def name_bound(self, n):
        tg = self.names.get(n)
        if tg is None:
            return False
        if len(tg) > 7:
            return True
        return ('%s!%s%d' % (tg[1], col_name(tg[4]), tg[6])) in self.content

    def name_unloaded(self, n):
        """a visible name for one cell that is not loaded: outside the statement (and whether it ends up
        bound to a blank placeholder depends on the order of build_ranges and build_defined_names)"""
        tg = self.names.get(n)
        if tg is None or len(tg) > 7:
            return False
        return ('%s!%s%d' % (tg[1], col_name(tg[4]), tg[6])) not in self.content

    def uses_unbound(self, a, seen=None):
        seen = set() if seen is None else seen
        if a in seen:
            return False
        seen.add(a)
        kind = self.content.get(a)
        if kind is None or kind[0] != 'f':
            return False
        toks, sheet = kind[1], kind[2]
        for t in toks:
            if t[0] == 'N' and self.name_unloaded(t[1]):
                return True
        for b in self.precedents(toks, sheet):
            if self.uses_unbound(b, seen):
                return True
        return False

    def unquote(self, p):
        if p.startswith("'"):
            return p[1:-1].replace("''", "'")
        return p

    def precedents(self, toks, sheet):
        out, cur, i = [], sheet, 0
        toks = list(toks)
        while i < len(toks):
            t = toks[i]
            if t[0] == 'X':
                cur = self.unquote(t[1])
            elif t[0] == 'C':
                if i + 2 < len(toks) and toks[i + 1] == ['L', ':'] and toks[i + 2][0] == 'C':
                    u = toks[i + 2]
                    out.extend(self.area(cur, t[2], t[4], u[2], u[4]))
                    i += 2
                else:
                    out.append('%s!%s%d' % (cur, col_name(t[2]), t[4]))
                cur = sheet
            elif t[0] == 'N':
                tg = self.names.get(t[1])
                if tg is not None:
                    if len(tg) > 7:
                        out.extend(self.area(tg[1], tg[4], tg[6], tg[8], tg[10]))
                    else:
                        out.append('%s!%s%d' % (tg[1], col_name(tg[4]), tg[6]))
            i += 1
        return out

    @staticmethod
    def area(sheet, c1, r1, c2, r2):
        return ['%s!%s%d' % (sheet, col_name(c), r) for r in range(r1, r2 + 1) for c in range(c1, c2 + 1)]

    # --- values
    def cell_value(self, a):
        """value of a single reference: only numeric constants and computable formulas are known."""
        kind = self.content.get(a)
        if kind is None:
            return Fraction(0)          # not stored, or an empty placeholder: blank
        if kind[0] == 'other':
            raise Unknown()
        if kind[0] == 'num':
            return kind[1]
        return self.formula_value(a)

    def member_value(self, a):
        """value a member contributes to SUM: absent cells and cells of ignored sheets contribute 0."""
        kind = self.content.get(a)
        if kind is None:
            return Fraction(0)
        return self.cell_value(a)

    def formula_value(self, a):
        if a in self.memo:
            v = self.memo[a]
            if v is None:
                raise Unknown()
            return v
        if a in self.busy:
            raise Unknown()
        self.busy.add(a)
        try:
            kind = self.content[a]
            p = _Parser(self, [list(t) for t in kind[1]], kind[2])
            v = p.parse()
            self.memo[a] = v
            return v
        except Unknown:
            self.memo[a] = None
            raise
        finally:
            self.busy.discard(a)

    def expected(self, a):
        """Fraction, or None when the harness does not know the value."""
        kind = self.content.get(a)
        if kind is None or kind[0] != 'f':
            return None
        try:
            return self.formula_value(a)
        except Unknown:
            return None


def _exact(v):
    """the harness's own values are compared only where double arithmetic is exact (DESIGN §3.1): every
    intermediate result must be a double below 2^52; otherwise the value counts as unknown"""
    if abs(v) > 2 ** 52 or Fraction(float(v)) != v:
        raise Unknown()
    return v


class _Parser:
    def __init__(self, ev, toks, sheet):
        self.ev, self.toks, self.sheet, self.i = ev, toks, sheet, 0

    def peek(self):
        return self.toks[self.i] if self.i < len(self.toks) else None

    def lit(self, s):
        t = self.peek()
        return t is not None and t[0] == 'L' and t[1] == s

    def parse(self):
        v = self.expr()
        if self.peek() is not None:
            raise Unknown()
        return v

    def expr(self):
        v = self.mul()
        while self.lit('+') or self.lit('-'):
            op = self.peek()[1]
            self.i += 1
            w = self.mul()
            v = _exact(v + w if op == '+' else v - w)
        return v

    def mul(self):
        v = self.atom()
        while self.lit('*'):
            self.i += 1
            v = _exact(v * self.atom())
        return v

    def ref_or_area(self):
        """returns ('cell', addr) or ('area', [addrs]) at a position holding [pfx] cell [: cell]"""
        sheet = self.sheet
        t = self.peek()
        if t is not None and t[0] == 'X':
            sheet = self.ev.unquote(t[1])
            self.i += 1
            t = self.peek()
        if t is None or t[0] != 'C':
            raise Unknown()
        self.i += 1
        if self.lit(':'):
            self.i += 1
            u = self.peek()
            if u is None or u[0] != 'C':
                raise Unknown()
            self.i += 1
            return ('area', OwnEval.area(sheet, t[2], t[4], u[2], u[4]))
        return ('cell', '%s!%s%d' % (sheet, col_name(t[2]), t[4]))

    def atom(self):
        import re
        t = self.peek()
        if t is None:
            raise Unknown()
        if t[0] == 'L' and re.fullmatch(r'[0-9]+', t[1]):
            self.i += 1
            return Fraction(int(t[1]))
        if self.lit('('):
            self.i += 1
            v = self.expr()
            if not self.lit(')'):
                raise Unknown()
            self.i += 1
            return v
        if self.lit('SUM'):
            self.i += 1
            if not self.lit('('):
                raise Unknown()
            self.i += 1
            total = Fraction(0)
            while True:
                total = _exact(total + self.sum_arg())
                if self.lit(','):
                    self.i += 1
                    continue
                break
            if not self.lit(')'):
                raise Unknown()
            self.i += 1
            return total
        if t[0] == 'N':
            self.i += 1
            if not self.ev.name_bound(t[1]):
                raise Unknown()
            tg = self.ev.names[t[1]]
            if len(tg) > 7:
                raise Unknown()          # an area where a number is wanted
            return self.ev.cell_value('%s!%s%d' % (tg[1], col_name(tg[4]), tg[6]))
        if t[0] in ('C', 'X'):
            kind, x = self.ref_or_area()
            if kind != 'cell':
                raise Unknown()
            return self.ev.cell_value(x)
        raise Unknown()

    def exact_sum(self, addrs):
        total = Fraction(0)
        for a in addrs:
            total = _exact(total + self.ev.member_value(a))
        return total

    def sum_arg(self):
        t = self.peek()
        if t is not None and t[0] == 'N':
            nxt = self.toks[self.i + 1] if self.i + 1 < len(self.toks) else None
            if nxt is not None and nxt[0] == 'L' and nxt[1] in (',', ')'):
                self.i += 1
                if not self.ev.name_bound(t[1]):
                    raise Unknown()
                tg = self.ev.names[t[1]]
                if len(tg) > 7:
                    return self.exact_sum(OwnEval.area(tg[1], tg[4], tg[6], tg[8], tg[10]))
                return self.ev.cell_value('%s!%s%d' % (tg[1], col_name(tg[4]), tg[6]))
        if t is not None and t[0] in ('C', 'X'):
            j = self.i
            kind, x = self.ref_or_area()
            if kind == 'area':
                return self.exact_sum(x)
            nxt = self.peek()
            if nxt is not None and nxt[0] == 'L' and nxt[1] in (',', ')'):
                return self.ev.cell_value(x)
            self.i = j
        return self.expr()


# ------------------------------------------------------------------------------------------ generation

PLAIN_SHEETS = ['Sheet1', 'Data', 'S2', 'Calc', 'Totals']
QUOTED_SHEETS = ['My Sheet', 'Q1 2024', 'A-B', 'Été', '2024', 'x (1)', 'a&b', 'Sheet 2']
APOS_SHEETS = ["It's", "O'Neil x", "a''b"]
SPECIAL_SHEETS = ['A!B', 'US$', 'Cost$ 1', 'x!y z', "it's $!", '$A$1']       # '!' and '$' (D1102, D0302 fixed)
TEXTS = ['x', 'hello world', ' lead', 'trail ', 'a<b&c>d', '"q"', "it's", 'Ünï', '1.5', 'TRUE', '#N/A', 'A1',
         'line1 line2', '  ', '日本']
ERRORS = ['#DIV/0!', '#N/A', '#VALUE!', '#REF!', '#NAME?', '#NUM!', '#NULL!']
NAME_POOL = ['one', 'rng', 'total', 'rate', 'tbl', 'x_1', 'Αlpha', 'input.a', 'zz', 'col_b',
             # everything Excel allows: a leading underscore or backslash, dots, digits and '?' after the first
             # character, mixed case, names that only look like references, function-like and word-like names
             '_rate', '_block', '_', '__x', '_1', '\\rate', '\\', 'N\\x', 'a.b.c', 'x.y', 'Rate_2', 'myName',
             'TaxRATE', 'A1B', 'R2D2x', 'AB12_', 'XFE1048577x', 'TRUE1', 'SUMX', 'Sheet1x', 'q?x', 'été', 'Ünï_1',
             '日本', 'e1x', 'x' * 64, 'Long_' + 'n' * 200 + '.z']
_NAME_FIRST = 'abcxyzABCXYZ_\\éΑ'
_NAME_REST = _NAME_FIRST + '0123456789..__?'


def valid_name(n):
    """what Excel accepts as a defined name (and this harness can write): not a reference in A1 or R1C1 notation,
    not a boolean word"""
    import re
    if not n or len(n) > 255 or not (n[0].isalpha() or n[0] in '_\\'):
        return False
    if re.fullmatch(r'[A-Za-z]{1,3}[0-9]+', n) or re.fullmatch(r'[Rr][0-9]*([Cc][0-9]*)?|[Cc][0-9]*', n):
        return False
    return n.upper() not in ('TRUE', 'FALSE')


def gen_name(rng):
    if rng.random() < 0.6:
        return rng.choice(NAME_POOL)
    while True:
        n = rng.choice(_NAME_FIRST) + ''.join(rng.choice(_NAME_REST) for _ in range(rng.choice([0, 1, 2, 3, 5, 8, 20])))
        if valid_name(n):
            return n


def L(s):
    return ['L', s]


def CELL(col, row, ac=False, ar=False):
    return ['C', ac, col, ar, row]


def pfx_for(sheet):
    return ['X', quote_sheet(sheet) if needs_quote(sheet) else sheet]


def gen_number(rng):
    k = rng.random()
    if k < 0.6:
        return ['I', rng.choice([0, 1, 2, 3, 5, 7, 10, 12, -4, 100, 250])]
    return ['F', str(Fraction(rng.randint(-40, 80), 8) + Fraction(1, 8 if rng.random() < 0.5 else 2))]


def norm_number(st):
    """a float-form number must not be integral in *form*; keep the Fraction as text for JSON."""
    return st


def gen_constant(rng, sst):
    k = rng.random()
    if k < 0.45:
        return gen_number(rng)
    if k < 0.55:
        if not sst or rng.random() < 0.5:
            sst.append(rng.choice(TEXTS + ['']))
            return ['S', len(sst) - 1]
        return ['S', rng.randrange(len(sst))]
    if k < 0.63:
        return ['R', rng.choice(TEXTS)]
    if k < 0.71:
        return ['L', rng.choice(TEXTS + [''])]
    if k < 0.79:
        return ['B', rng.random() < 0.5]
    if k < 0.85:
        return ['E', rng.choice(ERRORS)]
    if k < 0.93:
        if rng.random() < 0.5:
            return ['DI', rng.randint(61, 60000)]
        return ['DF', str(Fraction(rng.randint(61 * 8, 60000 * 8), 8))]
    return ['Z']


def gen_cached_other(rng):
    k = rng.random()
    if k < 0.3:
        return ['Z']
    if k < 0.5:
        return ['R', rng.choice(TEXTS)]
    if k < 0.65:
        return ['B', rng.random() < 0.5]
    if k < 0.8:
        return ['E', rng.choice(ERRORS)]
    if k < 0.9:
        return ['DI', rng.randint(61, 60000)] if rng.random() < 0.5 else \
            ['DF', str(Fraction(rng.randint(61 * 8, 60000 * 8), 8))]
    return gen_number(rng)


class Gen:
    def __init__(self, rng, special=None):
        self.rng = rng
        self.special = special

    def sheet_names(self):
        rng = self.rng
        n = rng.choice([1, 2, 2, 3, 3, 4])
        pool = []
        for _ in range(n):
            k = rng.random()
            if k < 0.45:
                pool.append(rng.choice(PLAIN_SHEETS))
            elif k < 0.80:
                pool.append(rng.choice(QUOTED_SHEETS))
            elif k < 0.88:
                pool.append(rng.choice(APOS_SHEETS))
            else:
                pool.append(rng.choice(SPECIAL_SHEETS))
        names = []
        for p in pool:
            while p in names:
                p = p + 'x'
            names.append(p)
        return names

    def ref_tokens(self, sheet, others, numeric, ncols, nrows, lo_col=1, lo_row=1, allow_abs=True):
        """[pfx] cell  — mostly to numeric cells of this or another sheet"""
        rng = self.rng
        target_sheet = sheet
        toks = []
        if others and rng.random() < 0.3:
            target_sheet = rng.choice(others)
            toks.append(pfx_for(target_sheet))
        elif rng.random() < 0.1:
            toks.append(pfx_for(sheet))
        cands = numeric.get(target_sheet, [])
        cands = [c for c in cands if c[0] >= lo_col and c[1] >= lo_row]
        if cands and rng.random() < 0.85:
            col, row = rng.choice(cands)
        else:
            col, row = rng.randint(lo_col, ncols + 1), rng.randint(lo_row, nrows + 1)
        ac = allow_abs and rng.random() < 0.25
        ar = allow_abs and rng.random() < 0.25
        toks.append(CELL(col, row, ac, ar))
        return toks

    def area_tokens(self, sheet, others, ncols, nrows, lo_col=1, lo_row=1):
        rng = self.rng
        toks = []
        if others and rng.random() < 0.3:
            toks.append(pfx_for(rng.choice(others)))
        c1, r1 = rng.randint(lo_col, max(lo_col, ncols)), rng.randint(lo_row, max(lo_row, nrows))
        c2, r2 = rng.randint(c1, min(c1 + 2, ncols + 1)), rng.randint(r1, min(r1 + 2, nrows + 1))
        fl = [rng.random() < 0.2 for _ in range(4)]
        toks += [CELL(c1, r1, fl[0], fl[1]), L(':'), CELL(c2, r2, fl[2], fl[3])]
        return toks

    def formula(self, sheet, others, numeric, names, ncols, nrows, lo_col=1, lo_row=1, shared=False):
        """token list of one formula, in the granularity of the reference scanner"""
        rng = self.rng
        toks = []
        nterms = rng.choice([1, 2, 2, 3])
        for i in range(nterms):
            if i:
                toks.append(L(rng.choice(['+', '+', '-', '*'])))
            k = rng.random()
            if k < 0.4:
                toks += self.ref_tokens(sheet, others, numeric, ncols, nrows, lo_col, lo_row)
            elif k < 0.6:
                toks += [L('SUM'), L('(')] + self.area_tokens(sheet, others, ncols, nrows, lo_col, lo_row)
                if rng.random() < 0.2:
                    toks += [L(',')] + self.ref_tokens(sheet, others, numeric, ncols, nrows, lo_col, lo_row)
                toks.append(L(')'))
            elif k < 0.7:
                toks.append(L(str(rng.randint(0, 12))))
            elif k < 0.85 and names:
                d = rng.choice(names)
                if d['target'][0] == 'T' and len(d['target']) > 7:
                    toks += [L('SUM'), L('('), ['N', d['name']], L(')')]
                else:
                    toks.append(['N', d['name']])
            elif k < 0.9:
                # things the translator must leave alone: text that looks like a reference, a function
                # whose name looks like one, a number
                toks += rng.choice([
                    [L('LEN'), L('('), L('"A1+B2"'), L(')')],
                    [L('LOG10'), L('('), L('100'), L(')')],
                    [L('LEN'), L('('), L('"it"'), L('"s $C$3"'), L(')')],       # "it""s $C$3": two scanner tokens
                    [L('2.5')],
                    [L('('), L('1'), L('+'), L('2'), L(')')],
                ])
            else:
                toks += self.ref_tokens(sheet, others, numeric, ncols, nrows, lo_col, lo_row)
        if rng.random() < 0.08:
            toks = [L('IF'), L('(')] + self.ref_tokens(sheet, others, numeric, ncols, nrows, lo_col, lo_row) + \
                [L('>'), L('1'), L(','), L('"big"'), L(','), L('"small"'), L(')')]
        return toks

    def same_text_template(self, row):
        """{position: formula form} for rows `row`.. : plain formulas and one shared group whose texts use only
        unqualified references into the block A1:B2 (and beyond it after translation)"""
        rng = self.rng

        def ref():
            return CELL(rng.randint(1, 2), rng.randint(1, 2), rng.random() < 0.2, rng.random() < 0.2)

        def area():
            c1, r1 = rng.randint(1, 2), rng.randint(1, 2)
            c2, r2 = rng.randint(c1, 2), rng.randint(r1, 3)
            fl = [rng.random() < 0.2 for _ in range(4)]
            return [CELL(c1, r1, fl[0], fl[1]), L(':'), CELL(c2, r2, fl[2], fl[3])]

        def text():
            k = rng.random()
            if k < 0.35:
                return [L('SUM'), L('(')] + area() + [L(')')]
            if k < 0.55:
                return [ref(), L('*'), L(str(rng.randint(2, 5)))]
            if k < 0.75:
                return [ref(), L(rng.choice(['+', '-', '*'])), ref()]
            return [L('SUM'), L('(')] + area() + [L(')'), L(rng.choice(['+', '-'])), ref()]

        out = {}
        for c in range(1, rng.randint(1, 3) + 1):
            out[(c, row)] = ['P', text()]
        if rng.random() < 0.6:
            out[(1, row + 1)] = ['M', 9, text()]
            for pos in [(2, row + 1), (3, row + 1), (1, row + 2), (2, row + 2)]:
                if rng.random() < 0.6:
                    out[pos] = ['S', 9]
        return out

    def workbook(self):
        rng = self.rng
        names_of_sheets = self.sheet_names()
        wb = {'sst': [], 'sheets': [], 'names': []}
        if rng.random() < 0.3:
            wb['sst'] = [rng.choice(TEXTS) for _ in range(rng.randint(1, 3))]
        ncols, nrows = rng.randint(2, 5), rng.randint(2, 6)
        # pass 1: decide which cells exist and which are numeric constants
        layout = {}
        numeric = {}
        for sn in names_of_sheets:
            cells = {}
            density = rng.choice([0.4, 0.6, 0.8])
            for r in range(1, nrows + 1):
                for c in range(1, ncols + 1):
                    if rng.random() < density:
                        cells[(c, r)] = 'const'
            layout[sn] = cells
        # defined names first (formulas may use them)
        used = set()
        for _ in range(rng.choice([0, 1, 2, 3, 4])):
            nm = gen_name(rng)
            if nm.lower() in used:          # Excel's names are case-insensitive: no two that differ by case only
                continue
            used.add(nm.lower())
            k = rng.random()
            if k < 0.06:
                wb['names'].append({'name': nm, 'hidden': False, 'target': ['R', '#REF!']})
                continue
            sn = rng.choice(names_of_sheets)
            quoted = needs_quote(sn) or rng.random() < 0.1
            absf = (lambda: True) if rng.random() < 0.8 else (lambda: rng.random() < 0.5)
            cells = list(layout[sn])
            if cells and rng.random() < 0.8:
                c1, r1 = rng.choice(cells)
            else:
                c1, r1 = rng.randint(1, ncols + 1), rng.randint(1, nrows + 1)
            tg = ['T', sn, quoted, absf(), c1, absf(), r1]
            if rng.random() < 0.5:
                c2, r2 = rng.randint(c1, c1 + 2), rng.randint(r1, r1 + 2)
                tg += [absf(), c2, absf(), r2]
            wb['names'].append({'name': nm, 'hidden': rng.random() < 0.1, 'target': tg})
        # pass 2: fill the cells
        for sn in names_of_sheets:
            numeric[sn] = []
        sheet_cells = {}
        for sn in names_of_sheets:
            cells = layout[sn]
            kinds = {}
            for pos in cells:
                kinds[pos] = rng.choice(['num', 'num', 'num', 'any', 'formula', 'formula'])
            sheet_cells[sn] = kinds
            numeric[sn] = [p for p, k in kinds.items() if k in ('num', 'formula')]
        # the SAME formula texts (unqualified references and areas, a shared group too) on several sheets, over
        # different data: every parsed formula must belong to the sheet of its own cell
        template, template_sheets = {}, []
        if len(names_of_sheets) >= 2 and rng.random() < 0.5:
            k = rng.randint(2, len(names_of_sheets))
            template_sheets = rng.sample(names_of_sheets, k)
            template = self.same_text_template(nrows + 1)
            for sn in template_sheets:
                for pos in [(1, 1), (1, 2), (2, 1), (2, 2)]:
                    if rng.random() < 0.85:
                        sheet_cells[sn][pos] = 'num'
                for pos in template:
                    sheet_cells[sn][pos] = 'formula'
                numeric[sn] = [p for p, kd in sheet_cells[sn].items() if kd in ('num', 'formula')]
        for sn in names_of_sheets:
            others = [o for o in names_of_sheets if o != sn]
            kinds = sheet_cells[sn]
            out = {}
            # shared groups: a master and members to the right / below / below-left of it
            si = 0
            positions = sorted(kinds, key=lambda p: (p[1], p[0]))
            taken = set()
            if sn in template_sheets:
                for pos, f in template.items():
                    out[pos] = json.loads(json.dumps(f))
                    taken.add(pos)
            if rng.random() < 0.6 and positions:
                for _ in range(rng.choice([1, 1, 2])):
                    free = [p for p in positions if kinds[p] == 'formula' and p not in taken]
                    if not free:
                        break
                    mc, mr = rng.choice(free)
                    shape = rng.choice(['row', 'col', 'rect', 'scatter'])
                    members = []
                    for p in positions:
                        if p in taken or p == (mc, mr) or (p[1], p[0]) <= (mr, mc):
                            continue
                        dc, dr = p[0] - mc, p[1] - mr
                        ok = {'row': dr == 0, 'col': dc == 0, 'rect': dc >= 0 and dr >= 0,
                              'scatter': rng.random() < 0.5}[shape]
                        if ok:
                            members.append(p)
                    if not members:
                        continue
                    min_dc = min(0, min(p[0] - mc for p in members))
                    toks = self.formula(sn, others, numeric, [d for d in wb['names']], ncols, nrows,
                                        lo_col=1 - min_dc, lo_row=1, shared=True)
                    out[(mc, mr)] = ['M', si, toks]
                    taken.add((mc, mr))
                    for p in members:
                        out[p] = ['S', si]
                        taken.add(p)
                        kinds[p] = 'formula'
                    si += 1
            cells_out = []
            for (c, r) in positions:
                kind = kinds[(c, r)]
                if (c, r) in out:
                    f = out[(c, r)]
                    st = None
                elif kind == 'formula':
                    f = ['P', self.formula(sn, others, numeric, wb['names'], ncols, nrows)]
                    st = None
                elif kind == 'num':
                    f, st = None, gen_number(rng)
                else:
                    f, st = None, gen_constant(rng, wb['sst'])
                cells_out.append({'col': c, 'row': r, 'f': f, 'st': st})
            wb['sheets'].append({'name': sn, 'cells': cells_out})
        # cached results of formula cells: the value the harness computes (when it can), or something else
        ev = OwnEval(wb, [])
        for s in wb['sheets']:
            for c in s['cells']:
                if c['f'] is None:
                    continue
                a = '%s!%s%d' % (s['name'], col_name(c['col']), c['row'])
                v = ev.expected(a)
                k = rng.random()
                if v is not None and k < 0.6:
                    c['st'] = ['I', int(v)] if v.denominator == 1 and rng.random() < 0.8 else ['F', str(v + 0)]
                    if c['st'][0] == 'F' and Fraction(c['st'][1]).denominator == 1 and False:
                        pass
                elif k < 0.75:
                    c['st'] = ['Z']                       # never calculated
                elif k < 0.85:
                    c['st'] = ['I', 999]                  # stale cache
                else:
                    c['st'] = gen_cached_other(rng)
        # the workbook's date system: 1900 (default) or 1904 (<workbookPr date1904="1"/>)
        if rng.random() < 0.35:
            wb['date1904'] = True
            for sh in wb['sheets']:
                for c in sh['cells']:
                    if c['st'] is not None and c['st'][0] in ('DI', 'DF') and Fraction(c['st'][1]) < 1524:
                        c['st'] = [c['st'][0], str(Fraction(c['st'][1]) + 2000)]
        return wb


def ignore_lists(wb, rng, thorough):
    names = [s['name'] for s in wb['sheets']]
    subsets = []
    for k in range(len(names) + 1):
        for comb in itertools.combinations(names, k):
            subsets.append(list(comb))
    if rng.random() < 0.2:
        subsets.append(['NoSuchSheet'] + ([names[0]] if rng.random() < 0.5 else []))
    return subsets


# ------------------------------------------------------------------------------------------ fixed cases

def _c(col, row, f=None, st=None):
    return {'col': col, 'row': row, 'f': f, 'st': st if st is not None else ['Z']}


def fixed_workbooks():
    """Regression workbooks: the witnesses of D5, D7, D9, D53, D54, D1101, D1102, D0302 (all fixed)."""
    out = []
    # D9: a defined name whose sheet is quoted; D5: $-absolute references; D7: SUM over a range name
    out.append(('D9-D5-D7', {
        'sst': ['s'],
        'sheets': [
            {'name': 'My Sheet', 'cells': [_c(1, 1, None, ['I', 3]), _c(1, 2, None, ['I', 4]),
                                           _c(2, 1, ['P', [CELL(1, 1, True, True), L('*'), L('2')]], ['I', 6]),
                                           _c(2, 2, ['P', [L('SUM'), L('('), ['N', 'rng'], L(')')]], ['I', 7]),
                                           _c(2, 3, ['P', [['N', 'one'], L('+'), L('1')]], ['I', 4])]},
            {'name': 'Sheet1', 'cells': [_c(1, 1, ['P', [pfx_for('My Sheet'), CELL(1, 1), L('+'), L('1')]], ['I', 4])]}],
        'names': [{'name': 'one', 'hidden': False, 'target': ['T', 'My Sheet', True, True, 1, True, 1]},
                  {'name': 'rng', 'hidden': False, 'target': ['T', 'My Sheet', True, True, 1, True, 1, True, 1, True, 2]}]}))
    # D53: a range name covering an empty cell; D54: a range name pointing into an ignored sheet
    out.append(('D53-D54', {
        'sst': [],
        'sheets': [
            {'name': 'Sheet1', 'cells': [_c(1, 1, None, ['I', 1]), _c(1, 3, None, ['I', 5]),
                                         _c(2, 1, ['P', [L('SUM'), L('('), ['N', 'gap'], L(')')]], ['I', 6])]},
            {'name': 'Other', 'cells': [_c(1, 1, None, ['I', 2]), _c(2, 2, None, ['R', 'x'])]}],
        'names': [{'name': 'gap', 'hidden': False, 'target': ['T', 'Sheet1', False, True, 1, True, 1, True, 1, True, 3]},
                  {'name': 'far', 'hidden': False, 'target': ['T', 'Other', False, True, 1, True, 1, True, 2, True, 2]},
                  {'name': 'farcell', 'hidden': False, 'target': ['T', 'Other', False, True, 1, True, 1]}]}))
    # every storage form once, a shared group with all four kinds of reference
    master = [CELL(1, 1), L('+'), CELL(1, 1, True, False), L('+'), CELL(1, 1, False, True), L('+'),
              CELL(1, 1, True, True), L('+'), L('SUM'), L('('), CELL(1, 1), L(':'), CELL(2, 2, False, True), L(')'),
              L('+'), ['X', 'Forms'], CELL(1, 1), L('+'), L('LEN'), L('('), L('"A1"'), L(')')]
    out.append(('forms', {
        'sst': ['shared text', ''],
        'sheets': [{'name': 'Forms', 'cells': [
            _c(1, 1, None, ['I', 3]), _c(2, 1, None, ['F', '5/2']), _c(3, 1, None, ['S', 0]), _c(4, 1, None, ['S', 1]),
            _c(5, 1, None, ['R', 'in place']), _c(6, 1, None, ['L', 'inline']), _c(7, 1, None, ['L', '']),
            _c(1, 2, None, ['B', True]), _c(2, 2, None, ['B', False]), _c(3, 2, None, ['E', '#N/A']),
            _c(4, 2, None, ['DI', 45000]), _c(5, 2, None, ['DF', '90001/2']), _c(6, 2, None, ['Z']), _c(7, 2, None, ['Z']),
            _c(1, 3, ['P', [CELL(1, 1), L('*'), L('2')]], ['I', 6]),
            _c(2, 3, ['P', [CELL(1, 1), L('*'), L('3')]], ['Z']),
            _c(3, 3, ['P', [CELL(3, 1), L('&'), L('"x"')]], ['R', 'shared textx']),
            _c(4, 3, ['P', [CELL(1, 1), L('>'), L('1')]], ['B', True]),
            _c(5, 3, ['P', [L('1'), L('/'), L('0')]], ['E', '#DIV/0!']),
            _c(6, 3, ['P', [CELL(4, 2), L('+'), L('1')]], ['DI', 45001]),
            _c(7, 3, ['P', [CELL(2, 1), L('+'), L('1')]], ['F', '7/2']),
            _c(1, 4, ['M', 0, master], ['I', 1]), _c(2, 4, ['S', 0], ['I', 2]), _c(3, 4, ['S', 0], ['Z']),
            _c(1, 5, ['S', 0], ['I', 999]), _c(3, 6, ['S', 0], ['R', 'text'])]}],
        'names': []}))
    # D1101 (fixed): apostrophe in the sheet name of a defined name's target (also in corpus/C11)
    out.append(('D1101', {
        'sst': [],
        'sheets': [{'name': "It's", 'cells': [_c(1, 1, None, ['I', 8]), _c(1, 2, None, ['I', 2])]},
                   {'name': 'S2', 'cells': [_c(1, 1, ['P', [pfx_for("It's"), CELL(1, 1), L('+'), L('1')]], ['I', 9])]}],
        'names': [{'name': 'ap', 'hidden': False, 'target': ['T', "It's", True, True, 1, True, 1]},
                  {'name': 'apr', 'hidden': False, 'target': ['T', "It's", True, True, 1, True, 1, True, 1, True, 2]}]}))
    # the 1904 date system: date-, date-time-formatted constants and cached results (1900-serial 43906 = file serial 42444 there)
    out.append(('date1904', {
        'date1904': True, 'sst': [],
        'sheets': [{'name': 'Dates', 'cells': [
            _c(1, 1, None, ['DI', 43906]), _c(2, 1, None, ['DF', '87813/2']), _c(3, 1, None, ['DI', 1524]),
            _c(1, 2, ['P', [CELL(1, 1), L('+'), L('1')]], ['DI', 43907]),
            _c(2, 2, ['P', [CELL(2, 1), L('+'), L('1')]], ['DF', '351259/8']), _c(3, 2, None, ['I', 43906])]}],
        'names': []}))
    # every shape of defined name Excel allows, for a cell and for an area, used in formulas
    shapes = ['_rate', '\\rate', '_', '\\', 'a.b.c', 'Rate_2', 'myName', 'A1B', 'R2D2x', 'TRUE1', 'SUMX', 'q?x', 'été',
              'x' * 64, 'Long_' + 'n' * 200 + '.z']
    ncells = [_c(1, 1, None, ['I', 7]), _c(2, 1, None, ['F', '1/2']), _c(1, 2, None, ['I', 21]), _c(2, 2, None, ['R', 'txt'])]
    ndefs = []
    for i, nm in enumerate(shapes):
        ncells.append(_c(3, i + 3, ['P', [['N', nm], L('*'), L('2')]], ['I', 42]))
        ncells.append(_c(4, i + 3, ['P', [L('SUM'), L('('), ['N', nm + '.r'], L(')')]], ['F', '57/2']))
        ndefs.append({'name': nm, 'hidden': False, 'target': ['T', 'Data', False, True, 1, True, 2]})
        ndefs.append({'name': nm + '.r', 'hidden': False, 'target': ['T', 'Data', False, True, 1, True, 1, True, 2, True, 2]})
    out.append(('name-shapes', {'sst': [], 'sheets': [{'name': 'Data', 'cells': ncells}], 'names': ndefs}))
    # D1102 (fixed): '!' in a sheet name; D0302 (fixed): '$' in a sheet name (both also in corpus/C11)
    for label, sn in (('D1102', 'A!B'), ('D0302', 'US$')):
        out.append((label, {
            'sst': [],
            'sheets': [{'name': sn, 'cells': [_c(1, 1, None, ['I', 8]), _c(1, 2, None, ['I', 2]),
                                              _c(2, 1, ['P', [CELL(1, 1, True, True), L('+'), CELL(1, 2)]], ['I', 10]),
                                              _c(2, 2, ['M', 0, [L('SUM'), L('('), CELL(1, 1, True, False), L(':'),
                                                                 CELL(1, 2), L(')')]], ['I', 10]),
                                              _c(2, 3, ['S', 0], ['I', 2])]},
                       {'name': 'S2', 'cells': [_c(1, 1, ['P', [pfx_for(sn), CELL(1, 1), L('+'), ['N', 'nc'], L('+'),
                                                                L('SUM'), L('('), ['N', 'nr'], L(')')]], ['I', 26]),
                                                _c(1, 2, ['P', [L('SUM'), L('('), pfx_for(sn), CELL(1, 1), L(':'),
                                                                CELL(1, 3), L(')')]], ['I', 10])]}],
            'names': [{'name': 'nc', 'hidden': False, 'target': ['T', sn, True, True, 1, True, 1]},
                      {'name': 'nr', 'hidden': False, 'target': ['T', sn, True, True, 1, True, 1, True, 1, True, 2]}]}))
    return out


# ------------------------------------------------------------------------------------------ checking

class Checker:
    def __init__(self, ctx, res, tmpdir):
        self.ctx, self.res, self.tmp = ctx, res, tmpdir
        self.listed = {e['id'] for e in ctx.known if e.get('status') == 'known'}
        self.counter = 0

    def strip_wb(self, wb):
        """the abstract workbook as sent to Lean / written to the file (JSON-able)"""
        return wb

    def check_workbook(self, wb, ignores, label=None):
        """returns the list of violation dicts of this workbook (also recorded in res)"""
        self.counter += 1
        path = os.path.join(self.tmp, 'wb%d.xlsx' % self.counter)
        write_xlsx(path, wb)
        lines = [request_line(wb, ig) for ig in ignores]
        resp = self.ctx.driver.batch(lines)
        found = []
        for ig, line, r in zip(ignores, lines, resp):
            d = parse_kv(r)
            if 'impl' not in d:
                raise RuntimeError('driver: %r for %r' % (r[:300], line[:300]))
            wf = dict(x.split(':') for x in d['wf'].split(','))
            if any(wf.get(k) != '1' for k in ('scan', 'shared', 'text', 'nodup')):
                raise RuntimeError('generator produced a workbook outside the domain (%s): %s'
                                   % (d['wf'], json.dumps(wb)[:400]))
            found += self.check_case(wb, ig, path, dec_impl(d['impl']), dec_spec(d['spec']), label)
        try:
            os.unlink(path)
        except OSError:
            pass
        return found

    def check_case(self, wb, ig, path, impl, spec, label):
        res = self.res
        res.evaluations += 1
        inp = {'workbook': wb, 'ignore': ig}
        issues = []          # (what, expected, got, finding-id or None)
        sheets = {s['name']: s for s in wb['sheets']}
        model, exc = load_real(path, ig)
        nontriv = ('%d sheets|%d ignored|forms:%s|names:%s' % (
            len(wb['sheets']), len(ig),
            ''.join(sorted({(c['f'][0] if c['f'] else '') + c['st'][0] for s in wb['sheets'] for c in s['cells']
                            if s['name'] not in ig})),
            ''.join(sorted({('r' if len(d['target']) > 7 else 'c') + ('q' if d['target'][2] else 'p')
                            for d in wb['names'] if d['target'][0] == 'T'}))))
        res.count('sheets:%d' % len(wb['sheets']))
        res.count('ignored:%d' % len(ig))
        if model is None:
            res.count('outcome:load-raised')
            issues.append(('loading raised %s' % exc, 'a model', 'X:' + exc, None))
            real = {'crash': exc}
        else:
            res.count('outcome:loaded')
            real = real_model(model)
            issues += self.against_spec(wb, ig, model, real, spec)
        drift = None
        if real != impl:
            drift = self.first_difference(real, impl)
        if issues:
            # a listed finding is recognised by its region (the tag) AND by its modelled wrong behaviour on the
            # observable concerned (the binding of that name / the exception class), not by the whole model
            def as_modelled(issue):
                fid = issue[3]
                if fid is None or fid not in self.listed:
                    return False
                return False          # no finding is listed as known for C11 at present
            if all(as_modelled(i) for i in issues):
                for fid in {i[3] for i in issues}:
                    res.known.setdefault(fid, []).append({'ignore': ig, 'label': label})
                res.count('known-finding')
                if drift is not None and 'crash' not in real:
                    res.drift.append({'input': inp if len(res.drift) < 3 else '(omitted)', 'difference': drift})
            else:
                out = []
                for issue in issues:
                    what, exp, got, fid = issue[:4]
                    v = {'what': what, 'input': inp, 'expected': exp, 'got': got}
                    res.violations.append(v)
                    out.append(v)
                return out
        elif drift is not None:
            res.drift.append({'input': inp if len(res.drift) < 3 else '(omitted)', 'difference': drift})
        if model is None:
            return []
        res.nontrivial.add(nontriv)
        for s in wb['sheets']:
            if s['name'] in ig:
                continue
            for c in s['cells']:
                res.count('form:' + (c['f'][0] if c['f'] else 'const') + '/' + c['st'][0])
        texts = {}
        for s in wb['sheets']:
            if s['name'] not in ig:
                for c in s['cells']:
                    if c['f'] is not None and c['f'][0] in ('P', 'M'):
                        texts.setdefault(render(c['f'][-1]), set()).add(s['name'])
        nshared = len([t for t, ss in texts.items() if len(ss) > 1])
        if nshared:
            res.count('loads-with-a-formula-text-on-several-sheets')
            res.count('formula-texts-on-several-sheets', nshared)
        for d in wb['names']:
            t = d['target']
            res.count('name:' + ('raw' if t[0] == 'R' else ('range' if len(t) > 7 else 'cell')
                                 + ('-quoted' if t[2] else '') + ('-hidden' if d['hidden'] else '')
                                 + ('-ignored' if t[1] in ig else '')))
        res.sample({'sheets': [s['name'] for s in wb['sheets']], 'ignore': ig,
                    'cells': len(real['cells']), 'names': sorted(real['names']),
                    'ranges': sorted(real['ranges'])})
        return self.evaluation_clause(wb, ig, model, inp)

    # --- the statement
    def against_spec(self, wb, ig, model, real, spec):
        from xlcalculator import xltypes
        issues = []
        speckeys = set()
        for address, value, formula in spec['cells']:
            speckeys.add(address)
            got = real['cells'].get(address)
            if got is None:
                issues.append(('stored cell %s is missing from the model' % address, address, None, None))
                continue
            if got[0] != address:
                issues.append(('cell %s carries address %r' % (address, got[0]), address, got[0], None))
            if got[1] != value:
                kind = 'cached result' if formula is not None else 'constant'
                issues.append(('cell %s holds the wrong %s' % (address, kind), value, got[1], None))
            gf = None if got[2] is None else got[2][0]
            if gf != formula:
                issues.append(('cell %s holds the wrong formula text' % address, formula, gf, None))
            if real['gcv'].get(address) != value:
                issues.append(('get_cell_value(%s) before evaluation is not the stored/cached value' % address,
                               value, real['gcv'].get(address), None))
        for k, got in real['cells'].items():
            if k in speckeys:
                continue
            if not (got[1] == ('Z',) and got[2] is None):
                sheet = k.rsplit('!', 1)[0]
                what = ('ignored sheet contributes cell %s' % k) if sheet in ig else \
                    ('cell %s is not stored in the workbook' % k)
                issues.append((what, 'an empty placeholder at most', got, None))
        targets = {d['name']: d['target'] for d in wb['names']}
        for name, b in spec['names']:
            if b[0] == 'U':
                continue
            tg = targets[name]
            fid = None
            got = real['names'].get(name)
            if b[0] == 'C':
                ok = got is not None and got[0] == 'C' and got[1] == b[1] and \
                    model.defined_names[name] is model.cells.get(b[1])
                if not ok:
                    issues.append(('defined name %s is not bound to its cell' % name, b, got, fid, name))
            else:
                ok = got is not None and got[0] == 'R' and got[4] == b[2]      # the members; the spelling of address_str is not in the statement
                if not ok:
                    issues.append(('defined name %s is not bound to its range' % name, b, got, fid, name))
        return issues

    @staticmethod
    def first_difference(real, impl):
        if 'crash' in real or 'crash' in impl:
            return {'real': real.get('crash', 'loaded'), 'model': impl.get('crash', 'loaded')}
        for part in ('cells', 'formulae', 'names', 'ranges', 'gcv'):
            a, b = real[part], impl[part]
            for k in sorted(set(a) | set(b)):
                if a.get(k) != b.get(k):
                    return {'part': part, 'key': k, 'real': a.get(k), 'model': b.get(k)}
        return {'part': '?'}

    # --- evaluating the loaded model = evaluating a model built from the same contents
    def evaluation_clause(self, wb, ig, model, inp):
        from xlcalculator import ModelCompiler, Evaluator
        import datetime
        res = self.res
        own = OwnEval(wb, ig)
        contents, later = {}, {}
        for s in wb['sheets']:
            if s['name'] in ig:
                continue
            for c in s['cells']:
                a = '%s!%s%d' % (s['name'], col_name(c['col']), c['row'])
                if c['f'] is not None:
                    contents[a] = '=' + render(own.content[a][1])
                    continue
                st = c['st']
                k = st[0]
                if k == 'I':
                    contents[a] = int(st[1])
                elif k == 'F':
                    contents[a] = float(Fraction(st[1]))
                elif k == 'B':
                    contents[a] = bool(st[1])
                elif k in ('R', 'L', 'E', 'S'):
                    t = wb['sst'][st[1]] if k == 'S' else st[1]
                    if t == '' or t.startswith('='):
                        later[a] = t
                    else:
                        contents[a] = t
                elif k in ('DI', 'DF'):
                    q = Fraction(st[1])
                    later[a] = datetime.datetime(1899, 12, 30) + datetime.timedelta(
                        days=int(q), milliseconds=int((q - int(q)) * 86400000))
                else:
                    later[a] = None
        out = []
        # the direct model: the same cell contents through read_and_parse_dict, the same visible defined names
        # through the compiler's own steps (there is no public API for names of a dict model)
        try:
            mc = ModelCompiler()
            direct = mc.read_and_parse_dict(contents, build_code=False) if contents else None
            if direct is not None:
                for a, v in later.items():
                    direct.set_cell_value(a, v)
                mc.defined_names = {d['name']: target_text(d['target']) for d in wb['names']
                                    if not d['hidden'] and target_text(d['target']) != '#REF!'}
                mc.build_defined_names()
                mc.link_cells_to_defined_names()
                direct.build_code()
        except Exception as exc:  # noqa: BLE001
            v = {'what': 'building a model from the contents of a workbook that loads raised %s'
                 % type(exc).__name__, 'input': inp, 'expected': 'a model', 'got': type(exc).__name__}
            res.violations.append(v)
            return [v]
        if direct is None:
            return out
        ev_loaded, ev_direct = Evaluator(model), Evaluator(direct)
        for a in list(contents) + list(later):
            got = common.call_real(ev_loaded.evaluate, a)
            res.count('evaluated-cells')
            exp_own = own.expected(a)
            if exp_own is not None:
                res.count('evaluated-vs-own-value')
                w = Fraction(0) if got == 'Z' else common.num_value(got)      # a lone reference to a blank is BLANK
                if w is None or w != exp_own:
                    v = {'what': 'cell %s of the loaded model evaluates to the wrong value' % a,
                         'input': inp, 'expected': str(exp_own), 'got': got}
                    res.violations.append(v)
                    out.append(v)
                    continue
            if own.uses_unbound(a):
                res.count('evaluated-skipped-name-of-unloaded-cell')
                continue
            want = common.call_real(ev_direct.evaluate, a)
            if not same_value(got, want):
                v = {'what': 'cell %s evaluates differently in the loaded model and in a model built from the '
                     'same contents' % a, 'input': inp, 'expected': want, 'got': got}
                res.violations.append(v)
                out.append(v)
        return out


def shrink(checker_factory, wb, ignore, what):
    """greedy shrinking of a failing (workbook, ignore): drop names, cells, sheets while it still fails"""
    def fails(w, ig):
        try:
            vs = checker_factory().check_workbook(w, [ig])
        except Exception:  # noqa: BLE001
            return False
        return any(v['what'].split(' ')[0:3] == what.split(' ')[0:3] for v in vs)
    cur = json.loads(json.dumps(wb))
    changed, budget = True, 60
    while changed and budget > 0:
        changed = False
        for i in range(len(cur['names']) - 1, -1, -1):
            t = json.loads(json.dumps(cur))
            del t['names'][i]
            budget -= 1
            if budget > 0 and fails(t, ignore):
                cur, changed = t, True
        for si in range(len(cur['sheets']) - 1, -1, -1):
            if len(cur['sheets']) > 1 and cur['sheets'][si]['name'] not in ignore:
                t = json.loads(json.dumps(cur))
                del t['sheets'][si]
                budget -= 1
                if budget > 0 and fails(t, ignore):
                    cur, changed = t, True
                    continue
            for ci in range(len(cur['sheets'][si]['cells']) - 1, -1, -1):
                t = json.loads(json.dumps(cur))
                del t['sheets'][si]['cells'][ci]
                budget -= 1
                if budget > 0 and fails(t, ignore):
                    cur, changed = t, True
    return cur


def _run_chunk(args):
    """one worker: its own random stream, temp dir, Result; returns the picklable parts"""
    import random
    seed, idx, nbooks, tier, widen, known, prop = args
    logging.disable(logging.CRITICAL)
    warnings.simplefilter('ignore')

    class C:
        pass
    ctx = C()
    ctx.tier, ctx.widen, ctx.known, ctx.replay = tier, widen, known, None
    ctx.rng = random.Random(seed * 1000003 + 11 + 7919 * (idx + 1))
    ctx.driver = common.Driver(prop)
    res = Result()
    thorough = tier == 'thorough' or widen
    with tempfile.TemporaryDirectory(prefix='c11-') as tmp:
        chk = Checker(ctx, res, tmp)
        gen = Gen(ctx.rng)
        shrunk = 0
        for i in range(nbooks):
            wb = json.loads(json.dumps(gen.workbook()))
            vs = chk.check_workbook(wb, ignore_lists(wb, ctx.rng, thorough), label='gen%d.%d' % (idx, i))
            if vs and shrunk < 2:
                shrunk += 1
                v = vs[0]
                silent = Result()
                small = shrink(lambda: Checker(ctx, silent, tmp), v['input']['workbook'], v['input']['ignore'],
                               v['what'])
                if small != v['input']['workbook']:
                    before = len(res.violations)
                    chk.check_workbook(small, [v['input']['ignore']], label='shrunk')
                    res.violations[:] = res.violations[before:] + res.violations[:before]
            if len(res.violations) > 40:
                break
    return {'evaluations': res.evaluations, 'nontrivial': res.nontrivial, 'samples': res.samples,
            'violations': res.violations, 'known': res.known, 'drift': res.drift,
            'distribution': res.distribution}


def _merge(res, part):
    res.evaluations += part['evaluations']
    res.nontrivial |= part['nontrivial']
    for x in part['samples']:
        res.sample(x)
    res.violations += part['violations']
    for k, v in part['known'].items():
        res.known.setdefault(k, []).extend(v)
    res.drift += part['drift']
    for k, n in part['distribution'].items():
        res.count(k, n)


def run(ctx):
    import multiprocessing
    import xlcalculator  # noqa: F401
    logging.disable(logging.CRITICAL)
    warnings.simplefilter('ignore')
    res = Result()
    res.rule = ('real .xlsx packages written from raw XML: 1-4 sheets (plain names, names needing quotes, with '
                'apostrophes, with "!" and "$"), 2-5 x 2-6 grids with every storage form (n int/float, s, str, inlineStr, '
                'b, e, date- and date-time-styled in the 1900 or the 1904 date system, empty; formulas with every kind of cached result or none; shared masters with '
                'members in rows, columns, rectangles and scattered, mixed $ references, cross-sheet references, '
                'reference-like text literals; in half of the multi-sheet workbooks the same unqualified formula texts and '
                'a same-text shared group on 2-4 sheets over different data), 0-4 defined names of every shape Excel accepts (leading "_" or backslash, dots, digits, "?", mixed '
                'case, unicode, reference look-alikes such as A1B, up to 255 characters; cells, ranges, $/no $, quoted sheets, hidden, '
                '#REF!, empty or ignored targets), loaded once per subset of ignored sheets; compared with Spec '
                '(cells, contents, names, cached values), with the Lean model (all dicts) and by evaluation with a '
                'read_and_parse_dict model and the harness\'s own values. One evaluation = one (workbook, ignore '
                'list); non-trivial = distinct (sheet count, ignored count, set of storage forms, set of name kinds)')
    thorough = ctx.tier == 'thorough' or ctx.widen
    nbooks = int(os.environ.get('C11_BOOKS', '0')) or (10000 if thorough else 300)
    with tempfile.TemporaryDirectory(prefix='c11-') as tmp:
        chk = Checker(ctx, res, tmp)
        if ctx.replay:
            data = json.loads(open(ctx.replay).read())
            inp = data.get('input', data)
            chk.check_workbook(inp['workbook'], [inp['ignore']], label='replay')
            return res
        # corpus + fixed regression workbooks first
        cdir = common.CORPUS / 'C11'
        if cdir.exists():
            for p in sorted(cdir.glob('*.json')):
                data = json.loads(p.read_text())
                inp = data.get('input', data)
                igs = [inp['ignore']] if 'ignore' in inp else ignore_lists(inp['workbook'], ctx.rng, thorough)
                chk.check_workbook(inp['workbook'], igs, label=p.name)
        for label, wb in ([] if os.environ.get('C11_SKIP_FIXED') else fixed_workbooks()):
            wb = json.loads(json.dumps(wb))
            chk.check_workbook(wb, ignore_lists(wb, ctx.rng, thorough), label=label)
    workers = int(os.environ.get('C11_WORKERS', '0')) or (12 if thorough else 4)
    nchunks = workers * (4 if thorough else 1)
    sizes = [nbooks // nchunks + (1 if i < nbooks % nchunks else 0) for i in range(nchunks)]
    jobs = [(ctx.seed, i, n, ctx.tier, ctx.widen, ctx.known, ctx.prop) for i, n in enumerate(sizes) if n]
    if workers <= 1:
        parts = [_run_chunk(j) for j in jobs]
    else:
        with multiprocessing.get_context('fork').Pool(workers) as pool:
            parts = pool.map(_run_chunk, jobs, chunksize=1)
    for part in parts:
        _merge(res, part)
    res.count('workbooks', nbooks)
    if res.drift:
        res.notes.append('%d model/implementation differences where the code still meets Spec' % len(res.drift))
    return res
