"""C12 — a persisted model restores to an equivalent model (DESIGN.md §4 C12).

Real side: generated models (all value types, formulas, ranges, defined names, several sheets) are
persisted with `Model.persist_to_json_file` at four points of a build / compile / evaluate / overwrite
history, under the extensions `.json`, `.gz`, `.GZ`, `.gzip`, restored with
`Model().construct_from_json_file(..., build_code=True)`, compared deeply (cells: address, value,
formula text; formulae; defined names: kind and target; ranges: address matrix), and every cell is then
evaluated in the restored model and in the original.

Lean side: the object graph of the dict that `persist_to_json_file` writes is walked (in jsonpickle's
traversal order, shared objects as `alias <home path>`) and sent to the driver, which runs the modelled
`construct (persist m)` and answers with the observable of the modelled restored model (impl), the
observable of the original (spec), whether the state is `Persistable`, and the opener both sides
choose for the file name.
"""
import dataclasses
import datetime
import math
import os
import tempfile
import time
import uuid

import common
from common import Result, parse_kv, canon, w_text

LEVEL_TEXT = (
    'Lean theorems over an abstract Python object graph with a model of jsonpickle as observed '
    '(keys=True, allow-list / importable classes, slot-only objects rebuilt through __getnewargs__, shared '
    'objects as aliases): writer and reader choose the same opener for every file name; the keys written are '
    'the keys read; every dataclass that can occur in a persisted model is in the allow-list; decode (encode g) '
    '= g for every encodable graph, hence construct (persist m) = m for every Persistable model, and freshly '
    'built, compiled, evaluated, overwritten and restored models are Persistable. jsonpickle itself is '
    'modelled, not verified: the strength of this check is the differential run (generated models x 4 history '
    'points x 4 file extensions, deep comparison and re-evaluation of every cell).')
LEVEL_NOTE = (
    'Trusted: Lean kernel (axioms propext, Classical.choice, Quot.sound); jsonpickle, json, gzip and '
    'os.path.splitext (modelled as observed, tied by the correspondence only); the tables regenerated from '
    'the running code (dataclass fields, persisted / read keys, allow-list, gzip extension tests, '
    '__getnewargs__); the formula parser and evaluator are uninterpreted parameters of the Lean model.')
DESIGN_REF = '§4 C12'

TRUSTED = [
    'Lean 4.33 kernel; axioms propext, Classical.choice, Quot.sound only',
    'jsonpickle 4.x (object graph <-> JSON), json (float repr round trip), gzip, os.path.splitext and '
    'str.lower: modelled as observed in lean/XlVerif/Model/C12.lean, tied to the running code only by this '
    'correspondence run',
    'the translator harness/extractors/c12_dataclass.py (dataclass field tables, persisted/read keys, '
    'allow-list, extension tests, ExcelType.__getnewargs__)',
    'the formula parser (build_code) and the evaluator enter the Lean model as uninterpreted functions of the '
    'observable state; their behaviour on restored models is checked by re-evaluating every cell',
    'the harness walker that abstracts a live model into the object graph sent to the Lean driver',
]
ASSUMPTIONS = [
    'dict keys (cell addresses, defined names) are not jsonpickle tags (py/object, py/id, ...): Excel forbids '
    '"/" in sheet and defined names, so such keys cannot come from a workbook',
    'volatile functions (NOW, TODAY, RAND) are not generated: their value legitimately differs between the '
    'two evaluations',
    'uuid identifiers of re-parsed tokens and AST nodes are fresh by design and are not compared; the AST is '
    'compared through evaluation only',
    'the order of dict entries and the identity (aliasing) of shared objects are compared too, but a '
    'difference there alone is reported as model drift, not as a violation (the statement is silent)',
    'equality of values: same canonical value (common.canon) and, for zero, the same sign; NaN equals NaN',
    'the jsonpickle allow-list is only needed where a class cannot be imported by name; the probe that '
    'blocks the import fallback for xlcalculator.xltypes / xlcalculator.tokenizer is part of the check',
]

EXTS = ['.json', '.gz', '.GZ', '.gzip']
POINTS = ['uncompiled', 'compiled', 'evaluated', 'overwritten']

SHEETS = ['Sheet1', 'Data', 'My Sheet', 'Übersicht', 'S 2', "O'Neil"]
TEXTS = ['abc', 'héllo wörld', '日本語テキスト', 'it\'s', 'a"b', ' lead', 'TRUE', '1e5', '12', 'x' * 300, 'a\tb',
         'line\nbreak', '\U0001F600 smile', '#N/A', 'py/object', 'json://k', '\\', 'null', '{"a": 1}', "'", '<&>']
INTS = [0, 1, -1, 2, 7, 42, -13, 255, 10 ** 9, 2 ** 53, 2 ** 53 + 1, -(2 ** 63), 2 ** 64, 10 ** 30, -(10 ** 40)]
FLOATS = [0.0, -0.0, 0.5, -2.5, 0.1, 1 / 3, 1e308, 1.7976931348623157e308, 5e-324, 2.2250738585072014e-308,
          -1e-300, 1e-7, 123456789.123456789, 1e15 + 0.5, 3.0, 1e22, float('inf'), float('-inf'), float('nan')]
DATES = [datetime.datetime(2021, 3, 4, 5, 6, 7), datetime.datetime(1900, 1, 1), datetime.datetime(1999, 12, 31, 23, 59, 59),
         datetime.datetime(2024, 2, 29), datetime.datetime(2020, 1, 2, 3, 4, 5, 678901), datetime.datetime(9999, 12, 31)]


# ------------------------------------------------------------------------------------------ generator

def quote_sheet(s):
    if all(c.isalnum() or c == '_' for c in s) and s.isascii():
        return s
    return "'" + s.replace("'", "''") + "'"


def col_letter(i):
    return 'ABCDEFGH'[i]


def gen_spec(rng, idx, big=False):
    """An acyclic model: value cells, formula cells (only referring to earlier cells), names, later
    overwrites.  Everything is plain data so that a failing case can be replayed."""
    nsheets = rng.choice([1, 1, 2, 2, 3])
    pool = [s for s in SHEETS if s != "O'Neil" or rng.random() < 0.15]
    sheets = ['Sheet1'] + rng.sample([s for s in pool if s != 'Sheet1'], nsheets - 1)
    default_sheet = 'Sheet1'
    cells = {}          # address -> native value or formula text
    post_sets = []      # [(address, tagged value)] applied with set_cell_value before the first persist
    order = []          # addresses in creation order
    numeric = []        # addresses holding numbers (usable in arithmetic)
    ncells = rng.randint(3, 9) if not big else rng.randint(10, 40)
    used = set()

    def fresh_addr():
        for _ in range(200):
            s = rng.choice(sheets)
            a = f'{s}!{col_letter(rng.randrange(4))}{rng.randint(1, 6 if not big else 14)}'
            if a not in used:
                used.add(a)
                return a
        return None

    def ref(addr, frm_sheet):
        s, c = addr.split('!')
        if s == frm_sheet and rng.random() < 0.6:
            if rng.random() < 0.2:
                import re
                m = re.match(r'([A-Z]+)(\d+)', c)
                return f'${m.group(1)}${m.group(2)}'
            return c
        return quote_sheet(s) + '!' + c

    # value cells
    for _ in range(ncells):
        a = fresh_addr()
        if a is None:
            break
        kind = rng.choice(['int', 'int', 'float', 'float', 'text', 'bool', 'date', 'empty', 'special'])
        if kind == 'int':
            cells[a] = rng.choice(INTS) if rng.random() < 0.5 else rng.randint(-1000, 1000)
            numeric.append(a)
        elif kind == 'float':
            v = rng.choice(FLOATS) if rng.random() < 0.6 else rng.uniform(-1e6, 1e6)
            if isinstance(v, float) and (math.isnan(v) or math.isinf(v)):
                cells[a] = 1.5
                post_sets.append((a, tag_value(v)))
            else:
                cells[a] = v
                numeric.append(a)
        elif kind == 'text':
            t = rng.choice(TEXTS)
            if t.startswith('='):
                t = 'x' + t
            cells[a] = t
        elif kind == 'bool':
            cells[a] = rng.choice([True, False])
        elif kind == 'date':
            cells[a] = 0
            post_sets.append((a, tag_value(rng.choice(DATES))))
        elif kind == 'empty':
            cells[a] = 0
            post_sets.append((a, tag_value('')))
        else:
            cells[a] = 0
            post_sets.append((a, tag_value(None)))
        order.append(a)

    values = list(order)
    names = {}
    # defined names for cells
    for _ in range(rng.choice([0, 1, 1, 2])):
        a = rng.choice(values)
        s, c = a.split('!')
        import re
        m = re.match(r'([A-Z]+)(\d+)', c)
        nm = rng.choice(['rate', 'Total_1', 'näme', 'x.y', '_u', 'tax']) + str(len(names))
        names[nm] = f'{quote_sheet(s)}!${m.group(1)}${m.group(2)}'
    # defined names for ranges
    range_names = []
    for _ in range(rng.choice([0, 1, 1, 2])):
        s = rng.choice(sheets)
        c0, r0 = rng.randrange(3), rng.randint(1, 4)
        c1, r1 = c0 + rng.randrange(2), r0 + rng.randrange(3)
        nm = rng.choice(['rng', 'Block', 'täble', 'data_']) + str(len(names))
        names[nm] = f'{quote_sheet(s)}!${col_letter(c0)}${r0}:${col_letter(c1)}${r1}'
        range_names.append((nm, f'{s}!{col_letter(c0)}{r0}:{col_letter(c1)}{r1}'))

    # formula cells
    nform = rng.randint(2, 7) if not big else rng.randint(8, 30)
    for _ in range(nform):
        a = fresh_addr()
        if a is None:
            break
        sh = a.split('!')[0]
        num = [x for x in numeric if x != a]
        anyc = [x for x in order if x != a]
        kinds = ['arith', 'arith', 'sum', 'cmp', 'text', 'err', 'if', 'blankref', 'date', 'copy', 'const', 'name',
                 'rname', 'lit', 'fn']
        k = rng.choice(kinds)
        f = None
        if k == 'arith' and num:
            x, y = rng.choice(num), rng.choice(num)
            f = f'={ref(x, sh)}{rng.choice("+-*")}{ref(y, sh)}' + rng.choice(['', '+1', '*0.5', '-2'])
        elif k == 'sum':
            c0, r0 = rng.randrange(3), rng.randint(1, 4)
            c1, r1 = c0 + rng.randrange(2), r0 + rng.randrange(3)
            s2 = rng.choice(sheets)
            rtxt = f'{col_letter(c0)}{r0}:{col_letter(c1)}{r1}'
            if f'{s2}!{rtxt}' and not any(a == f'{s2}!{col_letter(c)}{r}' for c in range(c0, c1 + 1)
                                          for r in range(r0, r1 + 1)):
                # only ranges whose cells are value cells or empty (keeps the model acyclic)
                inside = [f'{s2}!{col_letter(c)}{r}' for c in range(c0, c1 + 1) for r in range(r0, r1 + 1)]
                if all((x not in cells) or not (isinstance(cells[x], str) and cells[x].startswith('='))
                       for x in inside):
                    for x in inside:
                        used.add(x)
                    pre = '' if (s2 == sh and rng.random() < 0.5) else quote_sheet(s2) + '!'
                    f = f'={rng.choice(["SUM", "COUNT", "MAX", "SUM"])}({pre}{rtxt})'
        elif k == 'cmp' and anyc:
            f = f'={ref(rng.choice(anyc), sh)}{rng.choice(["<", ">", "=", "<>", ">="])}{rng.choice(["1", "0", chr(34) + "b" + chr(34)])}'
        elif k == 'text' and anyc:
            f = f'={ref(rng.choice(anyc), sh)}&"{rng.choice(["x", "ü", " ", "", "日本"])}"'
        elif k == 'err':
            f = rng.choice(['=1/0', '=SQRT(-1)', '=NA()', '=LEFT("a",-1)', '=1+"a"', '=#REF!', '=#N/A', 
                            '=' + ref(rng.choice(num), sh) + '/0' if num else '=2/0'])
        elif k == 'if' and num:
            f = f'=IF({ref(rng.choice(num), sh)}>0,"pos",{ref(rng.choice(num), sh)})'
        elif k == 'blankref':
            f = f'={quote_sheet(rng.choice(sheets))}!H{rng.randint(20, 25)}'
        elif k == 'date':
            f = rng.choice(['=DATE(2020,1,2)', '=DATE(1999,12,31)', '=DATE(2024,2,29)+1', '=YEAR(DATE(2020,5,6))'])
        elif k == 'copy' and anyc:
            f = f'={ref(rng.choice(anyc), sh)}'
        elif k == 'const':
            f = rng.choice(['=TRUE', '=FALSE', '=1', '=0.1+0.2', '="tëxt"', '=""', '=-0', '=1E308*10', '=2^0.5', '=1E-320',
                            '=PI()', '=-(1E308*10)', '=1=1', '=10^30', '=5', '="a""b"'])
        elif k == 'name' and any(':' not in v for v in names.values()):
            nm = rng.choice([n for n, v in names.items() if ':' not in v])
            f = rng.choice([f'={nm}', f'={nm}&"!"', f'=IF(TRUE,{nm},0)'])
        elif k == 'rname' and range_names:
            nm, raddr = rng.choice(range_names)
            s2, rtxt = raddr.split('!')
            import re
            m = re.match(r'([A-Z])(\d+):([A-Z])(\d+)', rtxt)
            inside = [f'{s2}!{chr(c)}{r}' for c in range(ord(m.group(1)), ord(m.group(3)) + 1)
                      for r in range(int(m.group(2)), int(m.group(4)) + 1)]
            if a not in inside and all((x not in cells) or not (isinstance(cells[x], str) and cells[x].startswith('='))
                                       for x in inside):
                for x in inside:
                    used.add(x)
                f = f'={rng.choice(["SUM", "COUNTA", "MIN"])}({nm})'
        elif k == 'lit' and num:
            # a formula whose result is an array (the whole range is stored as the cell's value)
            x = rng.choice(num)
            s2, c = x.split('!')
            f = f'={quote_sheet(s2)}!{c}:{c}'
        elif k == 'fn' and anyc:
            x = ref(rng.choice(anyc), sh)
            f = rng.choice([f'=LEN({x})', f'=ISNUMBER({x})', f'=UPPER({x})', f'=ABS({x})', f'=ROUND({x},1)',
                            f'=ISERROR({x}/0)', f'=CHOOSE(1,{x},2)', f'=AND({x},TRUE)', f'=CONCAT({x},"-",{x})'])
        if f is None:
            f = '=1+1'
        cells[a] = f
        order.append(a)
    # overwrites applied at the fourth point
    over = []
    for _ in range(rng.randint(1, 4)):
        a = rng.choice(values)
        kind = rng.choice(['int', 'float', 'text', 'bool', 'date', 'empty', 'none', 'new'])
        if kind == 'new':
            s = rng.choice(sheets)
            a = f'{s}!G{rng.randint(1, 9)}'
        v = {'int': lambda: rng.choice(INTS), 'float': lambda: rng.choice(FLOATS), 'text': lambda: rng.choice(TEXTS),
             'bool': lambda: rng.choice([True, False]), 'date': lambda: rng.choice(DATES), 'empty': lambda: '',
             'none': lambda: None, 'new': lambda: rng.choice([5, 'new', 2.5])}[kind]()
        over.append((a, tag_value(v)))
    if names and rng.random() < 0.3:
        cn = [n for n, v in names.items() if ':' not in v]
        if cn:
            over.append((rng.choice(cn), tag_value(rng.choice([11, 0.25, 'via name']))))
    return {'id': idx, 'default_sheet': default_sheet, 'cells': [[a, tag_value(cells[a])] for a in order],
            'post_sets': post_sets, 'names': names, 'overwrites': over}


def tag_value(v):
    """JSON-able tagged form of a native value (so that specs can be stored in replays / corpus)."""
    if v is None:
        return ['none']
    if isinstance(v, bool):
        return ['bool', v]
    if isinstance(v, int):
        return ['int', str(v)]
    if isinstance(v, float):
        return ['float', v.hex() if not (math.isnan(v) or math.isinf(v)) else repr(v)]
    if isinstance(v, str):
        return ['str', v]
    if isinstance(v, datetime.datetime):
        return ['date', v.isoformat()]
    raise TypeError(v)


def untag(t):
    k = t[0]
    if k == 'none':
        return None
    if k == 'bool':
        return bool(t[1])
    if k == 'int':
        return int(t[1])
    if k == 'float':
        return float.fromhex(t[1]) if t[1] not in ('nan', 'inf', '-inf') else float(t[1])
    if k == 'str':
        return t[1]
    if k == 'date':
        return datetime.datetime.fromisoformat(t[1])
    raise ValueError(t)


# ------------------------------------------------------------------------------------------ real side

def build_state(spec, point):
    """Replay the history of `spec` up to `point` (index into POINTS) on the real code."""
    from xlcalculator import ModelCompiler, Evaluator
    mc = ModelCompiler()
    d = {a: untag(v) for a, v in spec['cells']}
    mc.read_and_parse_dict(d, default_sheet=spec['default_sheet'], build_code=False)
    if spec['names']:
        # the same steps ModelCompiler.parse_archive performs for a workbook's defined names
        mc.defined_names = dict(spec['names'])
        mc.build_defined_names()
        mc.link_cells_to_defined_names()
        mc.build_ranges(default_sheet=spec['default_sheet'])
    m = mc.model
    for a, v in spec['post_sets']:
        m.set_cell_value(a, untag(v))
    if point >= 1:
        m.build_code()
    if point >= 2:
        evaluate_all(m)
    if point >= 3:
        ev = Evaluator(m)
        for a, v in spec['overwrites']:
            ev.set_cell_value(a, untag(v))
        evaluate_all(m)
    return m


def evaluate_all(m):
    """Evaluate every cell; returns {address: canonical outcome}."""
    from xlcalculator import Evaluator
    ev = Evaluator(m)
    out = {}
    for a in list(m.cells):
        out[a] = valkey_outcome(ev.evaluate, a)
    return out


def valkey_outcome(fn, *args):
    try:
        return valkey(fn(*args))
    except RecursionError:
        return 'X:RecursionError'
    except Exception as exc:  # noqa: BLE001
        return 'X:' + type(exc).__name__


def valkey(v):
    """Canonical value (common.canon) refined by the sign of zero."""
    from xlcalculator.xlfunctions import func_xltypes as ft
    c = canon(v)
    inner = v.value if isinstance(v, (ft.Number, ft.Text, ft.Boolean, ft.DateTime)) else v
    if isinstance(inner, float) and inner == 0 and math.copysign(1.0, inner) < 0:
        c += '(-0)'
    return c


def typekey(v):
    return type(v).__module__.split('.')[-1] + '.' + type(v).__name__


def token_obs(t, with_uuid=True):
    r = [t.tvalue, t.ttype, t.tsubtype]
    if with_uuid:
        r.append(str(getattr(t, 'unique_identifier', None)))
    return r


def formula_obs(f):
    if f is None:
        return None
    if not dataclasses.is_dataclass(f):
        return {'not-a-formula': typekey(f)}
    d = {}
    for fld in dataclasses.fields(f):
        if fld.name == 'ast':
            continue
        if not hasattr(f, fld.name):
            d[fld.name] = '<missing>'
            continue
        v = getattr(f, fld.name)
        if fld.name == 'tokens':
            d[fld.name] = [token_obs(t) if hasattr(t, 'tvalue') else ['not-a-token', typekey(t)] for t in v]
        elif fld.name == 'associated_cells':
            d[fld.name] = ['set' if isinstance(v, (set, frozenset)) else typekey(v)] + sorted(map(str, v))
        else:
            d[fld.name] = v
    return d


def observe(m):
    """The property's observable of a model, as plain comparable data.

    `core` holds what the statement names (cells: address, value, formula text; formulae; defined names:
    kind and target; ranges: address matrix), `strict` everything else that the dataclasses carry plus dict
    order and aliasing."""
    from xlcalculator import xltypes
    core = {'cells': {}, 'formulae': {}, 'defined_names': {}, 'ranges': {}}
    strict = {'cells': {}, 'formulae': {}, 'defined_names': {}, 'ranges': {}, 'order': {}, 'alias': {}}
    for sec in ('cells', 'formulae', 'defined_names', 'ranges'):
        d = getattr(m, sec)
        if not isinstance(d, dict):
            core[sec] = {'<not-a-dict>': typekey(d)}
            continue
        strict['order'][sec] = list(d.keys())
    for k, c in (m.cells.items() if isinstance(m.cells, dict) else []):
        if not isinstance(c, xltypes.XLCell):
            core['cells'][k] = ['not-a-cell', typekey(c)]
            continue
        ftxt = None
        if c.formula is not None:
            ftxt = getattr(c.formula, 'formula', ['not-a-formula', typekey(c.formula)])
        core['cells'][k] = [c.address, valkey(c.value), ftxt]
        strict['cells'][k] = {'type': typekey(c.value), 'sheet': c.sheet, 'row': c.row, 'column': c.column,
                              'row_index': c.row_index, 'column_index': c.column_index,
                              'defined_names': list(c.defined_names), 'formula': formula_obs(c.formula),
                              'need_update': getattr(c, 'need_update', '<unset>')}
    for k, f in (m.formulae.items() if isinstance(m.formulae, dict) else []):
        core['formulae'][k] = getattr(f, 'formula', ['not-a-formula', typekey(f)])
        strict['formulae'][k] = formula_obs(f)
        owner = [a for a, c in m.cells.items() if getattr(c, 'formula', None) is f]
        strict['alias']['formulae:' + k] = sorted(owner)
    for k, dn in (m.defined_names.items() if isinstance(m.defined_names, dict) else []):
        if isinstance(dn, xltypes.XLCell):
            core['defined_names'][k] = ['cell', dn.address]
            strict['alias']['name:' + k] = sorted(a for a, c in m.cells.items() if c is dn)
        elif isinstance(dn, xltypes.XLRange):
            core['defined_names'][k] = ['range', dn.address_str, [list(r) for r in dn.cells]]
            strict['defined_names'][k] = {'name': dn.name, 'sheet': dn.sheet, 'value': valkey(dn.value)}
            strict['alias']['name:' + k] = sorted(a for a, r in m.ranges.items() if r is dn)
        else:
            core['defined_names'][k] = ['not-a-name-target', typekey(dn)]
    for k, r in (m.ranges.items() if isinstance(m.ranges, dict) else []):
        if isinstance(r, xltypes.XLRange):
            core['ranges'][k] = [r.address_str, [list(row) for row in r.cells]]
            strict['ranges'][k] = {'name': r.name, 'sheet': r.sheet, 'value': valkey(r.value)}
        else:
            core['ranges'][k] = ['not-a-range', typekey(r)]
    return core, strict


def first_diff(a, b, path=''):
    """Path and the two values of the first difference between two plain data structures."""
    if type(a) is not type(b):
        return path, a, b
    if isinstance(a, dict):
        for k in a:
            if k not in b:
                return f'{path}/{k}', a[k], '<absent>'
        for k in b:
            if k not in a:
                return f'{path}/{k}', '<absent>', b[k]
        for k in a:
            d = first_diff(a[k], b[k], f'{path}/{k}')
            if d:
                return d
        return None
    if isinstance(a, list):
        if len(a) != len(b):
            return path + '/len', a, b
        for i, (x, y) in enumerate(zip(a, b)):
            d = first_diff(x, y, f'{path}/{i}')
            if d:
                return d
        return None
    if a != b:
        return path, a, b
    return None


def round_trip(m, ext, tmpdir, n, build_code=True):
    from xlcalculator import Model
    fname = os.path.join(tmpdir, f'm{n}{ext}')
    m.persist_to_json_file(fname)
    with open(fname, 'rb') as fh:
        head = fh.read(2)
    m2 = Model()
    m2.construct_from_json_file(fname, build_code=build_code)
    os.unlink(fname)
    return m2, head == b'\x1f\x8b'


def short(x, n=300):
    s = repr(x)
    return s if len(s) <= n else s[:n] + '…'
