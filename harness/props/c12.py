"""C12 — a persisted model restores to an equivalent model (DESIGN.md §4 C12).

Real side: generated models (all value types, formulas, ranges, defined names, several sheets) are
persisted with `Model.persist_to_json_file` at five points of a build / compile / evaluate / overwrite /
re-evaluate history, under the extensions `.json`, `.gz`, `.GZ`, `.gzip`, restored with
`Model().construct_from_json_file(..., build_code=True)`, compared deeply (cells: address, value,
formula text; formulae; defined names: kind and target; ranges: address matrix), and every cell is then
evaluated in the restored model and in the original.

Lean side: the object graph of the dict that `persist_to_json_file` writes is walked (in jsonpickle's
traversal order, shared objects as `alias <home path>`) and sent to the driver, which runs the modelled
`construct (persist m)` and answers with the observable of the modelled restored model (impl), the
observable of the original (spec), whether the state is `Persistable`, and the opener both sides
choose for the file name.
"""
import dataclasses
import datetime
import math
import os
import tempfile
import time
import uuid

import common
from common import Result, parse_kv, canon, w_text

LEVEL_TEXT = (
    'Lean theorems over an abstract Python object graph with a model of jsonpickle as observed (allow-list / '
    'importable classes, slot-only objects rebuilt through __getnewargs__, shared objects as aliases, encoder '
    'recursion): writer and reader choose the same opener for every file name, and it is gzip exactly for the '
    'names whose lower-cased extension is .gz/.gzip (the model of os.path.splitext is proved equal to the '
    'reference reading of "extension" for every path); the keys written are the keys read; every dataclass that '
    'can occur in a persisted model is in the allow-list; decode (encode g) = g for every encodable graph '
    '(structural induction), hence construct (persist m) = m for every Persistable model (guarded by the encoder '
    'depth: finding D1201), the restored model shows the same cells / formulae / names / ranges, compiles to the '
    'compiled original and so evaluates identically; built, compiled, evaluated, overwritten and restored models '
    'are Persistable. jsonpickle itself is modelled, not verified: the strength of this check is the '
    'differential run (generated models x 5 history points x 4 file extensions, several constructions from one '
    'file with the earlier restored model used in between, constructing into used Model objects (roll-back, '
    'an object that loaded another file), persisting over an existing path, deep comparison and '
    're-evaluation of every cell; the Lean model is also asked whether every real state is Persistable).')
LEVEL_NOTE = (
    'Trusted: Lean kernel (axioms propext, Classical.choice, Quot.sound); jsonpickle, json, gzip and '
    'str.lower (modelled as observed, tied by the correspondence only); the tables regenerated from the running '
    'code by introspection and probes (dataclass fields, persisted / read keys, allow-list, gzip-or-plain per file '
    'name, __getnewargs__, whether the AST is persisted); the formula parser and evaluator are uninterpreted parameters of the Lean model. '
    'Partial: restore theorems carry the guard Persistable (encodable and not nested deeper than the encoder '
    'allows) because of finding D1201.')
DESIGN_REF = '§4 C12'

TRUSTED = [
    'Lean 4.33 kernel; axioms propext, Classical.choice, Quot.sound only',
    'jsonpickle 4.x (object graph <-> JSON), json (float repr round trip), gzip, os.path.splitext and '
    'str.lower: modelled as observed in lean/XlVerif/Model/C12.lean, tied to the running code only by this '
    'correspondence run',
    'the translator harness/extractors/c12_dataclass.py: the tables are observations of the running code '
    '(dataclasses.fields; probes: magic bytes of files written under 23 extension spellings and 31 awkward names, '
    'which payload the reader accepts under each name, top-level keys of a persisted probe model and where each '
    'section lands in a fresh Model, classes rebuilt with the import fallback blocked, json:// key escaping, '
    '__getnewargs__ of probe instances, whether the AST is persisted) — not readings of the source text',
    'the formula parser (build_code) and the evaluator enter the Lean model as uninterpreted functions of the '
    'observable state; their behaviour on restored models is checked by re-evaluating every cell',
    'the harness walker that abstracts a live model into the object graph sent to the Lean driver',
]
ASSUMPTIONS = [
    'dict keys (cell addresses, defined names) are not jsonpickle tags (py/object, py/id, ...) and do not start '
    'with "json://": Excel forbids "/" in sheet and defined names, so such keys cannot come from a workbook '
    '(observed: for a sheet called "json://s" jsonpickle escapes the keys and then resolves the back references '
    'of formulae/defined_names to the wrong objects)',
    'volatile functions (NOW, TODAY, RAND) are not generated: their value legitimately differs between the '
    'two evaluations',
    'uuid identifiers of re-parsed tokens and AST nodes are fresh by design and are not compared; the AST is '
    'compared through evaluation only',
    'the order of dict entries and the identity (aliasing) of shared objects are compared too, but a '
    'difference there alone is reported as model drift, not as a violation (the statement is silent)',
    'equality of values: same canonical value (common.canon) and, for zero, the same sign; NaN equals NaN',
    'whole-column / whole-row ranges (a million cells) are not generated; array results stored in a cell are '
    'generated but opaque to the Lean model (a library object with its own jsonpickle handler)',
    'the jsonpickle allow-list is only needed where a class cannot be imported by name; the probe that '
    'blocks the import fallback for xlcalculator.xltypes / xlcalculator.tokenizer is part of the check',
]

EXTS = ['.json', '.gz', '.GZ', '.gzip']
# 'overwritten': every cell evaluated, then inputs overwritten with set_cell_value, the dependents NOT evaluated
# again (their stored values are outdated when the model is persisted); 'reevaluated': ... and evaluated again.
POINTS = ['uncompiled', 'compiled', 'evaluated', 'overwritten', 'reevaluated']

# texts that are NOT in Unicode normal form C / have compatibility equivalents: a restore must not "repair" them
NON_NFC = ['cafe\u0301', 'n\u0303and\u0303u', '\u2126 ohm', '\u212b ngstrom', '\u212a elvin', '\u1112\u1161\u11ab jamo',
           '\u0301 lone mark', 'a\u00a0b nbsp', '\U0001F468\u200d\U0001F469\u200d\U0001F467 zwj', '\U0001D11E astral',
           '\ufb01 ligature', 'e\u0323\u0302 two marks', '\u00c5 vs A\u030a']
SHEETS = ['Sheet1', 'Data', 'My Sheet', 'Übersicht', 'S 2', "O'Neil", 'Cafe\u0301', '\u2126hm']
TEXTS = ['abc', 'héllo wörld', '日本語テキスト', 'it\'s', 'a"b', ' lead', 'TRUE', '1e5', '12', 'x' * 300, 'a\tb',
         'line\nbreak', '\U0001F600 smile', '#N/A', 'py/object', 'json://k', '\\', 'null', '{"a": 1}', "'", '<&>']
TEXTS = TEXTS + NON_NFC
INTS = [0, 1, -1, 2, 7, 42, -13, 255, 10 ** 9, 2 ** 53, 2 ** 53 + 1, -(2 ** 63), 2 ** 64, 10 ** 30, -(10 ** 40)]
FLOATS = [0.0, -0.0, 0.5, -2.5, 0.1, 1 / 3, 1e308, 1.7976931348623157e308, 5e-324, 2.2250738585072014e-308,
          -1e-300, 1e-7, 123456789.123456789, 1e15 + 0.5, 3.0, 1e22, float('inf'), float('-inf'), float('nan')]
DATES = [datetime.datetime(2021, 3, 4, 5, 6, 7), datetime.datetime(1900, 1, 1), datetime.datetime(1999, 12, 31, 23, 59, 59),
         datetime.datetime(2024, 2, 29), datetime.datetime(2020, 1, 2, 3, 4, 5, 678901), datetime.datetime(9999, 12, 31)]


# ------------------------------------------------------------------------------------------ generator

def quote_sheet(s):
    if all(c.isalnum() or c == '_' for c in s) and s.isascii():
        return s
    return "'" + s.replace("'", "''") + "'"


def col_letter(i):
    return 'ABCDEFGH'[i]


def gen_spec(rng, idx, big=False):
    """An acyclic model: value cells, formula cells (only referring to earlier cells), names, later
    overwrites.  Everything is plain data so that a failing case can be replayed."""
    nsheets = rng.choice([1, 1, 2, 2, 3])
    pool = [s for s in SHEETS if s != "O'Neil" or rng.random() < 0.15]
    sheets = ['Sheet1'] + rng.sample([s for s in pool if s != 'Sheet1'], nsheets - 1)
    default_sheet = 'Sheet1'
    cells = {}          # address -> native value or formula text
    post_sets = []      # [(address, tagged value)] applied with set_cell_value before the first persist
    order = []          # addresses in creation order
    numeric = []        # addresses holding numbers (usable in arithmetic)
    ncells = rng.randint(3, 9) if not big else rng.randint(10, 40)
    used = set()

    def fresh_addr():
        for _ in range(200):
            s = rng.choice(sheets)
            a = f'{s}!{col_letter(rng.randrange(4))}{rng.randint(1, 6 if not big else 14)}'
            if a not in used:
                used.add(a)
                return a
        return None

    def ref(addr, frm_sheet):
        s, c = addr.split('!')
        if s == frm_sheet and rng.random() < 0.6:
            if rng.random() < 0.2:
                import re
                m = re.match(r'([A-Z]+)(\d+)', c)
                return f'${m.group(1)}${m.group(2)}'
            return c
        return quote_sheet(s) + '!' + c

    # value cells
    for _ in range(ncells):
        a = fresh_addr()
        if a is None:
            break
        kind = rng.choice(['int', 'int', 'float', 'float', 'text', 'bool', 'date', 'empty', 'special'])
        if kind == 'int':
            cells[a] = rng.choice(INTS) if rng.random() < 0.5 else rng.randint(-1000, 1000)
            numeric.append(a)
        elif kind == 'float':
            v = rng.choice(FLOATS) if rng.random() < 0.6 else rng.uniform(-1e6, 1e6)
            if isinstance(v, float) and (math.isnan(v) or math.isinf(v)):
                cells[a] = 1.5
                post_sets.append((a, tag_value(v)))
            else:
                cells[a] = v
                numeric.append(a)
        elif kind == 'text':
            t = rng.choice(TEXTS)
            if t.startswith('='):
                t = 'x' + t
            cells[a] = t
        elif kind == 'bool':
            cells[a] = rng.choice([True, False])
        elif kind == 'date':
            cells[a] = 0
            post_sets.append((a, tag_value(rng.choice(DATES))))
        elif kind == 'empty':
            cells[a] = 0
            post_sets.append((a, tag_value('')))
        else:
            cells[a] = 0
            post_sets.append((a, tag_value(None)))
        order.append(a)

    values = list(order)
    names = {}
    # defined names for cells
    for _ in range(rng.choice([0, 1, 1, 2])):
        a = rng.choice(values)
        s, c = a.split('!')
        import re
        m = re.match(r'([A-Z]+)(\d+)', c)
        nm = rng.choice(['rate', 'Total_1', 'näme', 'x.y', '_u', 'tax', 'nom\u0303', '\u212bn']) + str(len(names))
        names[nm] = f'{quote_sheet(s)}!${m.group(1)}${m.group(2)}'
    # defined names for ranges
    range_names = []
    for _ in range(rng.choice([0, 1, 1, 2])):
        s = rng.choice(sheets)
        c0, r0 = rng.randrange(3), rng.randint(1, 4)
        c1, r1 = c0 + rng.randrange(2), r0 + rng.randrange(3)
        nm = rng.choice(['rng', 'Block', 'täble', 'data_', 'ta\u0308ble']) + str(len(names))
        names[nm] = f'{quote_sheet(s)}!${col_letter(c0)}${r0}:${col_letter(c1)}${r1}'
        range_names.append((nm, f'{s}!{col_letter(c0)}{r0}:{col_letter(c1)}{r1}'))

    # formula cells
    nform = rng.randint(2, 7) if not big else rng.randint(8, 30)
    for _ in range(nform):
        a = fresh_addr()
        if a is None:
            break
        sh = a.split('!')[0]
        num = [x for x in numeric if x != a]
        anyc = [x for x in order if x != a]
        kinds = ['arith', 'arith', 'sum', 'cmp', 'text', 'err', 'if', 'blankref', 'date', 'copy', 'const', 'name',
                 'rname', 'lit', 'fn']
        k = rng.choice(kinds)
        f = None
        if k == 'arith' and num:
            x, y = rng.choice(num), rng.choice(num)
            f = f'={ref(x, sh)}{rng.choice("+-*")}{ref(y, sh)}' + rng.choice(['', '+1', '*0.5', '-2'])
        elif k == 'sum':
            c0, r0 = rng.randrange(3), rng.randint(1, 4)
            c1, r1 = c0 + rng.randrange(2), r0 + rng.randrange(3)
            s2 = rng.choice(sheets)
            rtxt = f'{col_letter(c0)}{r0}:{col_letter(c1)}{r1}'
            if f'{s2}!{rtxt}' and not any(a == f'{s2}!{col_letter(c)}{r}' for c in range(c0, c1 + 1)
                                          for r in range(r0, r1 + 1)):
                # only ranges whose cells are value cells or empty (keeps the model acyclic)
                inside = [f'{s2}!{col_letter(c)}{r}' for c in range(c0, c1 + 1) for r in range(r0, r1 + 1)]
                if all((x not in cells) or not (isinstance(cells[x], str) and cells[x].startswith('='))
                       for x in inside):
                    for x in inside:
                        used.add(x)
                    pre = '' if (s2 == sh and rng.random() < 0.5) else quote_sheet(s2) + '!'
                    f = f'={rng.choice(["SUM", "COUNT", "MAX", "SUM"])}({pre}{rtxt})'
        elif k == 'cmp' and anyc:
            f = f'={ref(rng.choice(anyc), sh)}{rng.choice(["<", ">", "=", "<>", ">="])}{rng.choice(["1", "0", chr(34) + "b" + chr(34)])}'
        elif k == 'text' and anyc:
            f = f'={ref(rng.choice(anyc), sh)}&"{rng.choice(["x", "ü", " ", "", "日本"] + NON_NFC[:9])}"'
        elif k == 'err':
            f = rng.choice(['=1/0', '=SQRT(-1)', '=NA()', '=LEFT("a",-1)', '=1+"a"', '=#REF!', '=#N/A', 
                            '=' + ref(rng.choice(num), sh) + '/0' if num else '=2/0'])
        elif k == 'if' and num:
            f = f'=IF({ref(rng.choice(num), sh)}>0,"pos",{ref(rng.choice(num), sh)})'
        elif k == 'blankref':
            f = f'={quote_sheet(rng.choice(sheets))}!H{rng.randint(20, 25)}'
        elif k == 'date':
            f = rng.choice(['=DATE(2020,1,2)', '=DATE(1999,12,31)', '=DATE(2024,2,29)+1', '=YEAR(DATE(2020,5,6))'])
        elif k == 'copy' and anyc:
            f = f'={ref(rng.choice(anyc), sh)}'
        elif k == 'const':
            f = rng.choice(['=TRUE', '=FALSE', '=1', '=0.1+0.2', '="tëxt"', '=""', '=-0', '=1E308*10', '=2^0.5', '=1E-320',
                            '=PI()', '=-(1E308*10)', '=1=1', '=10^30', '=5', '="a""b"', '="cafe\u0301"', '=LEN("cafe\u0301")',
                            '="\u212b"&"\u2126"', '="\u1112\u1161\u11ab"'])
        elif k == 'name' and any(':' not in v for v in names.values()):
            nm = rng.choice([n for n, v in names.items() if ':' not in v])
            f = rng.choice([f'={nm}', f'={nm}&"!"', f'=IF(TRUE,{nm},0)'])
        elif k == 'rname' and range_names:
            nm, raddr = rng.choice(range_names)
            s2, rtxt = raddr.split('!')
            import re
            m = re.match(r'([A-Z])(\d+):([A-Z])(\d+)', rtxt)
            inside = [f'{s2}!{chr(c)}{r}' for c in range(ord(m.group(1)), ord(m.group(3)) + 1)
                      for r in range(int(m.group(2)), int(m.group(4)) + 1)]
            if a not in inside and all((x not in cells) or not (isinstance(cells[x], str) and cells[x].startswith('='))
                                       for x in inside):
                for x in inside:
                    used.add(x)
                f = f'={rng.choice(["SUM", "COUNTA", "MIN"])}({nm})'
        elif k == 'lit' and num:
            # a formula whose result is an array (the whole range is stored as the cell's value)
            x = rng.choice(num)
            s2, c = x.split('!')
            f = f'={quote_sheet(s2)}!{c}:{c}'
        elif k == 'fn' and anyc:
            x = ref(rng.choice(anyc), sh)
            f = rng.choice([f'=LEN({x})', f'=ISNUMBER({x})', f'=UPPER({x})', f'=ABS({x})', f'=ROUND({x},1)',
                            f'=ISERROR({x}/0)', f'=CHOOSE(1,{x},2)', f'=AND({x},TRUE)', f'=CONCAT({x},"-",{x})'])
        if f is None:
            f = '=1+1'
        cells[a] = f
        order.append(a)
    # overwrites applied at the fourth point
    over = []
    for _ in range(rng.randint(1, 4)):
        a = rng.choice(values)
        kind = rng.choice(['int', 'float', 'text', 'bool', 'date', 'empty', 'none', 'new'])
        if kind == 'new':
            s = rng.choice(sheets)
            a = f'{s}!G{rng.randint(1, 9)}'
        v = {'int': lambda: rng.choice(INTS), 'float': lambda: rng.choice(FLOATS), 'text': lambda: rng.choice(TEXTS),
             'bool': lambda: rng.choice([True, False]), 'date': lambda: rng.choice(DATES), 'empty': lambda: '',
             'none': lambda: None, 'new': lambda: rng.choice([5, 'new', 2.5])}[kind]()
        over.append((a, tag_value(v)))
    # ... and one of a number some formula reads (so that stored results are outdated at 'overwritten')
    read = [x for x in numeric if any(isinstance(cells[f], str) and cells[f].startswith('=')
                                      and x.split('!')[1] in cells[f] for f in order)]
    if read:
        over.append((rng.choice(read), tag_value(rng.choice([5, 1000, -3, 0.25, 2 ** 40]))))
    if names and rng.random() < 0.3:
        cn = [n for n, v in names.items() if ':' not in v]
        if cn:
            over.append((rng.choice(cn), tag_value(rng.choice([11, 0.25, 'via name']))))
    return {'id': idx, 'default_sheet': default_sheet, 'cells': [[a, tag_value(cells[a])] for a in order],
            'post_sets': post_sets, 'names': names, 'overwrites': over}


def tag_value(v):
    """JSON-able tagged form of a native value (so that specs can be stored in replays / corpus)."""
    if v is None:
        return ['none']
    if isinstance(v, bool):
        return ['bool', v]
    if isinstance(v, int):
        return ['int', str(v)]
    if isinstance(v, float):
        return ['float', v.hex() if not (math.isnan(v) or math.isinf(v)) else repr(v)]
    if isinstance(v, str):
        return ['str', v]
    if isinstance(v, datetime.datetime):
        return ['date', v.isoformat()]
    raise TypeError(v)


def untag(t):
    k = t[0]
    if k == 'none':
        return None
    if k == 'bool':
        return bool(t[1])
    if k == 'int':
        return int(t[1])
    if k == 'float':
        return float.fromhex(t[1]) if t[1] not in ('nan', 'inf', '-inf') else float(t[1])
    if k == 'str':
        return t[1]
    if k == 'date':
        return datetime.datetime.fromisoformat(t[1])
    raise ValueError(t)


# ------------------------------------------------------------------------------------------ real side

def build_state(spec, point):
    """Replay the history of `spec` up to `point` (index into POINTS) on the real code."""
    from xlcalculator import ModelCompiler, Evaluator
    mc = ModelCompiler()
    d = {a: untag(v) for a, v in spec['cells']}
    mc.read_and_parse_dict(d, default_sheet=spec['default_sheet'], build_code=False)
    if spec['names']:
        # the same steps ModelCompiler.parse_archive performs for a workbook's defined names
        mc.defined_names = dict(spec['names'])
        mc.build_defined_names()
        mc.link_cells_to_defined_names()
        mc.build_ranges(default_sheet=spec['default_sheet'])
    m = mc.model
    for a, v in spec['post_sets']:
        m.set_cell_value(a, untag(v))
    if point >= 1:
        m.build_code()
    if point >= 2:
        evaluate_all(m)
    if point >= 3:
        ev = Evaluator(m)
        for a, v in spec['overwrites']:
            if '!' not in a and a not in m.defined_names:
                continue    # a defined name the loader did not accept (C11's business)
            if a in m.cells and len(a) % 3 == 0:
                ev.set_cell_value(m.cells[a], untag(v))     # the XLCell form of the address
            else:
                ev.set_cell_value(a, untag(v))
    if point >= 4:
        evaluate_all(m)
    return m


def evaluate_all(m):
    """Evaluate every cell; returns {address: canonical outcome}."""
    from xlcalculator import Evaluator
    ev = Evaluator(m)
    out = {}
    for a in list(m.cells):
        out[a] = valkey_outcome(ev.evaluate, a)
    return out


def valkey_outcome(fn, *args):
    try:
        return valkey(fn(*args))
    except RecursionError:
        return 'X:RecursionError'
    except Exception as exc:  # noqa: BLE001
        return 'X:' + type(exc).__name__


def valkey(v):
    """Canonical value (common.canon) refined by the sign of zero."""
    from xlcalculator.xlfunctions import func_xltypes as ft
    c = canon(v)
    inner = v.value if isinstance(v, (ft.Number, ft.Text, ft.Boolean, ft.DateTime)) else v
    if isinstance(inner, float) and inner == 0 and math.copysign(1.0, inner) < 0:
        c += '(-0)'
    return c


def typekey(v):
    return type(v).__module__.split('.')[-1] + '.' + type(v).__name__


def token_obs(t, with_uuid=True):
    r = [t.tvalue, t.ttype, t.tsubtype]
    if with_uuid:
        r.append(str(getattr(t, 'unique_identifier', None)))
    return r


def formula_obs(f):
    if f is None:
        return None
    if not dataclasses.is_dataclass(f):
        return {'not-a-formula': typekey(f)}
    d = {}
    for fld in dataclasses.fields(f):
        if fld.name == 'ast':
            continue
        if not hasattr(f, fld.name):
            d[fld.name] = '<missing>'
            continue
        v = getattr(f, fld.name)
        if fld.name == 'tokens':
            d[fld.name] = [token_obs(t) if hasattr(t, 'tvalue') else ['not-a-token', typekey(t)] for t in v]
        elif fld.name == 'associated_cells':
            d[fld.name] = ['set' if isinstance(v, (set, frozenset)) else typekey(v)] + sorted(map(str, v))
        else:
            d[fld.name] = v
    return d


def observe(m):
    """The property's observable of a model, as plain comparable data.

    `core` holds what the statement names (cells: address, value, formula text; formulae; defined names:
    kind and target; ranges: address matrix), `strict` everything else that the dataclasses carry plus dict
    order and aliasing."""
    from xlcalculator import xltypes
    core = {'cells': {}, 'formulae': {}, 'defined_names': {}, 'ranges': {}}
    strict = {'cells': {}, 'formulae': {}, 'defined_names': {}, 'ranges': {}, 'order': {}, 'alias': {}}
    for sec in ('cells', 'formulae', 'defined_names', 'ranges'):
        d = getattr(m, sec)
        if not isinstance(d, dict):
            core[sec] = {'<not-a-dict>': typekey(d)}
            continue
        strict['order'][sec] = list(d.keys())
    for k, c in (m.cells.items() if isinstance(m.cells, dict) else []):
        if not isinstance(c, xltypes.XLCell):
            core['cells'][k] = ['not-a-cell', typekey(c)]
            continue
        ftxt = None
        if c.formula is not None:
            ftxt = getattr(c.formula, 'formula', ['not-a-formula', typekey(c.formula)])
        core['cells'][k] = [c.address, valkey(c.value), ftxt]
        strict['cells'][k] = {'type': typekey(c.value), 'sheet': c.sheet, 'row': c.row, 'column': c.column,
                              'row_index': c.row_index, 'column_index': c.column_index,
                              'defined_names': list(c.defined_names), 'formula': formula_obs(c.formula),
                              'need_update': getattr(c, 'need_update', '<unset>')}
    for k, f in (m.formulae.items() if isinstance(m.formulae, dict) else []):
        core['formulae'][k] = getattr(f, 'formula', ['not-a-formula', typekey(f)])
        strict['formulae'][k] = formula_obs(f)
        owner = [a for a, c in m.cells.items() if getattr(c, 'formula', None) is f]
        strict['alias']['formulae:' + k] = sorted(owner)
    for k, dn in (m.defined_names.items() if isinstance(m.defined_names, dict) else []):
        if isinstance(dn, xltypes.XLCell):
            core['defined_names'][k] = ['cell', dn.address]
            strict['alias']['name:' + k] = sorted(a for a, c in m.cells.items() if c is dn)
        elif isinstance(dn, xltypes.XLRange):
            core['defined_names'][k] = ['range', dn.address_str, [list(r) for r in dn.cells]]
            strict['defined_names'][k] = {'name': dn.name, 'sheet': dn.sheet, 'value': valkey(dn.value)}
            strict['alias']['name:' + k] = sorted(a for a, r in m.ranges.items() if r is dn)
        else:
            core['defined_names'][k] = ['not-a-name-target', typekey(dn)]
    for k, r in (m.ranges.items() if isinstance(m.ranges, dict) else []):
        if isinstance(r, xltypes.XLRange):
            core['ranges'][k] = [r.address_str, [list(row) for row in r.cells]]
            strict['ranges'][k] = {'name': r.name, 'sheet': r.sheet, 'value': valkey(r.value)}
        else:
            core['ranges'][k] = ['not-a-range', typekey(r)]
    return core, strict


def first_diff(a, b, path=''):
    """Path and the two values of the first difference between two plain data structures."""
    if type(a) is not type(b):
        return path, a, b
    if isinstance(a, dict):
        for k in a:
            if k not in b:
                return f'{path}/{k}', a[k], '<absent>'
        for k in b:
            if k not in a:
                return f'{path}/{k}', '<absent>', b[k]
        for k in a:
            d = first_diff(a[k], b[k], f'{path}/{k}')
            if d:
                return d
        return None
    if isinstance(a, list):
        if len(a) != len(b):
            return path + '/len', a, b
        for i, (x, y) in enumerate(zip(a, b)):
            d = first_diff(x, y, f'{path}/{i}')
            if d:
                return d
        return None
    if a != b:
        return path, a, b
    return None


_BIG = []


def big_model():
    """A model whose persisted form (plain and compressed) is far longer than any generated one: persisted FIRST
    to the same path on every other round trip, so that the history `persist(F) ; … ; persist(F) ; construct(F)`
    with a shrinking payload is exercised (the second persist must replace the file, not overwrite its head)."""
    if not _BIG:
        import random as _r
        from xlcalculator import ModelCompiler
        rr = _r.Random(12)
        # long random texts: a payload of > 1 MB (plain) / several 100 KB (gzip) that costs the encoder only a few
        # hundred nodes — the object count, not the byte count, is what makes jsonpickle slow
        # (ASCII: `\\uXXXX` escapes of non-ASCII text make gzip level 9 crawl)
        d = {f'Big!A{i}': 'x' + ''.join(chr(rr.randrange(35, 127)) for _ in range(4000)) for i in range(1, 61)}
        d.update({f'Big!B{i}': f'=LEN(A{i})+SUM(A1:A{i})' for i in range(1, 9)})
        _BIG.append(ModelCompiler().read_and_parse_dict(d))
    return _BIG[0]


def round_trip(m, ext, tmpdir, n, build_code=True):
    from xlcalculator import Model
    fname = os.path.join(tmpdir, f'm{n}{ext}')
    if n % 2 == 0:
        big_model().persist_to_json_file(fname)
    m.persist_to_json_file(fname)
    with open(fname, 'rb') as fh:
        head = fh.read(2)
    m2 = Model()
    m2.construct_from_json_file(fname, build_code=build_code)
    os.unlink(fname)
    return m2, head == b'\x1f\x8b'


def short(x, n=300):
    s = repr(x)
    return s if len(s) <= n else s[:n] + '…'


# ------------------------------------------------------------------------------------------ graph walker

CLS_CELL = 'xlcalculator.xltypes.XLCell'
CLS_RANGE = 'xlcalculator.xltypes.XLRange'
SAFE_DEPTH = 64      # the recursion allowance handed to the Lean model (real threshold: 100-140 levels)
MISSING = object()


def qualname(cls):
    return f'{cls.__module__}.{cls.__qualname__}'


def s_tok(s):
    return 'S' + '.'.join(str(ord(c)) for c in s)


def kind_of(x):
    """How the walker (and jsonpickle) sees a live object."""
    from xlcalculator.xlfunctions import func_xltypes as ft
    if x is None or type(x) in (bool, int, float, str):
        return 'prim'
    if isinstance(x, ft.Array) or type(x).__module__.split('.')[0] in ('numpy', 'pandas'):
        return 'lib'
    if isinstance(x, (datetime.datetime, uuid.UUID)):
        return 'lib'
    if isinstance(x, ft.ExcelType):
        return 'slots'
    if isinstance(x, BaseException):
        return 'reduce'
    if isinstance(x, type):
        return 'cls'
    if type(x) is list:
        return 'list'
    if type(x) is tuple:
        return 'tuple'
    if type(x) in (set, frozenset):
        return 'set'
    if type(x) is dict:
        return 'dict'
    if hasattr(x, '__dict__'):
        return 'obj'
    raise TypeError(f'walker: unsupported object {type(x)!r}')


def graph_wire(m):
    """Prefix form of the object graph of the model's four dicts, in the order jsonpickle walks them;
    a shared object is written at its first occurrence, later occurrences are `alias <path>`."""
    seen = {}
    out = []

    def prim(x):
        if x is None:
            out.append('N')
        elif type(x) is bool:
            out.append('B1' if x else 'B0')
        elif type(x) is int:
            out.append(f'I{x}')
        elif type(x) is float:
            if math.isnan(x):
                out.append('Fn')
            elif math.isinf(x):
                out.append('Fp' if x > 0 else 'Fm')
            elif x == 0 and math.copysign(1.0, x) < 0:
                out.append('Fz')
            else:
                out.append('F' + common.w_frac(common.frac_of(x)))
        else:
            out.append(s_tok(x))

    def pairs(items, path):
        for k, v in items:
            if not isinstance(k, str):
                raise TypeError(f'walker: non-string key {k!r}')
            out.append(s_tok(k))
            walk(v, path + [k])

    def walk(x, path):
        k = kind_of(x)
        if k == 'prim':
            prim(x)
            return
        if k == 'lib':
            if isinstance(x, uuid.UUID):
                payload = x.hex
            else:
                payload = valkey(x)
            out.extend(['Y', s_tok(qualname(type(x))), s_tok(payload)])
            return
        if k == 'cls':
            out.extend(['C', s_tok(qualname(x))])
            return
        if id(x) in seen:
            h = seen[id(x)]
            out.append(f'A{len(h)}')
            out.extend(s_tok(p) for p in h)
            return
        seen[id(x)] = path
        if k in ('list', 'tuple', 'set'):
            items = list(x) if k != 'set' else sorted(x, key=repr)
            out.append({'list': 'L', 'tuple': 'U', 'set': 'E'}[k] + str(len(items)))
            for i, y in enumerate(items):
                walk(y, path + [str(i)])
        elif k == 'dict':
            out.append(f'D{len(x)}')
            pairs(x.items(), path)
        elif k == 'slots':
            args = [getattr(x, s) for s in ([type(x).__slots__] if isinstance(type(x).__slots__, str)
                                            else _all_slots(type(x)))]
            out.extend([f'X{len(args)}', s_tok(qualname(type(x)))])
            for i, y in enumerate(args):
                walk(y, path + [_all_slots(type(x))[i]])
        elif k == 'reduce':
            st = dict(vars(x))
            out.extend([f'R{len(x.args)}.{len(st)}', s_tok(qualname(type(x)))])
            for i, y in enumerate(x.args):
                walk(y, path + ['args', str(i)])
            pairs(st.items(), path)
        else:
            d = vars(x)
            out.extend([f'O{len(d)}', s_tok(qualname(type(x)))])
            pairs(d.items(), path)

    sections = [('cells', m.cells), ('defined_names', m.defined_names), ('formulae', m.formulae),
                ('ranges', m.ranges)]
    out.append('D4')
    for name, sec in sections:
        out.append(s_tok(name))
        walk(sec, [name])
    return ' '.join(out)


def _all_slots(cls):
    names = []
    for c in reversed(cls.__mro__):
        s = c.__dict__.get('__slots__', ())
        for n in ([s] if isinstance(s, str) else s):
            if n not in names and n not in ('__weakref__', '__dict__'):
                names.append(n)
    return names


def opt_val(d, name):
    v = d.get(name, MISSING)
    return '?' if v is MISSING else valkey(v)


def matrix_wire(v):
    if type(v) is not list:
        return '?'
    rows = []
    for r in v:
        if type(r) is not list or not all(type(c) is str for c in r):
            return '?'
        rows.append('+'.join(dotted(c) for c in r))
    return '[' + '/'.join(rows) + ']'


def dotted(s):
    return '.'.join(str(ord(c)) for c in s)


def is_obj(x):
    try:
        return kind_of(x) == 'obj'
    except TypeError:
        return False


def items_of(d):
    return list(d.items()) if type(d) is dict else []


def obs_wire(m):
    """The property's observable of a live model in the text form the Lean driver prints (`obsWire`)."""
    cells = []
    for k, c in items_of(m.cells):
        if not is_obj(c):
            cells.append('~'.join([dotted(k), '-', '?', '?', '!']))
            continue
        d = vars(c)
        kind = 'c' if qualname(type(c)) == CLS_CELL else '?' + type(c).__qualname__
        f = d.get('formula', MISSING)
        ftext = opt_val(vars(f), 'formula') if (f is not MISSING and is_obj(f)) else '!'
        cells.append('~'.join([dotted(k), kind, opt_val(d, 'address'), opt_val(d, 'value'), ftext]))
    formulae = []
    for k, f in items_of(m.formulae):
        formulae.append(dotted(k) + '~' + (opt_val(vars(f), 'formula') if is_obj(f) else '?'))
    names = []
    for k, dn in items_of(m.defined_names):
        if is_obj(dn) and qualname(type(dn)) == CLS_CELL:
            names.append('~'.join([dotted(k), 'c', opt_val(vars(dn), 'address')]))
        elif is_obj(dn) and qualname(type(dn)) == CLS_RANGE:
            names.append('~'.join([dotted(k), 'r', opt_val(vars(dn), 'address_str'),
                                   matrix_wire(vars(dn).get('cells'))]))
        else:
            names.append(dotted(k) + '~?')
    ranges = []
    for k, r in items_of(m.ranges):
        if is_obj(r) and qualname(type(r)) == CLS_RANGE:
            ranges.append('~'.join([dotted(k), opt_val(vars(r), 'address_str'), matrix_wire(vars(r).get('cells'))]))
        else:
            ranges.append(dotted(k) + '~?')
    return '|'.join([' '.join(cells), ' '.join(formulae), ' '.join(names), ' '.join(ranges)])


# ------------------------------------------------------------------------------------------ the run

CODEC_NAMES = [
    'm.json', 'm.gz', 'm.GZ', 'm.gzip', 'm.GZIP', 'm.Gz', 'm.gZiP', 'm.gz.json', 'm.json.gz', '.gz', '..gz',
    'a..gz', 'm.gz ', 'm.tar.gz', 'mgz', 'm.gzz', 'm.zip', 'M.JSON', 'model', 'dir.gz/m', 'dir.gz/m.json',
    'dir.d/.gz', 'dir.d/..gzip', 'dir.d/x.gzip', 'ünï cödé.GZ', 'a b.gz', 'm.gz.', 'm..gzip', '.hidden.gz',
    'm.g z', 'm.GzIp', 'dir.gz/.hidden', 'm.json.GZIP', 'm.gzip.bak', '...', 'm.', 'm.Gzi', 'dir.GZ/sub.x/m.jsn.Gz',
    '日本.gzip', 'm.ɡz',
]


def deep_specs():
    """Formulas nested far beyond / well within the encoder's recursion allowance (finding D1201)."""
    out = []
    for i, (f, tag) in enumerate([
            ('=' + '+'.join(['A1'] * 220), 'chain220'),
            ('=' + 'ABS(' * 130 + 'A1' + ')' * 130, 'nest130'),
            ('=' + '&'.join(['A2'] * 180), 'concat180'),
            ('=' + '+'.join(['A1'] * 30), 'chain30'),
            ('=' + 'ABS(' * 15 + 'A1' + ')' * 15, 'nest15')]):
        out.append({'id': f'deep-{tag}', 'default_sheet': 'Sheet1',
                    'cells': [['Sheet1!A1', ['int', '2']], ['Sheet1!A2', ['str', 'x']], ['Sheet1!B1', ['str', f]],
                              ['Sheet1!B2', ['str', '=B1']]],
                    'post_sets': [], 'names': {'top': 'Sheet1!$B$1'}, 'overwrites': [['Sheet1!A1', ['int', '3']]]})
    return out


def unordered(wire):
    """The observable with the entries of every dict sorted: the statement does not speak about order."""
    if wire.startswith('X:'):
        return wire
    return '|'.join(' '.join(sorted(sec.split(' '))) for sec in wire.split('|'))


def special_specs():
    """A sheet whose name looks like a jsonpickle tag (the keys `py/object!A1` are not tags).
    Keys that start with `json://` are outside the domain (see ASSUMPTIONS)."""
    return [{'id': 'special-keys', 'default_sheet': 'Sheet1',
             'cells': [['py/id!A1', ['int', '2']], ['py/id!B1', ['str', '=A1+1']],
                       ['Sheet1!A1', ['str', '=3*2']], ['py/object!A1', ['int', '1']],
                       ['py/object!A2', ['str', '=A1&"x"']], ['json:!A1', ['str', 'json://v']]],
             'post_sets': [], 'names': {'py_n': "'py/id'!$A$1"},
             'overwrites': [['py/id!A1', ['int', '5']]]}]


def classify_rt(res, ctx, case, real, d, listed):
    """One round trip: `real` = observable of the really restored model (or X:<Exception>),
    `d` = the driver's answer for the state that was persisted."""
    spec, impl, kf = d['spec'], d['impl'], d.get('kf', '')
    res.evaluations += 1
    if unordered(real) == unordered(spec):
        if real != spec:
            res.drift.append({'case': case_id(case), 'what': 'beyond the statement: the order of dict entries changed',
                              'diff': diff_obs(spec, real)})
        if impl != real:
            res.drift.append({'case': case_id(case), 'what': 'the modelled restore differs from the real one (which meets the spec)',
                              'impl_model': short(impl, 200), 'real': short(real, 200)})
        return True
    if kf and kf in listed and unordered(real) == unordered(impl):
        res.known.setdefault(kf, []).append(case)
        return False
    res.violations.append({'what': 'restored model differs from the persisted one' if not real.startswith('X:')
                           else 'persist / construct raised ' + real[2:],
                           'input': case, 'expected': short(spec, 400), 'got': short(real, 400)})
    return False


def case_id(case):
    if isinstance(case, dict) and 'spec' in case:
        return {'id': case['spec'].get('id'), 'point': case.get('point'), 'ext': case.get('ext')}
    return case


def diff_obs(a, b):
    """First differing entry of two observable wires (for readable reports)."""
    sa, sb = a.split('|'), b.split('|')
    for name, x, y in zip(['cells', 'formulae', 'defined_names', 'ranges'], sa, sb):
        ex, ey = x.split(' '), y.split(' ')
        for i in range(max(len(ex), len(ey))):
            u = ex[i] if i < len(ex) else '<absent>'
            v = ey[i] if i < len(ey) else '<absent>'
            if u != v:
                return f'{name}[{i}]: {untext_entry(u)} -> {untext_entry(v)}'
    return None


def untext_entry(e):
    parts = []
    for p in e.split('~'):
        body = p[2:] if p.startswith('T:') else p
        if body and all(c.isdigit() or c == '.' for c in body) and not p.startswith(('I:', 'F:')):
            try:
                parts.append(('"' if p.startswith('T:') else '') + ''.join(chr(int(x)) for x in body.split('.'))
                             + ('"' if p.startswith('T:') else ''))
                continue
            except ValueError:
                pass
        parts.append(p)
    return '~'.join(parts)


class Strict:
    """Block jsonpickle's import fallback for the dataclass modules: only the allow-list may resolve them."""
    BLOCKED = ('xlcalculator.xltypes.', 'xlcalculator.tokenizer.')

    def __enter__(self):
        import jsonpickle.unpickler as up
        self.up = up
        self.orig = up.loadclass

        def loadclass(name, classes=None):
            r = self.orig(name, classes=classes)
            if isinstance(name, str) and name.startswith(self.BLOCKED):
                if classes and (name in classes or name.rsplit('.', 1)[-1] in classes):
                    return r
                return None
            return r
        up.loadclass = loadclass
        return self

    def __exit__(self, *a):
        self.up.loadclass = self.orig


def overwrite_numbers(m, k):
    """set_cell_value(+1000) on the first `k` plain finite numbers of the model (no evaluation afterwards)."""
    for a, c in list(m.cells.items()):
        if k <= 0:
            break
        if getattr(c, 'formula', None) is None and type(c.value) in (int, float) and c.value == c.value \
                and abs(c.value) < 1e300:
            m.set_cell_value(a, c.value + 1000)
            k -= 1


def use_model(m, overwrites=()):
    """Ordinary use of a (restored) model: evaluate every cell, overwrite inputs, evaluate again."""
    from xlcalculator import Evaluator
    evaluate_all(m)
    ev = Evaluator(m)
    done = 0
    for a, v in overwrites:
        if '!' not in a and a not in m.defined_names:
            continue
        ev.set_cell_value(a, untag(v))
        done += 1
    overwrite_numbers(m, 3 - done)
    evaluate_all(m)


DONOR_SPEC = {
    'id': 'donor', 'default_sheet': 'Donor',
    'cells': [['Donor!A1', ['int', '11']], ['Donor!A2', ['float', '0x1.8p+1']], ['Donor!A3', ['str', 'dönor']],
              ['Donor!B1', ['str', '=SUM(A1:A2)']], ['Donor!B2', ['str', '=A1*2']], ['Donor!B3', ['str', '=dn_cell&"!"']],
              ['Donor!B4', ['str', '=SUM(dn_rng)']], ['Other Sheet!A1', ['str', '=Donor!B1+1']],
              ['Sheet1!A1', ['int', '777']], ['Sheet1!H30', ['str', '=A1+1']], ['Sheet1!Z77', ['str', 'left over']]],
    'post_sets': [], 'names': {'dn_cell': 'Donor!$A$3', 'dn_rng': 'Donor!$A$1:$A$2', 'rate0': 'Donor!$A$1'},
    'overwrites': []}
_DONOR_FILES = {}


def donor_file(tmpdir):
    """A file holding another model (own sheets, names, ranges, and some addresses generated models use too)."""
    if tmpdir not in _DONOR_FILES:
        f = os.path.join(tmpdir, 'donor.json')
        build_state(DONOR_SPEC, 2).persist_to_json_file(f)
        _DONOR_FILES[tmpdir] = f
    return _DONOR_FILES[tmpdir]


def construct_into(res, case, target, label, fname, wire0, ev_ref):
    """`target.construct_from_json_file(fname)` on a Model object that already holds something: the result must
    be exactly what the file holds."""
    try:
        target.construct_from_json_file(fname, build_code=True)
        wk = obs_wire(target)
        evk = evaluate_all(target)
    except Exception as exc:  # noqa: BLE001
        wk, evk = 'X:' + type(exc).__name__, None
    res.evaluations += 1
    res.count('construct-into-used-object')
    c2 = dict(case, then='construct_from_json_file into ' + label)
    if unordered(wk) != unordered(wire0):
        res.violations.append({'what': 'constructing into ' + label + ' does not give the persisted model',
                               'input': c2, 'expected': short(wire0, 300), 'got': short(wk, 300),
                               'diff': diff_obs(unordered(wire0), unordered(wk)) if not wk.startswith('X:') else wk})
    elif evk is not None and first_diff(ev_ref, evk):
        dev = first_diff(ev_ref, evk)
        res.violations.append({'what': 'a cell evaluates differently after constructing into ' + label,
                               'input': c2, 'expected': {dev[0]: dev[1]}, 'got': {dev[0]: dev[2]}})


def dirty(m):
    """Further changes of a model through the API: values on addresses it does not hold yet (one of them an
    address formulas of generated models read as blank), and on one it holds."""
    for a, v in (('Sheet1!Z77', 5), ('Sheet1!H20', 40), ('Sheet1!H21', 'x'), ('Extra Sheet!A1', 2.5)):
        if a not in m.cells:
            m.set_cell_value(a, v)
    overwrite_numbers(m, 2)


def several_constructions(ctx, res, case, orig, wire0, ev_ref, ext, tmpdir, counter, pending, listed, overwrites):
    """One file, several models (the file is what is restored, not what an earlier reader did with it):
    persist; construct #1 and use it (evaluate, overwrite, evaluate); construct #2 and #3 from the same unchanged
    file; then persist the used model #1 over the same path and construct #4."""
    from xlcalculator import Model
    counter[0] += 1
    fname = os.path.join(tmpdir, f'several{counter[0]}{ext}')
    orig.persist_to_json_file(fname)
    first = Model()
    first.construct_from_json_file(fname, build_code=True)
    use_model(first, overwrites)
    results = []
    for label, bc in (('second construction from the unchanged file', True),
                      ('third construction from the unchanged file (build_code by hand)', False)):
        try:
            mk = Model()
            mk.construct_from_json_file(fname, build_code=bc)
            if not bc:
                mk.build_code()
            wk = obs_wire(mk)
            evk = evaluate_all(mk)
        except Exception as exc:  # noqa: BLE001
            wk, evk = 'X:' + type(exc).__name__, None
        res.evaluations += 1
        res.count('construct-again')
        c2 = dict(case, then=label + ', after the first restored model was evaluated and overwritten')
        if unordered(wk) != unordered(wire0):
            res.violations.append({'what': 'a ' + label + ' differs from the persisted model', 'input': c2,
                                   'expected': short(wire0, 300), 'got': short(wk, 300),
                                   'diff': diff_obs(unordered(wire0), unordered(wk)) if not wk.startswith('X:') else wk})
        elif evk is not None and first_diff(ev_ref, evk):
            dev = first_diff(ev_ref, evk)
            res.violations.append({'what': 'a cell of the model from a ' + label + ' evaluates differently',
                                   'input': c2, 'expected': {dev[0]: dev[1]}, 'got': {dev[0]: dev[2]}})
        results.append(wk)
    # the receiving object need not be fresh: (i) the model restored last, used and changed further;
    # (ii) an object that loaded another file before
    try:
        dirty(mk)
        construct_into(res, case, mk, 'a used Model object (restored from this file, evaluated, cells added and '
                       'overwritten since)', fname, wire0, ev_ref)
        other = Model()
        other.construct_from_json_file(donor_file(tmpdir), build_code=True)
        evaluate_all(other)
        construct_into(res, case, other, 'a Model object that loaded another file before', fname, wire0, ev_ref)
    except Exception as exc:  # noqa: BLE001 - the preparation itself failed: not this family's business
        res.notes.append(f'construct-into preparation failed: {type(exc).__name__}')
    # the used model #1 is itself a model with a history: persist it over the same path, construct #4
    wire1 = obs_wire(first)
    graph1 = graph_wire(first)
    try:
        first.persist_to_json_file(fname)
        fourth = Model()
        fourth.construct_from_json_file(fname, build_code=True)
        w4 = obs_wire(fourth)
        ev4 = evaluate_all(fourth)
        ev1 = evaluate_all(first)
    except RecursionError:
        w4, ev4, ev1 = 'X:RecursionError', None, None
    except Exception as exc:  # noqa: BLE001
        w4, ev4, ev1 = 'X:' + type(exc).__name__, None, None
    finally:
        if os.path.exists(fname):
            os.unlink(fname)
    res.count('persist-over-same-path')
    c4 = dict(case, then='the first restored model, evaluated and overwritten, is persisted over the same path '
                         'and restored')
    if ev4 is not None and unordered(w4) == unordered(wire1) and first_diff(ev1, ev4):
        dev = first_diff(ev1, ev4)
        res.violations.append({'what': 'a cell of the model restored from the rewritten file evaluates differently',
                               'input': c4, 'expected': {dev[0]: dev[1]}, 'got': {dev[0]: dev[2]}})
    line = '\t'.join(['C12', 'RT', w_text('m.json'), '1', 'all', str(SAFE_DEPTH), graph1])

    def done4(d, c4=c4, w4=w4, wire1=wire1):
        classify_rt(res, ctx, c4, w4, dict(d, spec=wire1), listed)
    pending.append((line, done4))


def run_spec(ctx, res, spec, tmpdir, counter, exts_for_point, pending, listed):
    """All five history points of one generated model.  Driver requests are queued in `pending` together
    with the closure that classifies the answer."""
    for p, pname in enumerate(POINTS):
        orig = build_state(spec, p)
        wire0 = obs_wire(orig)
        core0, strict0 = observe(orig)
        graph = graph_wire(orig)
        # the reference for "every cell evaluates to the same value": the original state, compiled
        ref = build_state(spec, p)
        if p == 0:
            ref.build_code()
        ev_ref = evaluate_all(ref)
        kinds = {v.split(':')[0] for v in ev_ref.values()}
        for v in ev_ref.values():
            res.count('value:' + (v.split(':')[0] + ':' + v.split(':')[1] if v[0] in 'XEN' else v.split(':')[0]))
        res.count('point:' + pname)
        res.count('cells', len(orig.cells))
        res.count('formulas', len(orig.formulae))
        res.count('names', len(orig.defined_names))
        res.count('ranges', len(orig.ranges))
        reals = []
        for ext in exts_for_point(p):
            counter[0] += 1
            case = {'spec': spec, 'point': pname, 'ext': ext}
            try:
                m2, gz = round_trip(orig, ext, tmpdir, counter[0])
            except RecursionError:
                reals.append((case, 'X:RecursionError', None, None))
                continue
            except Exception as exc:  # noqa: BLE001
                reals.append((case, 'X:' + type(exc).__name__, None, None))
                continue
            res.count('ext:' + ext)
            expect_gz = ext.lower() in ('.gz', '.gzip')
            if gz != expect_gz:
                res.violations.append({'what': 'wrong codec for the file extension', 'input': case,
                                       'expected': 'gzip' if expect_gz else 'plain', 'got': 'gzip' if gz else 'plain'})
            real = obs_wire(m2)
            core1, strict1 = observe(m2)
            dcore = first_diff(core0, core1)
            if dcore and unordered(real) == unordered(wire0):
                # the two renderings of the observable must not disagree about equality
                res.drift.append({'case': case, 'what': 'harness: observe() and obs_wire() disagree', 'diff': short(dcore)})
            dstrict = first_diff(strict0, strict1)
            if dstrict and not dcore:
                res.drift.append({'case': {'id': spec['id'], 'point': pname, 'ext': ext},
                                  'what': 'beyond the statement: ' + dstrict[0],
                                  'orig': short(dstrict[1], 120), 'restored': short(dstrict[2], 120)})
            if ext == exts_for_point(p)[0] and unordered(real) == unordered(wire0):
                # (a) the restored model can be persisted again (its own driver request: it is another state)
                case2 = dict(case, then='persist the restored model again')
                graph2 = graph_wire(m2)
                counter[0] += 1
                try:
                    m3, _ = round_trip(m2, '.gz' if not expect_gz else '.json', tmpdir, counter[0])
                    again = obs_wire(m3)
                except RecursionError:
                    again = 'X:RecursionError'
                except Exception as exc:  # noqa: BLE001
                    again = 'X:' + type(exc).__name__
                res.count('second-round-trip')
                line2 = '\t'.join(['C12', 'RT', w_text('m.json'), '1', 'all', str(SAFE_DEPTH), graph2])

                def done2(d, case2=case2, again=again, wire0=wire0):
                    classify_rt(res, ctx, case2, again, dict(d, spec=wire0), listed)
                pending.append((line2, done2))
                # (b) loading without build_code, then compiling by hand, is loading with build_code=True
                counter[0] += 1
                try:
                    m4, _ = round_trip(orig, ext, tmpdir, counter[0], build_code=False)
                    m4.build_code()
                    by_hand = obs_wire(m4)
                    ev4 = evaluate_all(m4)
                except Exception as exc:  # noqa: BLE001
                    by_hand, ev4 = 'X:' + type(exc).__name__, None
                res.evaluations += 1
                res.count('build_code-by-hand')
                if unordered(by_hand) != unordered(wire0):
                    res.violations.append({'what': 'construct_from_json_file(build_code=False) + build_code() differs',
                                           'input': case, 'expected': short(wire0, 300), 'got': short(by_hand, 300)})
                elif ev4 is not None and first_diff(ev_ref, ev4):
                    dev = first_diff(ev_ref, ev4)
                    res.violations.append({'what': 'a cell of the restored model (build_code=False, then build_code()) '
                                                   'evaluates differently from the original',
                                           'input': case, 'expected': {dev[0]: dev[1]}, 'got': {dev[0]: dev[2]}})
                # (c) several constructions from one file, the earlier restored model being used in between
                several_constructions(ctx, res, case, orig, wire0, ev_ref, ext, tmpdir, counter, pending, listed,
                                      spec['overwrites'])
            # evaluate every cell of the restored model
            ev2 = evaluate_all(m2)
            dev = first_diff(ev_ref, ev2)
            if dev and unordered(real) == unordered(wire0):
                res.violations.append({'what': 'a cell of the restored model evaluates differently', 'input': case,
                                       'expected': {dev[0]: dev[1]}, 'got': {dev[0]: dev[2]}})
            reals.append((case, real, dcore, len(kinds)))
        if obs_wire(orig) != wire0:
            res.violations.append({'what': 'persist_to_json_file changed the model it persisted',
                                   'input': {'spec': spec, 'point': pname}, 'expected': short(wire0), 'got': short(obs_wire(orig))})
        line = '\t'.join(['C12', 'RT', w_text('m' + exts_for_point(p)[0]), '1', 'all', str(SAFE_DEPTH), graph])

        def done(d, reals=reals, wire0=wire0, spec=spec, pname=pname, nform=len(orig.formulae)):
            if d['spec'] != wire0:
                res.drift.append({'case': {'id': spec['id'], 'point': pname},
                                  'what': 'harness: the Lean observable of the walked graph differs from obs_wire',
                                  'diff': diff_obs(d['spec'], wire0)})
                d = dict(d, spec=wire0)
            for case, real, dcore, nk in reals:
                ok = classify_rt(res, ctx, case, real, d, listed)
                if ok and nform and (nk or 0) >= 2:
                    res.nontrivial.add(f"{spec['id']}|{pname}|{case['ext']}")
                if not ok and res.violations and res.violations[-1].get('input') is case:
                    res.violations[-1]['diff'] = diff_obs(d['spec'], real) if not real.startswith('X:') else real
            if d.get('persistable') != '1' and not d.get('kf'):
                # every state the API reaches must be Persistable in the model (reachability, tied to reality)
                res.drift.append({'case': {'id': spec['id'], 'point': pname},
                                  'what': 'the Lean model does not find this reachable state Persistable',
                                  'enc': d.get('enc'), 'depth': d.get('depth')})
            if len(res.samples) < 12:
                res.sample({'model': spec['id'], 'point': pname, 'cells': len(wire0.split('|')[0].split(' ')),
                            'persistable': d.get('persistable'), 'depth': d.get('depth'), 'kf': d.get('kf', ''),
                            'real_equals_spec': all(unordered(r[1]) == unordered(wire0) for r in reals)})
        pending.append((line, done))
        # roll back: the persisting object itself, changed further, loads its own file again
        counter[0] += 1
        back = os.path.join(tmpdir, f'rollback{counter[0]}{exts_for_point(p)[-1]}')
        try:
            orig.persist_to_json_file(back)
        except Exception:  # noqa: BLE001 - classified with the round trips above (D1201 / violation)
            back = None
        if back is not None:
            try:
                use_model(orig, spec['overwrites'])
                dirty(orig)
            except Exception as exc:  # noqa: BLE001
                res.notes.append(f'roll-back preparation failed: {type(exc).__name__}')
            else:
                construct_into(res, {'spec': spec, 'point': pname, 'ext': exts_for_point(p)[-1]}, orig,
                               'the persisting Model object itself (evaluated, overwritten and extended since)',
                               back, wire0, ev_ref)
            os.unlink(back)



def run_codec(ctx, res, tmpdir, pending, only=None):
    """Tricky file names: which opener the writer really used (magic bytes), whether the reader gets the model
    back, against the reference rule and the Lean model."""
    from xlcalculator import ModelCompiler, Model
    for i, name in enumerate(CODEC_NAMES if only is None else [only]):
        m = ModelCompiler().read_and_parse_dict({'Sheet1!A1': 1, 'Sheet1!B1': '=A1+1'})
        base = os.path.join(tmpdir, f'codec{i}')
        path = os.path.join(base, name)
        os.makedirs(os.path.dirname(path), exist_ok=True)
        real_ext = os.path.splitext(path)[-1]
        try:
            m.persist_to_json_file(path)
            with open(path, 'rb') as fh:
                gz = fh.read(2) == b'\x1f\x8b'
            m2 = Model()
            m2.construct_from_json_file(path, build_code=True)
            back = obs_wire(m2) == obs_wire(m)
            real = ('gzip' if gz else 'plain') + (',read-ok' if back else ',read-differs')
        except Exception as exc:  # noqa: BLE001
            real = 'X:' + type(exc).__name__
        line = '\t'.join(['C12', 'CODEC', w_text(path)])

        def done(d, name=name, real=real, real_ext=real_ext):
            res.evaluations += 1
            res.count('codec-name')
            spec = d['spec'] + ',read-ok'
            w, r = d['impl'].split(',')
            if real != spec:
                res.violations.append({'what': 'codec / read-back for this file name', 'input': {'file_name': name},
                                       'expected': spec, 'got': real})
            elif not (w == r == d['spec']):
                res.drift.append({'what': 'modelled opener differs', 'name': name, 'impl_model': d['impl'], 'real': real})
            if common.un_text(d['ext']) != real_ext or common.un_text(d['specext']) != real_ext:
                res.drift.append({'what': 'os.path.splitext differs from the model / the reference', 'name': name,
                                  'real': real_ext, 'model': common.un_text(d['ext']),
                                  'reference': common.un_text(d['specext'])})
            if d['spec'] == 'gzip':
                res.nontrivial.add('codec|' + name)
        pending.append((line, done))


def run_strict(ctx, res, specs, tmpdir, counter, pending, listed):
    """The allow-list alone must rebuild the dataclasses (no import fallback for their modules)."""
    for spec in specs:
        for p in (0, 3):
            orig = build_state(spec, p)
            wire0 = obs_wire(orig)
            graph = graph_wire(orig)
            counter[0] += 1
            case = {'spec': spec, 'point': POINTS[p], 'ext': '.json', 'import_fallback': 'blocked for xltypes/tokenizer'}
            try:
                with Strict():
                    m2, _ = round_trip(orig, '.json', tmpdir, counter[0])
                    real = obs_wire(m2)
            except Exception as exc:  # noqa: BLE001
                real = 'X:' + type(exc).__name__
            line = '\t'.join(['C12', 'RT', w_text('m.json'), '1', 'strict', str(SAFE_DEPTH), graph])

            def done(d, case=case, real=real, wire0=wire0):
                res.count('strict-allow-list')
                d = dict(d, spec=wire0)
                classify_rt(res, ctx, case, real, d, listed)
                if res.violations and res.violations[-1].get('input') is case:
                    res.violations[-1]['what'] = ('with only the allow-list to resolve xltypes/tokenizer classes: '
                                                  + res.violations[-1]['what'])
            pending.append((line, done))


def run_workbooks(ctx, res, tmpdir, counter, pending, listed, only=None):
    from xlcalculator import ModelCompiler
    # (cross_sheet.xlsx refers to a whole column: a million cells — too large for a round trip per run)
    books = ['defined_names.xlsx', 'SUM.xlsx', 'IF.xlsx', 'model_compiler_and_evaluate.xlsx', 'DATE.xlsx',
             'VLOOKUP.xlsx', 'logical.xlsx', 'CONCAT.xlsx']
    if ctx.tier == 'quick' and not ctx.widen:
        books = books[:4]
    if only is not None:
        books = [only]
    for b in books:
        path = common.REPO / 'tests' / 'resources' / b
        if not path.exists():
            continue
        for p in (1, 2, 3):
            def build():
                mm = ModelCompiler().read_and_parse_archive(str(path), build_code=True)
                if p >= 2:
                    evaluate_all(mm)
                if p == 3:
                    overwrite_numbers(mm, 3)     # the stored results of the dependents are now outdated
                return mm
            try:
                orig = build()
                ref = build()
            except Exception as exc:  # noqa: BLE001 - loading is C11's business
                res.notes.append(f'workbook {b} could not be loaded: {type(exc).__name__}')
                break
            if len(orig.cells) > 400:
                res.notes.append(f'workbook {b} skipped: {len(orig.cells)} cells')
                break
            wire0 = obs_wire(orig)
            graph = graph_wire(orig)
            ev_ref = evaluate_all(ref)
            reals = []
            for ext in ('.json', '.gz'):
                counter[0] += 1
                case = {'workbook': b, 'point': POINTS[p], 'ext': ext}
                try:
                    m2, _ = round_trip(orig, ext, tmpdir, counter[0])
                    real = obs_wire(m2)
                    ev2 = evaluate_all(m2)
                    dev = first_diff(ev_ref, ev2)
                    if dev and unordered(real) == unordered(wire0):
                        res.violations.append({'what': 'a cell of the restored workbook model evaluates differently',
                                               'input': case, 'expected': {dev[0]: dev[1]}, 'got': {dev[0]: dev[2]}})
                except Exception as exc:  # noqa: BLE001
                    real = 'X:' + type(exc).__name__
                reals.append((case, real))
                if ext == '.json' and unordered(real) == unordered(wire0):
                    several_constructions(ctx, res, case, orig, wire0, ev_ref, ext, tmpdir, counter, pending, listed, ())
            line = '\t'.join(['C12', 'RT', w_text('m.json'), '1', 'all', str(SAFE_DEPTH), graph])

            def done(d, reals=reals, wire0=wire0, b=b):
                res.count('workbook')
                if d['spec'] != wire0:
                    res.drift.append({'case': b, 'what': 'harness: Lean observable of the walked graph differs',
                                      'diff': diff_obs(d['spec'], wire0)})
                d = dict(d, spec=wire0)
                for case, real in reals:
                    if classify_rt(res, ctx, case, real, d, listed):
                        res.nontrivial.add(f"wb|{b}|{case['point']}|{case['ext']}")
            pending.append((line, done))


def shrink(spec, fails, budget_s=20.0):
    """Greedy shrinking: drop overwrites, names, cells (formulas first) while the failure stays."""
    t0 = time.time()
    cur = spec
    changed = True
    while changed and time.time() - t0 < budget_s:
        changed = False
        cands = []
        for i in range(len(cur['overwrites'])):
            cands.append(dict(cur, overwrites=cur['overwrites'][:i] + cur['overwrites'][i + 1:]))
        for n in list(cur['names']):
            cands.append(dict(cur, names={k: v for k, v in cur['names'].items() if k != n}))
        for i in reversed(range(len(cur['cells']))):
            a = cur['cells'][i][0]
            cands.append(dict(cur, cells=cur['cells'][:i] + cur['cells'][i + 1:],
                              post_sets=[s for s in cur['post_sets'] if s[0] != a]))
        for c in cands:
            if time.time() - t0 > budget_s:
                break
            try:
                if fails(c):
                    cur = c
                    changed = True
                    break
            except Exception:  # noqa: BLE001 - a candidate that cannot be built is not a smaller failure
                continue
    return cur


def real_failure(spec, pname, ext):
    """Does the real round trip of `spec` at this point differ from the original (or raise)?"""
    p = POINTS.index(pname)
    with tempfile.TemporaryDirectory() as td:
        orig = build_state(spec, p)
        w0 = obs_wire(orig)
        try:
            m2, _ = round_trip(orig, ext, td, 0)
        except Exception:  # noqa: BLE001
            return True
        if obs_wire(m2) != w0:
            return True
        ref = build_state(spec, p)
        if p == 0:
            ref.build_code()
        return evaluate_all(ref) != evaluate_all(m2)


def run(ctx):
    import json
    import logging
    import xlcalculator  # noqa: F401
    logging.disable(logging.WARNING)     # the loader's warnings about names it skips are not this check's output
    res = Result()
    res.rule = (
        'generated acyclic models (1-3 sheets incl. names with blanks / non-ASCII; ints incl. > 2^64, floats incl. '
        'max, denormal, -0.0, inf, nan; booleans; texts incl. non-ASCII, quotes, empty; datetimes; None; formulas '
        'yielding numbers, texts, booleans, dates, blanks, arrays and the error values; literal and named ranges; '
        'defined names for cells and ranges; long formulas), each persisted at five history points (uncompiled, '
        'compiled, every cell evaluated, inputs overwritten with set_cell_value while the dependents keep their '
        'outdated results, evaluated again) under .json/.gz/.GZ/.gzip, restored with build_code=True, compared '
        'deeply and evaluated cell by cell against the original; per point also: the restored model persisted '
        'again, build_code by hand, and several constructions from one file (the first restored model evaluated '
        'and overwritten before the second and third construction, then persisted over the same path and restored), '
        'and constructions INTO used Model objects (a restored model changed further, an object that loaded '
        'another file before, the persisting object itself rolled back to its file); '
        'every other round trip writes over a longer existing file; plus tricky file names, bundled workbooks '
        '(compiled, evaluated, overwritten), and restores with the import fallback blocked. Non-trivial = a (model, point, '
        'extension) round trip of a model with at least one formula and two kinds of evaluated values that came '
        'back equal, or a gzip-selecting file name')
    listed = {e['id'] for e in ctx.known if e.get('status') == 'known'}
    thorough = ctx.tier == 'thorough' or ctx.widen
    pending = []
    counter = [0]
    rng = ctx.rng
    with tempfile.TemporaryDirectory(prefix='c12-') as tmpdir:
        specs = []
        if ctx.replay:
            v = json.loads(open(ctx.replay).read())
            inp = v.get('input') or {}
            if 'spec' in inp:
                specs.append(inp['spec'])
            replay_name = inp.get('file_name')
            replay_book = inp.get('workbook')
        else:
            cdir = common.CORPUS / 'C12'
            if cdir.exists():
                for f in sorted(cdir.glob('*.json')):
                    specs.append(json.loads(f.read_text()))
            n = 640 if ctx.tier == 'thorough' else (200 if ctx.widen else 22)
            for i in range(n):
                specs.append(gen_spec(rng, i, big=(i % 8 == 7)))
            specs.extend(deep_specs() if thorough else deep_specs()[:1] + deep_specs()[3:4])
            specs.extend(special_specs())
        ncorpus = len(specs)
        for i, spec in enumerate(specs):
            full = thorough or i < 6 or isinstance(spec['id'], str)

            def exts_for_point(p, i=i, full=full):
                if full:
                    return EXTS
                # rotate: two extensions per point (one plain, one gzip spelling)
                return ['.json', EXTS[1 + (i + p) % 3]] if (i + p) % 2 == 0 else [EXTS[1 + (i + p) % 3], EXTS[1 + (i + p + 1) % 3]]
            run_spec(ctx, res, spec, tmpdir, counter, exts_for_point, pending, listed)
        if ctx.replay:
            if replay_name is not None:
                run_codec(ctx, res, tmpdir, pending, only=replay_name)
            if replay_book is not None:
                run_workbooks(ctx, res, tmpdir, counter, pending, listed, only=replay_book)
            if specs and 'import_fallback' in inp:
                run_strict(ctx, res, specs, tmpdir, counter, pending, listed)
        else:
            run_codec(ctx, res, tmpdir, pending)
            gen_only = [s for s in specs if not isinstance(s['id'], str)]
            run_strict(ctx, res, gen_only[:(40 if thorough else 5)], tmpdir, counter, pending, listed)
            run_workbooks(ctx, res, tmpdir, counter, pending, listed)
        res.extra['models'] = len(specs)
        res.extra['round_trips'] = counter[0]
    # the Lean side, in one batch
    resp = ctx.driver.batch([ln for ln, _ in pending])
    for (ln, done), r in zip(pending, resp):
        d = parse_kv(r)
        if 'impl' not in d:
            raise RuntimeError(f'driver: {r[:300]!r} for {ln[:200]!r}')
        done(d)
    # shrink the first failing generated model so that the replay is small
    if res.violations and not ctx.replay:
        v = res.violations[0]
        inp = v.get('input')
        if isinstance(inp, dict) and 'spec' in inp and 'import_fallback' not in inp and len(inp['spec']['cells']) > 2:
            try:
                if real_failure(inp['spec'], inp['point'], inp['ext']):
                    small = shrink(inp['spec'], lambda s: real_failure(s, inp['point'], inp['ext']))
                    v['input'] = dict(inp, spec=small, shrunk_from_cells=len(inp['spec']['cells']))
            except Exception:  # noqa: BLE001 - shrinking is best effort
                pass
    if res.drift:
        res.notes.append(f'{len(res.drift)} model-drift notes (differences outside the statement, or model vs code '
                         f'where the code meets the statement)')
    return res
