"""C13 — an extracted sub-model computes the same values as the full model (DESIGN.md §4 C13)."""
import itertools

import common
import evalwire
from common import Result, parse_kv, same_value
from evalwire import cp, un_cp, wire_scalar, canon_result

LEVEL_TEXT = (
    'Lean theorems over a statement-by-statement model of ModelCompiler.extract (focus loop, term collection, '
    'worklist incl. the branch that follows defined names, build_code) and the shared evaluator model: evaluation '
    'of an address reads only its dependency closure (every function semantics, every fuel); the worklist '
    'terminates; the extracted model contains the closure of the focus with identical contents and nothing else; '
    'every focused address evaluates as in the original, also after the same set_cell_value calls on both. The '
    'model is tied to the running code by a differential run over generated acyclic workbooks with every '
    'non-empty focus subset and over range geometries (identical, nested, crossing, overlapping, adjacent, '
    'disjoint ranges in one formula and across formulas): models compiled from dictionaries and from .xlsx files (sheet titles that need '
    'quoting, defined names given as the raw workbook text with $), originals that were not / partly / fully '
    'evaluated before the extraction with error, text, boolean, float, date and array values stored in the '
    'closure, and both orders of evaluating the two models.')
LEVEL_NOTE = (
    'Trusted: Lean kernel (axioms propext, Classical.choice, Quot.sound), the hand-written models of extract and '
    'of the evaluator (validated by correspondence, not proved equal to the Python), copy.deepcopy, the tokenizer '
    '/parser producing formula.terms and the AST (C02, C03). The theorems assume the hygiene of compiled '
    'workbooks (WF: range keys, cell addresses and defined names are disjoint; names are bound to existing cells '
    'or registered ranges). extract_pure is trivial in the functional model and is checked on the real objects '
    'by deep comparison.')
DESIGN_REF = '§4 C13'

TRUSTED = [
    'Lean 4.33 kernel; axioms propext, Classical.choice, Quot.sound only',
    'hand-written model lean/XlVerif/Model/C13.lean of ModelCompiler.extract / Model.build_code and the shared '
    'evaluator model lean/XlVerif/Model/Evaluator.lean, tied to the code by this correspondence run',
    'copy.deepcopy (modelled as structural copy), dict insertion order, XLFormula.terms as produced by the '
    'tokenizer (modelled as the references of the formula tree)',
    'evaluate() of the mutable model equals the reference evaluation `fresh` (C04)',
]
ASSUMPTIONS = [
    'models are acyclic and compiled by ModelCompiler (range keys are not cell addresses, defined names are not '
    'cell addresses; a defined name is bound to an existing cell or to a range)',
    'focus items are cell addresses and defined names (strings); a focused range key or unknown address is ignored '
    'by extract and outside the domain',
    'Evaluator.evaluate(<name bound to a range>) raises ValueError on every model; it is compared as an outcome',
    'input changes are set_cell_value calls on non-formula cells, by address or by a single-cell defined name (by '
    'the name on both models when the extracted model must have it — focused or used in the closure — else by '
    'the address of its cell)',
    'model-compared ("wired") formulas use + - * / unary- = < SUM COUNTA IF, error and text literals over integer, '
    'float, text and boolean inputs (the function semantics is a parameter of the theorems); the "rich" family '
    '(ISERROR, DATE, YEAR, &, MAX, AVERAGE, array-valued cells, date inputs ...) is compared real extract vs real '
    'original only, with the dependency closure computed from the real model by the harness',
    'float results are compared exactly between the two real models; against the Lean evaluator model (drift only) '
    'within 1e-9 relative',
]

SHEETS = ['Sheet1', 'S2', 'My Sheet', "Bob's", 'P&L $']
COLS = 'ABC'               # columns of the grid the dependency-shape families draw their cells from
ALLCOLS = 'ABCDEFGH'       # columns an address may have (the range-geometry family uses a 5 x 5 block + column G)
XLSX_SHARE = 0.08      # share of generated workbooks compiled through an .xlsx file


# ------------------------------------------------------------------ abstract workbooks

def render(fx, sheet):
    """formula text; unlike evalwire.render a reference may be a defined name (no '!')"""
    k = fx[0]
    if k in ('ref', 'rng'):
        return fx[1] if '!' not in fx[1] else evalwire.local(fx[1], sheet)
    if k == 'lit':
        return evalwire.render(fx, sheet)
    if k == 'app':
        f, args = fx[1], fx[2]
        if f in evalwire.INFIX:
            return '(' + render(args[0], sheet) + evalwire.INFIX[f] + render(args[1], sheet) + ')'
        if f == 7:
            return '(-' + render(args[0], sheet) + ')'
        return evalwire.FN[f] + '(' + ','.join(render(a, sheet) for a in args) + ')'
    if k == 'if':
        return 'IF(' + ','.join(render(a, sheet) for a in fx[1:]) + ')'
    raise ValueError(fx)


def refs_of(fx, acc):
    k = fx[0]
    if k in ('ref', 'rng'):
        acc.append(fx[1])
    elif k == 'app':
        for a in fx[2]:
            refs_of(a, acc)
    elif k == 'if':
        for a in fx[1:]:
            refs_of(a, acc)
    return acc


def sheet_of(addr):
    return addr.rsplit('!', 1)[0]


def formula_text(addr, c):
    """the Excel text of a formula cell: ('f', tree) of the model-compared family, ('t', text) of the rich one"""
    return c[1] if c[0] == 't' else '=' + render(c[1], sheet_of(addr))


def raw_ref(addr, wb):
    """a defined-name target as a workbook stores it: sheet title quoted when it has to be (or always),
    coordinates absolute"""
    opt = wb.get('raw') or {}
    sheet, coord = addr.rsplit('!', 1)
    import re
    if opt.get('quote_all') or not re.fullmatch(r'[A-Za-z_][A-Za-z0-9_]*', sheet):
        sheet = "'" + sheet.replace("'", "''") + "'"
    if opt.get('abs', True):
        coord = ':'.join('$' + p[0] + '$' + p[1:] for p in coord.split(':'))
    return f'{sheet}!{coord}'


def build_real(wb):
    """compile the workbook with the real ModelCompiler: from a dictionary with the defined names registered
    the way parse_archive does (raw workbook text), or from an .xlsx file written with openpyxl"""
    from xlcalculator import ModelCompiler
    names = {n: raw_ref(a, wb) for n, a in wb.get('names', {}).items()}
    names.update({n: raw_ref(a, wb) for n, a in wb.get('rnames', {}).items()})
    if wb.get('route') == 'xlsx':
        import os
        import tempfile
        import openpyxl
        from openpyxl.workbook.defined_name import DefinedName
        book = openpyxl.Workbook()
        sheets = {}
        for addr in list(wb['cells']) + list(wb.get('names', {}).values()) + list(wb.get('rnames', {}).values()):
            title = sheet_of(addr)
            if title not in sheets:
                if not sheets:
                    ws = book.active
                    ws.title = title
                else:
                    ws = book.create_sheet(title)
                sheets[title] = ws
        for addr, c in wb['cells'].items():
            sheets[sheet_of(addr)][addr.rsplit('!', 1)[1]] = formula_text(addr, c) if isinstance(c, tuple) else c
        for n, text in names.items():
            book.defined_names[n] = DefinedName(n, attr_text=text)
        fd, path = tempfile.mkstemp(suffix='.xlsx', prefix='c13_')
        os.close(fd)
        try:
            book.save(path)
            return ModelCompiler().read_and_parse_archive(path)
        finally:
            os.remove(path)
    d = {addr: (formula_text(addr, c) if isinstance(c, tuple) else c) for addr, c in wb['cells'].items()}
    comp = ModelCompiler()
    model = comp.read_and_parse_dict(d, default_sheet='Sheet1', build_code=False)
    comp.defined_names = names
    comp.build_defined_names()
    comp.link_cells_to_defined_names()
    model.build_code()
    return model


def py_closure(model, focus):
    """the dependency closure of the focus, computed from the real ORIGINAL model (terms, ranges, defined
    names) without using extract: roots; name -> its cell / its member cells; formula cell -> what its terms
    denote (a term that is a defined name denotes the address / range key the name is bound to); range -> members"""
    from xlcalculator import xltypes
    seen, todo, used = set(), list(focus), set()
    while todo:
        a = todo.pop()
        if a in seen:
            continue
        seen.add(a)
        nxt = []
        if a not in model.cells and a in model.defined_names:
            d = model.defined_names[a]
            nxt += [d.address] if isinstance(d, xltypes.XLCell) else [x for row in d.cells for x in row]
        cell = model.cells.get(a)
        if cell is not None and cell.formula is not None:
            for t in cell.formula.terms:
                name = t.rsplit('!', 1)[-1]
                if t not in model.cells and t not in model.ranges and name in model.defined_names:
                    used.add(name)
                    t = model._defn_address(model.defined_names[name])
                nxt.append(t)
        if a in model.ranges:
            nxt += [x for row in model.ranges[a].cells for x in row]
        todo += nxt
    return seen, used


def wire_request(wb, model, focus, sets, fuel=60):
    """the driver request describing the REAL compiled model (cells incl. the blanks created by build_ranges,
    ranges and defined names as registered) with the formulas of the abstract workbook"""
    from xlcalculator import xltypes
    cells = []
    for addr, cell in model.cells.items():
        c = wb['cells'].get(addr)
        if isinstance(c, tuple):
            text = formula_text(addr, c)
            cells.append(f'{cp(addr)}~f~{len(text)}~{evalwire.wire_fx(c[1])}')
        elif c is None:
            # a placeholder created by build_ranges: None (blank) since b6c2c71, '' before
            cells.append(f'{cp(addr)}~c~{wire_scalar(cell.value)}')
        else:
            cells.append(f'{cp(addr)}~c~{wire_scalar(c)}')
    ranges = [cp(k) + '~' + ';'.join(','.join(cp(a) for a in row) for row in r.cells)
              for k, r in model.ranges.items()]
    names, rnames = [], []
    for n, d in model.defined_names.items():
        if isinstance(d, xltypes.XLCell):
            names.append(f'{cp(n)}~{cp(d.address)}')
        else:
            key = model._defn_address(d)
            rnames.append(cp(n) + '~' + cp(key) + '~' + ';'.join(','.join(cp(a) for a in row) for row in d.cells))
    return '\t'.join(['C13', 'extract', str(fuel), '|'.join(cells), '|'.join(ranges), '|'.join(names),
                      '|'.join(rnames), '|'.join(cp(f) for f in focus),
                      '|'.join(f'{cp(a)}~{wire_scalar(v)}' for a, v in sets)])


# ------------------------------------------------------------------ generators

def box(a, b):
    """the range key and the member addresses of the bounding box of two addresses of one sheet"""
    s, x = a.rsplit('!', 1)
    _, y = b.rsplit('!', 1)
    c0, c1 = sorted([ALLCOLS.index(x[0]), ALLCOLS.index(y[0])])
    r0, r1 = sorted([int(x[1:]), int(y[1:])])
    members = [f'{s}!{ALLCOLS[c]}{r}' for r in range(r0, r1 + 1) for c in range(c0, c1 + 1)]
    return f'{s}!{ALLCOLS[c0]}{r0}:{ALLCOLS[c1]}{r1}', members


def gen_fx(rng, earlier, ranges, names, depth):
    """a formula over earlier cells / admissible ranges / defined names"""
    def leaf():
        r = rng.random()
        cnames = [n for n in names if n[1] == 'c']
        if cnames and r < 0.25:
            return ('ref', rng.choice(cnames)[0])
        if earlier and r < 0.8:
            return ('ref', rng.choice(earlier))
        if r < 0.83:
            return ('lit', ('err', rng.choice(['#N/A', '#DIV/0!', '#VALUE!'])))
        return ('lit', rng.randint(-3, 9))

    def go(d):
        r = rng.random()
        if d == 0 or r < 0.25:
            return leaf()
        if r < 0.55:
            return ('app', rng.choice([0, 0, 1, 3, 3]), [go(d - 1), go(d - 1)])
        if r < 0.62:
            return ('app', 2, [go(d - 1), ('lit', rng.randint(-2, 3))])
        if r < 0.68:
            return ('app', 7, [go(d - 1)])
        if r < 0.88:
            rnames_ = [n for n in names if n[1] == 'r']
            args = []
            for _ in range(rng.randint(1, 2)):
                r2 = rng.random()
                if rnames_ and r2 < 0.4:
                    args.append(('rng', rng.choice(rnames_)[0]))
                elif ranges and r2 < 0.8:
                    args.append(('rng', rng.choice(ranges)))
                else:
                    args.append(go(d - 1))
            return ('app', rng.choice([4, 4, 4, 9]), args)
        if r < 0.91:
            return ('app', 6, [go(d - 1), go(d - 1)])
        branch = go(d - 1) if rng.random() < 0.7 else ('lit', rng.choice(['lo', 'hi', '']))
        return ('if', ('app', 10, [go(d - 1), go(d - 1)]), go(d - 1), branch)
    return go(depth)


def gen_const(rng):
    """an input value: mostly integers (0 often: divisors), some floats, texts, booleans"""
    r = rng.random()
    if r < 0.14:
        return 0
    if r < 0.84:
        return rng.randint(-9, 20)
    if r < 0.89:
        return rng.choice([2.5, -0.5, 0.25])
    if r < 0.95:
        return rng.choice(['ab', 'x y', 'Q'])   # not numeric-looking: SUM over such text is outside the model
    return rng.choice([True, False])


def gen_wb(rng, ncells, name_refs, depth=None):
    """an acyclic workbook: cell i refers to cells j < i (directly, through ranges whose existing members are
    all earlier, through defined names bound to earlier cells / such ranges)"""
    nsheets = rng.choice([1, 1, 2, 3])
    sheets = SHEETS[:nsheets] if rng.random() < 0.4 else rng.sample(SHEETS, nsheets)
    grid = [f'{s}!{c}{r}' for s in sheets for c in COLS for r in (1, 2, 3)]
    addrs = rng.sample(grid, min(ncells, len(grid)))
    wb = {'cells': {}, 'names': {}, 'rnames': {}, 'route': 'xlsx' if rng.random() < XLSX_SHARE else 'dict',
          'raw': {'abs': rng.random() < 0.8, 'quote_all': rng.random() < 0.2}}
    order = []
    chain = depth if depth is not None else rng.randint(0, 6)
    for i, a in enumerate(addrs):
        earlier = list(order)
        ranges = []
        later = set(addrs[i:])
        for _ in range(4):
            if len(earlier) >= 1:
                p, q = rng.choice(earlier), rng.choice(earlier)
                if sheet_of(p) == sheet_of(q):
                    key, members = box(p, q)
                    if len(members) > 1 and not (set(members) & later):
                        ranges.append(key)
        names = []
        if name_refs:
            names = [(n, 'c') for n, t in wb['names'].items()] + [(n, 'r') for n in wb['rnames']]
        if not earlier or (i >= chain and rng.random() < 0.45) or (i < 2 and rng.random() < 0.7):
            wb['cells'][a] = gen_const(rng)
        else:
            fx = gen_fx(rng, earlier[-3:] if rng.random() < 0.6 else earlier, ranges, names, rng.randint(1, 2))
            if not refs_of(fx, []):
                fx = ('app', 0, [fx, ('ref', earlier[-1])])
            wb['cells'][a] = ('f', fx)
        order.append(a)
        # defined names bound to what exists so far
        if rng.random() < 0.22 and len(wb['names']) < 2:
            wb['names'][f'nm{len(wb["names"]) + 1}'] = rng.choice(order)
        if rng.random() < 0.25 and len(wb['rnames']) < 2 and ranges:
            wb['rnames'][f'rn{len(wb["rnames"]) + 1}'] = rng.choice(ranges)
    return wb


RICH = [
    '={a}/{b}', '={a}/{b}', '=IF(ISERROR({a}),-1,{a})+1', '={a}&"x"', '={a}={b}', '=DATE(2020,1,{k})',
    '=YEAR({a})', '=ISNUMBER({a})', '=LEN({a}&"ab")', '=SUM({r})', '=MAX({r})', '=AVERAGE({r})', '={r}',
    '=NOT({a}>2)', '=#N/A', '="txt"', '=TRUE', '={a}+{b}', '=IF({a}>{b},"hi",{b})', '=ISBLANK({a})',
    '=UPPER({a}&"q")', '=COUNT({r})', '=AND({a}>0,{b}>0)', '={a}*1', '=ISNA({a})', '=ISTEXT({a})',
    '=SUM({r},{a})', '=IF(ISERROR({a}/{b}),{b},{a}/{b})', '=MIN({r})-{a}', '=COUNTA({r})', '=-{a}',
    '=IF({a}=0,#DIV/0!,1/{a})', '={n}+1', '=SUM({rn})', '={a}&{b}', '=ABS({a})',
]


def gen_rich(rng, ncells):
    """a workbook whose formulas are Excel text over a wider function set (not sent to the Lean driver):
    results are errors, texts, booleans, floats, dates and arrays; acyclic by construction"""
    import datetime
    nsheets = rng.choice([1, 2, 2, 3])
    sheets = rng.sample(SHEETS, nsheets)
    grid = [f'{s}!{c}{r}' for s in sheets for c in COLS for r in (1, 2, 3)]
    addrs = rng.sample(grid, min(ncells, len(grid)))
    route = 'xlsx' if rng.random() < 3 * XLSX_SHARE else 'dict'
    wb = {'cells': {}, 'names': {}, 'rnames': {}, 'route': route,
          'raw': {'abs': rng.random() < 0.8, 'quote_all': rng.random() < 0.2}}
    order = []
    for i, a in enumerate(addrs):
        sheet = sheet_of(a)
        later = set(addrs[i:])
        ranges = []
        for _ in range(4):
            if order:
                p, q = rng.choice(order), rng.choice(order)
                if sheet_of(p) == sheet_of(q):
                    key, members = box(p, q)
                    if len(members) > 1 and not (set(members) & later):
                        ranges.append(key)
        if i < 2 or rng.random() < 0.35:
            r = rng.random()
            if route == 'xlsx' and r < 0.12:
                wb['cells'][a] = datetime.datetime(2021, rng.randint(1, 12), rng.randint(1, 28))
            else:
                wb['cells'][a] = gen_const(rng)
        else:
            for _ in range(20):
                t = rng.choice(RICH)
                if ('{r}' in t and not ranges) or ('{n}' in t and not wb['names']) \
                        or ('{rn}' in t and not wb['rnames']):
                    continue
                break
            else:
                t = '={a}+{b}'
            loc = lambda x: evalwire.local(x, sheet)  # noqa: E731
            text = t.format(a=loc(rng.choice(order)), b=loc(rng.choice(order)), k=rng.randint(1, 28),
                            r=loc(rng.choice(ranges)) if ranges else '',
                            n=rng.choice(list(wb['names'])) if wb['names'] else '',
                            rn=rng.choice(list(wb['rnames'])) if wb['rnames'] else '')
            wb['cells'][a] = ('t', text)
        order.append(a)
        if rng.random() < 0.2 and len(wb['names']) < 2:
            wb['names'][f'nm{len(wb["names"]) + 1}'] = rng.choice(order)
        if rng.random() < 0.2 and len(wb['rnames']) < 2 and ranges:
            wb['rnames'][f'rn{len(wb["rnames"]) + 1}'] = rng.choice(ranges)
    return wb


GEOMETRIES = ['identical', 'nested', 'crossing', 'overlapping', 'adjacent', 'disjoint']


def relation(p, q):
    """how two rectangles (c0, r0, c1, r1) of one sheet lie to each other"""
    if p == q:
        return 'identical'
    ic0, ir0, ic1, ir1 = max(p[0], q[0]), max(p[1], q[1]), min(p[2], q[2]), min(p[3], q[3])
    inside = lambda a, b: b[0] <= a[0] and b[1] <= a[1] and a[2] <= b[2] and a[3] <= b[3]  # noqa: E731
    if ic0 <= ic1 and ir0 <= ir1:
        if inside(p, q) or inside(q, p):
            return 'nested'
        cols_p_in_q = q[0] <= p[0] and p[2] <= q[2]
        cols_q_in_p = p[0] <= q[0] and q[2] <= p[2]
        rows_p_in_q = q[1] <= p[1] and p[3] <= q[3]
        rows_q_in_p = p[1] <= q[1] and q[3] <= p[3]
        if (cols_p_in_q and rows_q_in_p) or (cols_q_in_p and rows_p_in_q):
            return 'crossing'
        return 'overlapping'
    touch_cols = (ic0 == ic1 + 1) and ir0 <= ir1
    touch_rows = (ir0 == ir1 + 1) and ic0 <= ic1
    return 'adjacent' if touch_cols or touch_rows else 'disjoint'


def gen_geo(rng):
    """range geometries: a 5 x 5 block of input cells (some of them empty cells of the sheet) and formula
    cells outside it that add up two or three ranges of the block — rows, columns and blocks that are
    identical, nested, crossing, overlapping, adjacent or disjoint — in one formula (both orders, as separate
    SUMs and as arguments of one SUM) or across formulas, so that cells are reachable through one range only"""
    sheet = rng.choice(SHEETS)
    out = sheet if rng.random() < 0.6 else rng.choice([t for t in SHEETS if t != sheet])
    n = 5

    def rect():
        kind = rng.choice(['row', 'col', 'block', 'block', 'cell-ish'])
        c0, r0 = rng.randrange(n), rng.randrange(n)
        if kind == 'row':
            return (c0, r0, rng.randrange(c0, n), r0) if rng.random() < 0.7 else (0, r0, n - 1, r0)
        if kind == 'col':
            return (c0, r0, c0, rng.randrange(r0, n)) if rng.random() < 0.7 else (c0, 0, c0, n - 1)
        return (c0, r0, rng.randrange(c0, n), rng.randrange(r0, n))

    def key(p):
        return box(f'{sheet}!{ALLCOLS[p[0]]}{p[1] + 1}', f'{sheet}!{ALLCOLS[p[2]]}{p[3] + 1}')[0]

    want = rng.choice(GEOMETRIES)
    for _ in range(300):
        p, q = rect(), rect()
        if (p[0], p[1]) != (p[2], p[3]) and (q[0], q[1]) != (q[2], q[3]) and relation(p, q) == want:
            break
    else:
        p, q = (0, 0, 2, 0), (1, 0, 1, 2)
    rects = [p, q]
    if rng.random() < 0.3:
        for _ in range(50):
            t = rect()
            if (t[0], t[1]) != (t[2], t[3]):
                rects.append(t)
                break
    wb = {'cells': {}, 'names': {}, 'rnames': {}, 'route': 'xlsx' if rng.random() < XLSX_SHARE / 2 else 'dict',
          'raw': {'abs': rng.random() < 0.8, 'quote_all': rng.random() < 0.2},
          'geometry': relation(p, q)}
    fill = rng.choice([0.5, 0.8, 1.0])
    for r in range(n):
        for c in range(n):
            if rng.random() < fill:
                wb['cells'][f'{sheet}!{ALLCOLS[c]}{r + 1}'] = rng.randint(-9, 20)
    if not wb['cells']:
        wb['cells'][f'{sheet}!A1'] = 1
    keys = [key(t) for t in rects]
    if rng.random() < 0.25:
        wb['rnames']['rn1'] = keys[0]
    if rng.random() < 0.25:
        wb['rnames']['rn2'] = keys[1]
    operands = [('rng', next((nm for nm, k0 in wb['rnames'].items() if k0 == k and rng.random() < 0.7), k))
                for k in keys]
    if rng.random() < 0.5:
        operands.reverse()
    sm = lambda xs: ('app', 4, list(xs))  # noqa: E731
    add = lambda a, b: ('app', 0, [a, b])  # noqa: E731
    g = [f'{out}!G{i}' for i in (1, 2, 3, 4)]
    style = rng.choice(['one-sum', 'sums', 'across', 'across'])
    if style == 'one-sum' and len(operands) == 2:
        wb['cells'][g[0]] = ('f', sm(operands))
    elif style in ('one-sum', 'sums'):
        fx = sm([operands[0]])
        for o in operands[1:]:
            fx = add(fx, sm([o]))
        wb['cells'][g[0]] = ('f', fx)
    else:
        for i, o in enumerate(operands):
            wb['cells'][g[i]] = ('f', sm([o]))
        parts = [('ref', g[i]) for i in range(len(operands))]
        if rng.random() < 0.5:
            parts.reverse()
        fx = parts[0]
        for o in parts[1:]:
            fx = add(fx, o)
        wb['cells'][g[3]] = ('f', fx)
    return wb


def geo_focus_items(wb):
    """the formula cells and the names; plus two input cells"""
    f = [a for a, c in wb['cells'].items() if isinstance(c, tuple)]
    return f + list(wb.get('rnames', {}))


def hand_made():
    """the shapes the tests never extract (the witnesses of repaired findings live in corpus/C13)"""
    S = 'Sheet1!'
    ref = lambda a: ('ref', a)  # noqa: E731
    add = lambda a, b: ('app', 0, [a, b])  # noqa: E731
    out = []
    # D27: formula over formula; formula over a range; range of formulas; chain of depth 6
    out.append(({'cells': {S + 'A1': 5, S + 'B1': ('f', add(ref(S + 'A1'), ('lit', 1))),
                           S + 'C1': ('f', add(ref(S + 'B1'), ref(S + 'B1')))}}, 'formula over formula'))
    out.append(({'cells': {S + 'A1': 5, S + 'A2': 7, S + 'B1': ('f', ('app', 4, [('rng', S + 'A1:A2')]))}},
                'formula over a range'))
    out.append(({'cells': {S + 'A1': 5, S + 'A2': ('f', add(ref(S + 'A1'), ('lit', 2))),
                           S + 'B1': ('f', ('app', 4, [('rng', S + 'A1:A3')])),
                           'S2!A1': ('f', add(ref(S + 'B1'), ('lit', 1)))}}, 'range of formulas, other sheet'))
    chain = {S + 'A1': 1}
    prev = S + 'A1'
    for i, a in enumerate(['A2', 'A3', 'B1', 'B2', 'B3', 'C1']):
        chain[S + a] = ('f', add(ref(prev), ('lit', i)))
        prev = S + a
    out.append(({'cells': chain}, 'chain of depth 6'))
    # defined names as focus items
    out.append(({'cells': {S + 'A1': 5, S + 'A2': 7, S + 'B1': ('f', add(ref(S + 'A1'), ref(S + 'A2'))),
                           'My Sheet!A1': ('f', add(ref(S + 'B1'), ('lit', 1)))},
                 'names': {'nm1': 'My Sheet!A1', 'nm2': S + 'A1'}, 'rnames': {'rn1': S + 'A1:A2'}},
                'focused cell names and range name'))
    # values other than numbers stored in the closure of an evaluated original (error, text, boolean, float)
    out.append(({'cells': {S + 'A1': 10, S + 'A2': 0, S + 'A3': 'ab', S + 'B1': ('f', ('app', 3, [ref(S + 'A1'), ref(S + 'A2')])),
                           S + 'B2': ('f', ('if', ('app', 10, [ref(S + 'A2'), ('lit', 1)]), ('lit', 'lo'), ref(S + 'B1'))),
                           S + 'B3': ('f', ('app', 6, [ref(S + 'A3'), ('lit', 'ab')])),
                           S + 'C1': ('f', add(ref(S + 'B1'), ('lit', 1)))}}, 'error, text and boolean results'))
    # defined names on a sheet whose title must be quoted, compiled from an .xlsx file and from a dictionary
    Q = "Bob's!"
    for route in ('xlsx', 'dict'):
        out.append(({'cells': {Q + 'A1': 1, Q + 'A2': 2, Q + 'B1': 10,
                               'Calc!A1': ('f', ('app', 4, [('rng', 'rn1')])),
                               'Calc!A2': ('f', ('app', 2, [ref('Calc!A1'), ref('nm1')]))},
                     'names': {'nm1': Q + 'B1'}, 'rnames': {'rn1': Q + 'A1:A3'}, 'route': route},
                    'names on a quoted sheet (' + route + ')'))
    return out


# ------------------------------------------------------------------ observation of the real objects

def snapshot(model):
    """everything extraction must leave alone: cells (formula text, terms, stored value, back-links),
    defined names, ranges (matrix, cached value), formulae keys"""
    from xlcalculator import xltypes

    def val(v):
        try:
            return common.canon(v)
        except Exception as exc:  # noqa: BLE001
            return 'unprintable:' + type(exc).__name__
    cells = {a: (c.formula.formula if c.formula else None,
                 tuple(c.formula.terms) if c.formula else None,
                 val(c.value), tuple(c.defined_names),
                 # the compiled formula object and its AST must stay the ones the original had
                 (id(c.formula), id(c.formula.ast)) if c.formula else None)
             for a, c in model.cells.items()}
    names = {n: ('cell', d.address) if isinstance(d, xltypes.XLCell) else ('range', d.address_str, repr(d.cells))
             for n, d in model.defined_names.items()}
    ranges = {k: (repr(r.cells), val(r.value)) for k, r in model.ranges.items()}
    return {'cells': cells, 'names': names, 'ranges': ranges, 'formulae': sorted(model.formulae),
            'order': list(model.cells)}


def diff_snap(a, b):
    for part in ('cells', 'names', 'ranges', 'formulae', 'order'):
        if a[part] != b[part]:
            if isinstance(a[part], dict):
                keys = [k for k in set(a[part]) | set(b[part]) if a[part].get(k) != b[part].get(k)]
                return f'{part} {sorted(keys)[:3]}: {[(a[part].get(k), b[part].get(k)) for k in sorted(keys)[:2]]}'
            return f'{part}: {a[part]} -> {b[part]}'
    return None


def describe(wb):
    cells = {a: (formula_text(a, c) if isinstance(c, tuple) else c) for a, c in wb['cells'].items()}
    return {'cells': cells, 'names': {n: raw_ref(a, wb) for n, a in wb.get('names', {}).items()},
            'range_names': {n: raw_ref(a, wb) for n, a in wb.get('rnames', {}).items()},
            'compiled_from': wb.get('route', 'dict')}


class Case:
    __slots__ = ('wb', 'focus', 'sets', 'pre', 'order', 'tag', 'line', 'real', 'rich')


def is_rich(wb):
    import datetime
    return any((isinstance(c, tuple) and c[0] == 't') or isinstance(c, datetime.datetime)
               for c in wb['cells'].values())


def apply_sets(model, sets):
    """the input changes in order; the outcome of the first call that raises (None: all applied)"""
    for a, v in sets:
        try:
            model.set_cell_value(a, v)
        except RecursionError:
            raise
        except Exception as exc:  # noqa: BLE001
            return f'set_cell_value({a!r}, {v!r}) raised ' + type(exc).__name__
    return None


def run_real(case):
    """everything observed on the real code for one case.  History: compile; evaluate the cells `pre` of the
    original; extract; then evaluate every focused item on both models, apply the input changes to both and
    evaluate again — the extract first (order 'x') or the original first (order 'm').  The original is
    compared with its state before the extraction whenever only the extract has been touched since."""
    from xlcalculator import ModelCompiler, Evaluator
    wb, focus, sets = case.wb, case.focus, case.sets
    model = build_real(wb)
    obs = {}
    if case.pre:
        ev = Evaluator(model)
        for a in case.pre:
            canon_result(ev.evaluate, a)
    obs['closure'], used = py_closure(model, focus)
    # a change addressed by a defined name goes by that name on both models when the extracted model has to
    # have the name (focused, or used by a formula of the closure), by the address of its cell otherwise
    have = set(focus) | used
    sets = [(a if a not in wb.get('names', {}) or a in have else wb['names'][a], v) for a, v in sets]
    obs['sets'] = sets
    case.line = None if case.rich else wire_request(wb, model, focus, sets)
    snap0 = snapshot(model)
    try:
        x = ModelCompiler.extract(model, list(focus))
    except RecursionError:
        raise
    except Exception as exc:  # noqa: BLE001
        obs['raise'] = 'X:' + type(exc).__name__ + ':' + str(exc)[:60]
        obs['pure'] = diff_snap(snap0, snapshot(model))
        return obs
    obs['pure'] = diff_snap(snap0, snapshot(model))
    obs['keys'] = {'cells': sorted(x.cells), 'ranges': sorted(x.ranges), 'names': sorted(x.defined_names),
                   'formulae': sorted(x.formulae), 'order': list(x.cells)}
    obs['all_cells'] = set(model.cells)
    obs['all_ranges'] = set(model.ranges)
    ex, em = Evaluator(x), Evaluator(model)
    if case.order == 'x':
        obs['x0'] = [canon_result(ex.evaluate, f) for f in focus]
        obs['pure_eval'] = diff_snap(snap0, snapshot(model))
        obs['set_x'] = apply_sets(x, sets)
        obs['x1'] = [canon_result(ex.evaluate, f) for f in focus]
        obs['pure_sets'] = diff_snap(snap0, snapshot(model))
        obs['m0'] = [canon_result(em.evaluate, f) for f in focus]
        obs['set_m'] = apply_sets(model, sets)
        obs['m1'] = [canon_result(em.evaluate, f) for f in focus]
    else:
        obs['m0'] = [canon_result(em.evaluate, f) for f in focus]
        snap1 = snapshot(model)
        obs['x0'] = [canon_result(ex.evaluate, f) for f in focus]
        obs['pure_eval'] = diff_snap(snap1, snapshot(model))
        obs['set_m'] = apply_sets(model, sets)
        obs['m1'] = [canon_result(em.evaluate, f) for f in focus]
        snap2 = snapshot(model)
        obs['set_x'] = apply_sets(x, sets)
        obs['x1'] = [canon_result(ex.evaluate, f) for f in focus]
        obs['pure_sets'] = diff_snap(snap2, snapshot(model))
    return obs


def gen_sets(rng, wb, focus, model_cells=None):
    inputs = [a for a, c in wb['cells'].items() if not isinstance(c, tuple)]
    if wb.get('geometry'):
        # also the empty cells of the block (placeholders inside a range, or new cells in both models)
        sheet = sheet_of(inputs[0])
        inputs = [f'{sheet}!{ALLCOLS[c]}{r}' for c in range(5) for r in range(1, 6)]
    sets = []
    for _ in range(rng.randint(1, 3)):
        r = rng.random()
        # single-cell names bound to an input cell: focused or not, their cell inside or outside the focus
        input_names = [n for n, t in wb.get('names', {}).items() if not isinstance(wb['cells'].get(t), tuple)]
        v = rng.randint(-9, 30) if rng.random() < 0.8 else rng.choice([0, 0, 2.5, 'ab', True])
        if input_names and r < 0.35:
            sets.append((rng.choice(input_names), v))
        elif inputs:
            sets.append((rng.choice(inputs), v))
    return sets


def focus_items(wb):
    return list(wb['cells']) + list(wb.get('names', {})) + list(wb.get('rnames', {}))


def gen_cases(ctx):
    rng = ctx.rng
    thorough = ctx.tier == 'thorough' or ctx.widen
    cases = []

    def add(wb, focus, tag, evaluated=None):
        c = Case()
        c.wb, c.focus, c.tag = wb, tuple(focus), tag
        c.rich = is_rich(wb)
        c.sets = gen_sets(rng, wb, focus)
        # history before the extraction: nothing / some / all cells of the original evaluated
        cells = list(wb['cells'])
        if evaluated is None:
            evaluated = rng.choice(['none', 'none', 'none', 'some', 'all'])
        c.pre = tuple(cells if evaluated == 'all' else
                      rng.sample(cells, rng.randint(1, len(cells))) if evaluated == 'some' else ())
        c.order = rng.choice('xxm')
        cases.append(c)

    # regression inputs (corpus/C13) first, then hand-made shapes: every non-empty focus subset, on a fresh and
    # on an evaluated model
    for wb, tag in load_corpus() + hand_made():
        items = focus_items(wb)
        for k in range(1, len(items) + 1):
            for sub in itertools.combinations(items, k):
                if len(items) > 5 and k not in (1, 2, len(items)):
                    continue
                if wb.get('route') == 'xlsx' and k > 2:
                    continue
                add(wb, sub, tag, evaluated='none')
                if k <= 2:
                    add(wb, sub, tag, evaluated='all')
    # small models: every non-empty focus subset of cells and names
    nsmall = 500 if thorough else 34
    for i in range(nsmall):
        wb = gen_wb(rng, rng.randint(2, 6), name_refs=(i % 4 >= 2), depth=i % 7)
        if wb['route'] == 'xlsx':
            wb['route'] = 'dict'        # the file route is sampled below (one file per case is too slow here)
        items = focus_items(wb)
        for k in range(1, len(items) + 1):
            for sub in itertools.combinations(items, k):
                add(wb, sub, 'small-exhaustive')
    # larger models: sampled focus sets
    nlarge = 8000 if thorough else 330
    for i in range(nlarge):
        wb = gen_wb(rng, rng.randint(7, 18), name_refs=(i % 5 == 4 or i % 7 == 3))
        items = focus_items(wb)
        for _ in range(6 if thorough else 4):
            k = rng.choice([1, 1, 2, 3, rng.randint(1, len(items))])
            add(wb, rng.sample(items, k), 'large-sampled')
    # range geometries: every non-empty focus subset of the formula cells and names
    ngeo = 5000 if thorough else 260
    for i in range(ngeo):
        wb = gen_geo(rng)
        items = geo_focus_items(wb)
        subs = [sub for k in range(1, len(items) + 1) for sub in itertools.combinations(items, k)]
        if wb['route'] == 'xlsx' or len(subs) > 7:
            subs = rng.sample(subs, min(len(subs), 3))
        for sub in subs:
            add(wb, sub, 'geometry:' + wb['geometry'])
    # the rich family: wider function set, values of every kind stored by an evaluation before the extraction
    nrich = 6000 if thorough else 300
    for i in range(nrich):
        wb = gen_rich(rng, rng.randint(4, 12))
        items = focus_items(wb)
        for _ in range(4):
            k = rng.choice([1, 1, 2, 3, rng.randint(1, len(items))])
            add(wb, rng.sample(items, k), 'rich', evaluated=rng.choice(['none', 'some', 'all', 'all']))
    return cases


# ------------------------------------------------------------------ the check

def split_keys(w):
    return [] if w == '' else [un_cp(k) for k in w.split('|')]


def depth_of(wb):
    memo = {}
    names = dict(wb.get('names', {}))
    rn = dict(wb.get('rnames', {}))

    def members(key):
        s, rest = key.rsplit('!', 1)
        p, q = rest.split(':')
        return box(f'{s}!{p}', f'{s}!{q}')[1]

    def d(a):
        if a in memo:
            return memo[a]
        memo[a] = 0
        c = wb['cells'].get(a)
        best = 0
        if isinstance(c, tuple):
            for r in refs_of(c[1], []):
                if r in names:
                    best = max(best, 1 + d(names[r]))
                elif r in rn:
                    best = max(best, 1 + max(d(x) for x in members(rn[r])))
                elif ':' in r:
                    best = max(best, 1 + max(d(x) for x in members(r)))
                else:
                    best = max(best, 1 + d(r))
        memo[a] = best
        return best
    return max([d(a) for a in wb['cells']] or [0])


def run(ctx):
    import warnings
    import xlcalculator  # noqa: F401
    warnings.filterwarnings('ignore')      # dateutil / openpyxl chatter of the code under test
    res = Result()
    res.rule = ('acyclic workbooks of dependency depth 0-6 over up to three of five sheets (titles with blank, '
                'apostrophe, & and $) with ranges, cell names and range names given as raw workbook text (quoted, '
                '$-absolute), compiled from a dictionary or from an .xlsx file (hand-made shapes + corpus + '
                'generated); every non-empty focus subset of cells and names for models of <= 6 cells, sampled '
                'subsets for 7-18 cells; a range-geometry family (two or three rows / columns / blocks of a 5 x 5 '
                'block that are identical, nested, crossing, overlapping, adjacent or disjoint, in one formula in '
                'both orders or across formulas, with empty cells and cells reachable through one range only); originals not / partly / fully evaluated before the extraction (error, '
                'text, boolean, float, date, array values stored in the closure); 1-3 random set_cell_value on '
                'input cells applied to both models, extract or original evaluated first; real extract vs real '
                'original (values before/after the changes, original unchanged by deep comparison, closure '
                'contained) and, for the model-compared family, vs the Lean model of extract (copied key sets, '
                'closure); non-trivial = distinct (workbook, focus, history) whose closure is larger than the focus')
    if getattr(ctx, 'replay', None):
        cases = [case_of_replay(ctx.replay)]
    else:
        cases = gen_cases(ctx)
    res.exhaustive = True
    for lo in range(0, len(cases), 4000):
        chunk = cases[lo:lo + 4000]
        for c in chunk:
            c.real = run_real(c)
        wired = [c for c in chunk if not c.rich]
        resp = iter(ctx.driver.batch([c.line for c in wired]))
        classify(ctx, res, [(c, None if c.rich else next(resp)) for c in chunk])
        for c in chunk:
            c.real = c.line = None
    if res.drift:
        res.notes.append(f'{len(res.drift)} model/implementation differences where the code still meets Spec')
    return res


def load_corpus():
    import json
    out = []
    for path in sorted((common.CORPUS / 'C13').glob('*.json')):
        e = json.loads(path.read_text())
        a = e['abstract']
        out.append((wb_of_json(a), 'corpus:' + path.stem))
    return out


def tuplify(x):
    if isinstance(x, list):
        return tuple(tuplify(y) for y in x)
    return x


def case_of_replay(path):
    import json
    from pathlib import Path
    p = Path(path)
    if not p.is_absolute():
        p = common.VERIF / p
    inp = json.loads(p.read_text())['input']
    a = inp['abstract']
    c = Case()
    c.wb = wb_of_json(a)
    c.focus = tuple(inp['focus'])
    c.sets = [tuple(x) for x in inp['sets']]
    c.pre = tuple(inp.get('evaluated_before') or ())
    c.order = inp.get('order', 'x')
    c.rich = is_rich(c.wb)
    c.tag = 'replay'
    return c


def wb_of_json(a):
    import datetime

    def cell(v):
        if isinstance(v, dict) and 'datetime' in v:
            return datetime.datetime.fromisoformat(v['datetime'])
        return tuplify(v)
    wb = {'cells': {k: cell(v) for k, v in a['cells'].items()}, 'names': a.get('names', {}),
          'rnames': a.get('rnames', {})}
    for k in ('route', 'raw', 'geometry'):
        if k in a:
            wb[k] = a[k]
    return wb


def wb_to_json(wb):
    import datetime
    out = dict(wb)
    out['cells'] = {k: ({'datetime': v.isoformat()} if isinstance(v, datetime.datetime) else v)
                    for k, v in wb['cells'].items()}
    return out


def close_value(a, b):
    """equality for the comparison with the Lean evaluator model: floats within 1e-9 relative"""
    if same_value(a, b):
        return True
    na, nb = common.num_value(a), common.num_value(b)
    return na is not None and nb is not None and abs(na - nb) <= abs(nb) / 10**9


def classify(ctx, res, pairs):
    for c, r in pairs:
        classify_one(res, c, r)


def classify_one(res, c, r):
    before = len(res.violations)
    try:
        classify_case(res, c, r)
    finally:
        if len(res.violations) > before:
            res.count('violating-shape:' + c.tag)


def classify_case(res, c, r):
    if True:
        obs = c.real
        d = None
        if r is not None:
            d = parse_kv(r)
            if 'spec' not in d:
                raise RuntimeError(f'driver: {r!r} for {c.line[:300]!r}')
            if d['sat'] != '1':
                raise RuntimeError('closure computation did not saturate')
            if d['wf'] != '1' or d['focusok'] != '1':
                # the compiled original lacks the hygiene the theorems assume (never on generated workbooks
                # unless the compiler itself changed): the Lean side says nothing, the property is still
                # checked real extract vs real original with the closure computed by the harness
                res.count('compiled-model-outside-WF')
                d = None
        inp = {'workbook': describe(c.wb), 'focus': list(c.focus), 'sets': c.sets, 'sets_applied': obs.get('sets'),
               'evaluated_before': list(c.pre), 'order': c.order, 'abstract': wb_to_json(c.wb)}
        res.evaluations += 1
        res.count('shape:' + c.tag)
        res.count('route:' + c.wb.get('route', 'dict'))
        if not c.rich:
            res.count('depth:%d' % depth_of(c.wb))
        res.count('focus_size:%d' % min(len(c.focus), 6))
        res.count('history:' + ('fresh original' if not c.pre else 'fully evaluated original'
                                if len(c.pre) == len(c.wb['cells']) else 'partly evaluated original'))
        res.count('order:' + ('extract evaluated first' if c.order == 'x' else 'original evaluated first'))
        if any(a in c.wb.get('names', {}) for a, _ in obs.get('sets') or []):
            res.count('changes:some addressed by a defined name')
        # the closure: computed by the harness from the real original; for the model-compared family also by
        # the Lean Spec (they must coincide: drift otherwise, and both are demanded of the extract)
        closure = set(obs['closure'])
        if d is not None:
            lean_closure = set(split_keys(d['closure']))
            if lean_closure != closure:
                res.drift.append({'input': inp, 'what': 'closure: harness vs Lean Spec',
                                  'model': sorted(lean_closure), 'real': sorted(closure)})
                closure |= lean_closure
        if len(closure) > len(c.focus):
            res.nontrivial.add(repr((c.wb['cells'], c.focus, c.pre, c.order)))
        for key in ('pure', 'pure_eval', 'pure_sets'):
            if obs.get(key):
                res.violations.append({'what': 'extraction (or a change of the extract) changed the original model'
                                               f' [{key}]', 'input': inp, 'expected': 'original unchanged',
                                       'got': obs[key]})
        if 'raise' in obs:
            res.count('outcome:extract-raised')
            res.violations.append({'what': 'extract raised', 'input': inp,
                                   'expected': 'an extracted model' if d is None or 'err' not in d
                                   else 'model: KeyError ' + un_cp(d['err']),
                                   'got': obs['raise']})
            return
        if d is not None and 'err' in d:
            res.drift.append({'input': inp, 'model': 'KeyError ' + un_cp(d['err']), 'real': 'extracted'})
            return
        res.count('outcome:extracted')
        keys = obs['keys']
        res.sample({'focus': list(c.focus), 'workbook': describe(c.wb), 'extracted_cells': keys['cells'],
                    'extracted_ranges': keys['ranges'], 'values': obs['x1']})
        for v in obs['m0'] + obs['m1']:
            res.count('value:' + ('error' if v.startswith('E:') else 'raises' if v.startswith('X:') else
                                  {'I': 'integer', 'F': 'float', 'T': 'text', 'B': 'boolean', 'Z': 'blank',
                                   'D': 'date', 'A': 'array'}.get(v[:1], 'other')))
        if obs.get('set_x') != obs.get('set_m'):
            res.violations.append({'what': 'the same input changes cannot be applied to both models', 'input': inp,
                                   'expected': obs.get('set_m') or 'applied (as on the original)',
                                   'got': obs.get('set_x') or 'applied'})
        # 1. the property: focused addresses evaluate alike, before and after the changes
        bad = False
        for i, f in enumerate(c.focus):
            for phase, xr, mr in (('before', obs['x0'][i], obs['m0'][i]), ('after', obs['x1'][i], obs['m1'][i])):
                if same_value(xr, mr):
                    continue
                bad = True
                res.violations.append({'what': f'focused {f} evaluates differently in the extracted model '
                                               f'({phase} the input changes)', 'input': inp,
                                       'expected': mr, 'got': xr})
        # 2. the extracted model contains the closure
        missing = [a for a in sorted(closure)
                   if (a in obs['all_cells'] and a not in keys['cells'])
                   or (a in obs['all_ranges'] and a not in keys['ranges'])]
        if missing:
            res.violations.append({'what': 'the extracted model does not contain the dependency closure of '
                                           'the focus', 'input': inp, 'expected': sorted(closure),
                                   'got': {'cells': keys['cells'], 'ranges': keys['ranges'],
                                           'missing': missing}})
        # nothing outside the closure is needed; a larger extract is counted, not a violation
        if [a for a in keys['cells'] + keys['ranges'] if a not in closure]:
            res.count('extract-larger-than-closure')
        if keys['formulae']:
            res.notes.append('extract now fills formulae')
        if d is None:
            return
        # 3. model validation (drift, not violations)
        model_keys = {'cells': sorted(split_keys(d['cells'])), 'ranges': sorted(split_keys(d['ranges'])),
                      'names': sorted(split_keys(d['names'])), 'formulae': sorted(split_keys(d['formulae']))}
        same_keys = all(model_keys[k] == keys[k] for k in model_keys)
        impl0, impl1 = d['impl0'].split(' '), d['impl'].split(' ')
        spec0, spec1 = d['spec0'].split(' '), d['spec'].split(' ')
        rnames = c.wb.get('rnames', {})
        if not same_keys and not missing and not bad:
            res.drift.append({'input': inp, 'what': 'copied key sets', 'model': model_keys,
                              'real': {k: keys[k] for k in model_keys}})
        for i, f in enumerate(c.focus):
            if f in rnames:
                continue
            if not close_value(obs['m0'][i], spec0[i]) or not close_value(obs['m1'][i], spec1[i]):
                res.drift.append({'input': inp, 'what': f'evaluator model on the original at {f}',
                                  'model': [spec0[i], spec1[i]], 'real': [obs['m0'][i], obs['m1'][i]]})
            elif not bad and same_keys and (not close_value(obs['x0'][i], impl0[i])
                                            or not close_value(obs['x1'][i], impl1[i])):
                res.drift.append({'input': inp, 'what': f'evaluator model on the extract at {f}',
                                  'model': [impl0[i], impl1[i]], 'real': [obs['x0'][i], obs['x1'][i]]})
        res.count('names:' + ('none-in-closure' if d['guard'] == '1' else 'defined-names-used-in-closure'))
