"""C14 — aggregates over ranges equal the reference fold of the addressed cells (DESIGN.md §4 C14).

Every generated input is a *case*: a function name, a list of arguments (ranges given by their rows,
scalars, Python lists) and the way it reaches the code: `direct` (`xl.FUNCTIONS[fn](Array, scalar, …)`)
or `formula` (cells and formulas of a compiled model, `Evaluator.evaluate`).  For each case
  real  = what the code returns,
  spec  = the fold of the statement over exactly the addressed values (Lean, `Spec.C14`),
  model = the Lean model of flatten / _validate / Array / RangeNode.eval / the seven bodies.
"""
import itertools
import json
import re
from fractions import Fraction

import common
from common import Result, parse_kv, call_real, w_text, w_frac

LEVEL_TEXT = (
    'Lean theorems over Q, for all lists, by induction: the seven reference folds are invariant under every '
    'permutation of the addressed values (sum_perm and its siblings, SUMPRODUCT under permuting the arrays and '
    'under permuting the cells of all arrays alike), SUM is additive over every split of the addressed cells '
    'into pieces (sum_split, with the horizontal and vertical cut of a rectangle as instances), MIN <= AVERAGE '
    '<= MAX; and over the statement-by-statement model of flatten, Tuple[XlNumber] validation, the Array of a '
    'range and the seven bodies: the model equals the folds on numbers, empty cells and non-numeric text '
    '(aggregate_refines, count_spec, counta_spec, sumproduct_spec), SUMPRODUCT answers #VALUE! for differently '
    'shaped arrays (sumproduct_shape), the leftmost error item is the result of SUM/AVERAGE/MIN/MAX '
    '(error_leftmost), results are invariant under permuting arguments and cells (agg_perm), and the registry '
    'annotations of the seven functions are pinned by decide. The model is tied to the code by an exhaustive '
    'small-rectangle, all-splits, all-argument-orders and random differential run, as direct calls and through '
    'formulas over real ranges of compiled models, single-sheet and multi-sheet (qualified and unqualified '
    'references mixed in one argument list, every order), on freshly compiled models and along histories of '
    'set_cell_value writes on one re-used model, with magnitudes up to products beyond 2**63.')
LEVEL_NOTE = (
    'Trusted: Lean kernel (propext, Classical.choice, Quot.sound); the hand models Model/C14.lean and '
    'Model/Value.lean (validated by correspondence, not proved equal to the Python); pandas DataFrame '
    'construction (padding of ragged rows is modelled); IEEE rounding is not modelled (inputs are integers and '
    'dyadic fractions, sums and products are exact, the mean is compared within 4 ulp). Known findings: D1403 '
    '(a run of more than 100 empty cells cuts a range short), D1404 (COUNT/COUNTA reject more than 255/256 '
    'cells). A reference to a never-stored cell (BLANK) is inside the domain: it must be ignored (D1405, fixed).')
DESIGN_REF = '§4 C14'

# theorems of the integrated pipeline model (Props/X01.lean) that carry this property's theorems to formula TEXTS in a
# compiled workbook; re-built and audited with this check (harness/common.prepare: soft obligations)
TRANSPORT = ('XlVerif.Props.X01', ['X01_SUM_range_partial', 'libSem_call_aggregate'])
TRUSTED = [
    'Lean 4.33 kernel; axioms propext, Classical.choice, Quot.sound only',
    'hand-written model lean/XlVerif/Model/C14.lean (flatten, _validate, Array, RangeNode.eval, the seven '
    'bodies) on top of Model/Value.lean (casts), tied to the code by this correspondence run',
    'translator extractors/c14_consts.py (MAX_EMPTY) and a_core.py (function registry with annotations)',
    'pandas.DataFrame construction / .values.flat (row-major, ragged rows padded with None)',
    'IEEE-754 rounding is not modelled: inputs are integers and dyadic fractions so that sums and products are '
    'exact; AVERAGE is compared within 4 ulp where the quotient is not a double; in the large-magnitude family '
    'integer-only inputs are compared exactly (Python integers do not round) and inputs holding a float or a '
    'BLANK (0.0 in SUMPRODUCT) are non-negative and compared within 2**-46 relative',
]
ASSUMPTIONS = [
    'numeric-looking text and booleans inside ranges are outside the domain (Excel ignores them, the code '
    'casts them): compared with the model only',
    'text, booleans, None and Python lists passed as scalar arguments of a direct call are outside the domain',
    'the statement does not say what the mean / minimum / maximum of no numbers is (the code returns 0): '
    'compared with the model only',
    'which error SUMPRODUCT returns for an error item is not constrained (the code returns #N/A, asserted by '
    'its unit test); that SUM/AVERAGE/MIN/MAX return the leftmost error item is checked',
    'set_cell_value on a formula cell is not part of the histories (the formula keeps computing: C04); writes go '
    'to value cells inside the ranges and to the precedents of formula cells inside them',
    'ranges are given in normalised form (top-left:bottom-right); sheet titles hold no comma (D0303 of C03)',
    'texts that dateutil reads as a date ("1,2", "1 2", "--1", "1/2", "3rd", "may 5", "jan") are cast by the code '
    '(known finding D23 of C08) and are outside the domain; the non-numeric pool holds only texts that are no '
    'number for Python, no boolean word and no date for a strict dateutil parse',
]

SINGLE = ['SUM', 'AVERAGE', 'MIN', 'MAX', 'COUNT', 'COUNTA']
ALLFN = SINGLE + ['SUMPRODUCT']
# Non-numeric texts for range members.  Besides plain words: texts that merely CONTAIN digits, signs,
# punctuation, exponent / hex / percent / currency look-alikes.  None of them is a number for Python's
# int()/float(), a boolean word, or a date for a strict dateutil parse (checked at start-up by
# `nonnumeric_pool`, independently of the code under test).  Texts that dateutil reads as a date
# ('1,2', '1 2', '--1', '1/2', '3rd', 'may 5', 'jan') are the known finding D23 of C08 and outside
# this property's domain.
NONNUM = ['abc', 'x y', 'total:', 'é', 'n/a', '#', 'q',
          'lot 7', 'item 3', 'x1', 'ab12', '7 up', 'no. 5', 'e5', '0x1F', '1e', '$3', '3%', '#7', 'a-1',
          '+-2', '1_', '(3)', '3 kg', '12:', 'v2.0', 'Q3', '12-x']
TITLES = ['Calc', 'Data', 'My Sheet', 'Q1-2020', 'Sheet2']   # no ',' in a title: D0303 of C03
ERR_CODES = ['#NULL!', '#DIV/0!', '#VALUE!', '#REF!', '#NAME?', '#NUM!', '#N/A']
FCOL = 'ZZ'
BLOCK = 13          # column distance between the ranges of a formula case
SCALAR_ROW = 19     # 0-based row that holds referenced scalars
LISTED_MAX_EMPTY = 100   # ast_nodes.MAX_EMPTY when D1403 was listed


# ---------------------------------------------------------------- values and wire

def is_num(v):
    return isinstance(v, (int, float)) and not isinstance(v, bool)


def is_err(v):
    return isinstance(v, list) and len(v) == 2 and v[0] == 'E'


def cell_wire(v):
    """typed scalar (Base.lean `S`) wire of a case value"""
    if v is None:
        return 'Z'
    if isinstance(v, bool):
        return 'B:1' if v else 'B:0'
    if isinstance(v, int):
        return f'I:{v}'
    if isinstance(v, float):
        return 'F:' + w_frac(Fraction(v))
    if isinstance(v, str):
        return w_text(v)
    if is_err(v):
        return 'E:' + common.CODE_WIRE[v[1]]
    raise TypeError(v)


def rows_wire(rows):
    return ';'.join(','.join(cell_wire(v) for v in row) for row in rows)


def arg_wire(a, via):
    k = a[0]
    if k == 'R':
        return ('r:' if via == 'formula' else 'a:') + rows_wire(a[1])
    if k == 'S':
        # in a formula every operand arrives typed (OperandNode / cell value)
        spell = 'n' if (a[2] == 'n' and via == 'direct' and not is_err(a[1])) else 'x'
        return f's:{spell}:' + cell_wire(a[1])
    if k == 'L':
        return 'l:' + '|'.join('n:' + cell_wire(v) for v in a[1])
    raise TypeError(a)


def case_line(case):
    return '\t'.join(['C14', case['fn']] + [arg_wire(a, case['via']) for a in case['args']])


# ---------------------------------------------------------------- calling the real code

def py_native(v):
    from xlcalculator.xlfunctions import xlerrors
    if is_err(v):
        return xlerrors.ERRORS_BY_CODE[v[1]]()
    return v


def py_typed(v):
    from xlcalculator.xlfunctions import func_xltypes as ft
    if v is None:
        return ft.BLANK
    if isinstance(v, bool):
        return ft.Boolean(v)
    if is_num(v):
        return ft.Number(v)
    if isinstance(v, str):
        return ft.Text(v)
    return py_native(v)


def real_arg(a):
    from xlcalculator.xlfunctions import func_xltypes as ft
    k = a[0]
    if k == 'R':
        return ft.Array([[py_native(v) for v in row] for row in a[1]])
    if k == 'S':
        return py_native(a[1]) if a[2] == 'n' else py_typed(a[1])
    if k == 'L':
        return [py_native(v) for v in a[1]]
    raise TypeError(a)


def run_direct(case):
    from xlcalculator.xlfunctions import xl
    try:
        args = [real_arg(a) for a in case['args']]
    except Exception as exc:  # noqa: BLE001 - Array construction is part of the code under test
        return 'X:' + type(exc).__name__
    return call_real(xl.FUNCTIONS[case['fn']], *args)


def col_letters(c):
    s, c = '', c + 1
    while c:
        c, r = divmod(c - 1, 26)
        s = chr(65 + r) + s
    return s


def addr(r, c):
    return f'{col_letters(c)}{r + 1}'


class Sheet:
    """cells of one compiled model plus the formulas evaluated on it"""

    def __init__(self):
        self.cells = {}      # address -> value / formula text
        self.blanks = []     # addresses set to '' after compilation
        self.formulas = []
        self.results = None
        self.home = 'Sheet1'        # sheet of the formula cells; addresses without '!' live there
        self.default_sheet = None   # default_sheet argument of read_and_parse_dict (None: its default)

    def put(self, a, v):
        if isinstance(v, str) and v == '':
            self.blanks.append(a)
        elif v is None:
            pass                       # never written: not in the model
        elif is_err(v):
            self.cells[a] = '=' + v[1]
        else:
            self.cells[a] = v

    def add_formula(self, text):
        self.formulas.append(text)
        return len(self.formulas) - 1

    def evaluate(self):
        if self.results is None:
            self.results = eval_sheet(self.cells, self.blanks, self.formulas, self.home,
                                      self.default_sheet)
        return self.results


class History:
    """one compiled model that is re-used: its cells, the aggregate formulas, and a sequence of
    set_cell_value writes; after every write every formula is evaluated again"""

    def __init__(self):
        self.cells = {}
        self.blanks = []
        self.formulas = []
        self.steps = []       # (address, value)
        self.results = None   # results[step][formula index]; step 0 = before the first write

    put = Sheet.put

    def run(self, upto=None):
        from xlcalculator import ModelCompiler, Evaluator
        steps = self.steps if upto is None else self.steps[:upto]
        d = {f'Sheet1!{a}': v for a, v in self.cells.items()}
        faddrs = []
        for i, f in enumerate(self.formulas):
            fa = f'Sheet1!{FCOL}{i + 1}'
            d[fa] = f
            faddrs.append(fa)
        try:
            model = ModelCompiler().read_and_parse_dict(d)
            for a in self.blanks:
                model.set_cell_value(f'Sheet1!{a}', '')
            ev = Evaluator(model)
        except Exception as exc:  # noqa: BLE001
            return [['X:' + type(exc).__name__] * len(faddrs)] * (len(steps) + 1)
        out = [[call_real(ev.evaluate, fa) for fa in faddrs]]
        for a, v in steps:
            try:
                ev.set_cell_value(f'Sheet1!{a}', v)
            except Exception as exc:  # noqa: BLE001
                out.append(['X:' + type(exc).__name__] * len(faddrs))
                continue
            out.append([call_real(ev.evaluate, fa) for fa in faddrs])
        return out


class StepView:
    """the state of a History after `step` writes, with the interface of a Sheet"""

    def __init__(self, hist, step):
        self.hist, self.step = hist, step

    def evaluate(self):
        if self.hist.results is None:
            self.hist.results = self.hist.run()
        return self.hist.results[self.step]


def eval_sheet(cells, blanks, formulas, home='Sheet1', default_sheet=None):
    from xlcalculator import ModelCompiler, Evaluator

    def full(a):
        return a if '!' in a else f'{home}!{a}'
    d = {full(a): v for a, v in cells.items()}
    faddrs = []
    for i, f in enumerate(formulas):
        fa = f'{home}!{FCOL}{i + 1}'
        d[fa] = f
        faddrs.append(fa)
    try:
        if default_sheet is None:
            model = ModelCompiler().read_and_parse_dict(d)
        else:
            model = ModelCompiler().read_and_parse_dict(d, default_sheet=default_sheet)
        for a in blanks:
            model.set_cell_value(full(a), '')
        ev = Evaluator(model)
    except Exception as exc:  # noqa: BLE001
        return ['X:' + type(exc).__name__] * len(formulas)
    return [call_real(ev.evaluate, fa) for fa in faddrs]


def lit(v):
    """an argument typed directly into a formula"""
    if isinstance(v, bool):
        return 'TRUE' if v else 'FALSE'
    if is_num(v):
        return repr(v)
    if isinstance(v, str):
        return '"' + v.replace('"', '""') + '"'
    if is_err(v):
        return v[1]
    raise TypeError(v)


def place(sheet, args, blank_as_set=False):
    """lay the arguments of one formula out on a sheet (every range in its own block of columns);
    returns the argument texts.  The two kinds of empty cell: `None` = never stored (left out of the
    dictionary; build_ranges creates the member holding None, it evaluates to BLANK), `''` = a cell
    explicitly emptied with set_cell_value(addr, '') (evaluates to Text(''))."""
    texts = []
    c0 = -BLOCK
    for a in args:
        c0 += BLOCK
        if a[0] == 'R':
            rows = a[1]
            for r, row in enumerate(rows):
                for c, v in enumerate(row):
                    sheet.put(addr(r, c0 + c), v)
            texts.append(f'{addr(0, c0)}:{addr(len(rows) - 1, c0 + len(rows[0]) - 1)}')
            c0 += max(0, len(rows[0]) + 1 - BLOCK)
        elif a[0] == 'S':
            if a[2] == 'ref' or a[1] is None or a[1] == '':
                sheet.put(addr(SCALAR_ROW, c0), a[1])
                texts.append(addr(SCALAR_ROW, c0))
            else:
                texts.append(lit(a[1]))
        else:
            raise TypeError(a)
    return texts


# ---------------------------------------------------------------- generators

def rand_num(rng):
    k = rng.random()
    if k < 0.45:
        return rng.randint(-20, 20)
    if k < 0.6:
        return rng.randint(-1000, 1000)
    if k < 0.9:
        return rng.randint(-400, 400) / 8
    return float(rng.randint(-9, 9))


def fill(rng, pattern, r, c):
    rows, it = [], iter(pattern)
    for _ in range(r):
        row = []
        for _ in range(c):
            p = next(it)
            row.append(rand_num(rng) if p == 'N' else rng.choice(NONNUM) if p == 'T' else
                       None if p == 'Z' else '' if p == 'E' else rng.choice([None, '']))
        rows.append(row)
    return rows


def rand_rows(rng, r, c, pn=None, pt=None):
    pn = rng.random() if pn is None else pn
    pt = rng.random() * (1 - pn) if pt is None else pt
    pat = []
    for _ in range(r * c):
        x = rng.random()
        pat.append('N' if x < pn else 'T' if x < pn + pt else 'B')
    return fill(rng, pat, r, c)


def tilings(r, c):
    """every partition of an r x c rectangle into sub-rectangles (r0, c0, r1, c1), inclusive corners"""
    out = []

    def rec(cover, acc):
        pos = None
        for i in range(r):
            for j in range(c):
                if not cover[i][j]:
                    pos = (i, j)
                    break
            if pos:
                break
        if pos is None:
            out.append(list(acc))
            return
        i0, j0 = pos
        maxw = 0
        while j0 + maxw < c and not cover[i0][j0 + maxw]:
            maxw += 1
        for w in range(1, maxw + 1):
            h = 0
            while i0 + h < r and all(not cover[i0 + h][j0 + k] for k in range(w)):
                h += 1
                # place a piece of height h, width w
                cov2 = [row[:] for row in cover]
                for ii in range(i0, i0 + h):
                    for jj in range(j0, j0 + w):
                        cov2[ii][jj] = True
                acc.append((i0, j0, i0 + h - 1, j0 + w - 1))
                rec(cov2, acc)
                acc.pop()

    rec([[False] * c for _ in range(r)], [])
    return out


def qualified(title, rng):
    """a sheet title as it is written in a formula: quoted when it must be, sometimes when it need not"""
    if re.fullmatch(r'[A-Za-z_][A-Za-z0-9_]*', title) and rng.random() < 0.7:
        return title
    return "'" + title.replace("'", "''") + "'"


def nonnumeric_pool():
    """the members of NONNUM that are no number for Python, no boolean word and no date for a strict
    dateutil parse — decided without the code under test"""
    import dateutil.parser
    keep = []
    for t in NONNUM:
        try:
            float(t)
            continue
        except ValueError:
            pass
        if t.strip().lower() in ('true', 'false'):
            continue
        try:
            dateutil.parser.parse(t)
            continue
        except (ValueError, OverflowError):
            pass
        keep.append(t)
    return keep


def piece_arg(rows, p):
    r0, c0, r1, c1 = p
    if (r0, c0) == (r1, c1):
        return ['S', rows[r0][c0], 'ref']
    return ['R', [row[c0:c1 + 1] for row in rows[r0:r1 + 1]]]


def piece_text(p):
    r0, c0, r1, c1 = p
    if (r0, c0) == (r1, c1):
        return addr(r0, c0)
    return f'{addr(r0, c0)}:{addr(r1, c1)}'


class Gen:
    def __init__(self, ctx):
        self.ctx = ctx
        self.rng = ctx.rng
        self.thorough = ctx.tier == 'thorough' or ctx.widen
        self.cases = []

    def direct(self, fn, args, kind, **extra):
        self.cases.append(dict(fn=fn, args=args, via='direct', kind=kind, **extra))

    def formula(self, sheet, fn, args, texts, kind, **extra):
        text = f'={fn}(' + ','.join(texts) + ')'
        fi = sheet.add_formula(text)
        self.cases.append(dict(fn=fn, args=args, via='formula', kind=kind, sheet=sheet, fi=fi,
                               formula=text, **extra))

    def both(self, fnargs, kind, formula=True, blank_as_set=False, **extra):
        """fnargs: list of (fn, args); one sheet holds all the formulas that share their argument layout"""
        for fn, args in fnargs:
            self.direct(fn, args, kind, **extra)
        if formula:
            layouts = {}
            for fn, args in fnargs:
                key = json.dumps(args)
                if key not in layouts:
                    sheet = Sheet()
                    layouts[key] = (sheet, place(sheet, args, blank_as_set))
                sheet, texts = layouts[key]
                self.formula(sheet, fn, args, texts, kind, **extra)

    # -- 1. every fill pattern of small rectangles over {number, blank, text}
    def patterns(self):
        rng = self.rng
        shapes = [(r, c) for r in range(1, 4) for c in range(1, 4)]
        n_formula = 0
        small4 = 6 if self.thorough else 4
        for r, c in shapes:
            pats = list(itertools.product('NBT', repeat=r * c))
            if r * c <= small4:
                # both kinds of empty cell (Z never stored -> BLANK, E explicitly '') exhaustively
                pats = list(itertools.product('NZET', repeat=r * c))
            full = True
            if not self.thorough and len(pats) > 800:
                pats = rng.sample(pats, 500)
                full = False
            self.ctx_exhaustive = getattr(self, 'ctx_exhaustive', True) and full
            for pat in pats:
                rows = fill(rng, pat, r, c)
                rows2 = fill(rng, rng.choice(pats), r, c)
                fa = [(fn, [['R', rows]]) for fn in ALLFN] + [('SUMPRODUCT', [['R', rows], ['R', rows2]])]
                via_formula = self.thorough or r * c <= 4 or rng.random() < 0.25
                n_formula += via_formula
                self.both(fa, 'pattern', formula=via_formula, blank_as_set=rng.random() < 0.3)

    # -- 2. random rectangles up to 12 x 12 (some sparse: the MAX_EMPTY region)
    def random_rects(self):
        rng = self.rng
        n = 2500 if self.thorough else 140
        for i in range(n):
            r, c = rng.randint(1, 12), rng.randint(1, 12)
            if i % 9 == 0:
                r, c = rng.randint(9, 12), rng.randint(10, 12)
                rows = rand_rows(rng, r, c, pn=rng.choice([0.01, 0.02, 0.05]), pt=0.0)
                rows[0][0] = rand_num(rng)
                rows[-1][-1] = rand_num(rng)
            else:
                rows = rand_rows(rng, r, c)
            rows2 = rand_rows(rng, r, c)
            extra = [rand_num(rng) for _ in range(rng.randint(0, 2))]
            args = [['R', rows]] + [['S', v, rng.choice(['x', 'n', 'ref'])] for v in extra]
            rng.shuffle(args)
            fa = [(fn, args) for fn in SINGLE]
            fa += [('SUMPRODUCT', [['R', rows]]), ('SUMPRODUCT', [['R', rows], ['R', rows2]])]
            self.both(fa, 'random', formula=True, blank_as_set=rng.random() < 0.2)

    # -- 3. every split of small rectangles into sub-ranges and scalars
    def splits(self):
        rng = self.rng
        shapes = [(1, 2), (2, 1), (1, 3), (3, 1), (2, 2), (2, 3), (3, 2), (3, 3)]
        fills = 1
        if self.thorough:
            shapes += [(1, 4), (4, 1), (2, 4), (4, 2), (3, 4), (4, 3)]
            fills = 3
        for r, c in shapes:
            ts = tilings(r, c)
            for _ in range(fills):
                rows = rand_rows(rng, r, c, pn=0.5 + rng.random() * 0.3)
                sheet = Sheet()
                whole = ['R', rows]
                place(sheet, [whole])      # '' cells are set explicitly, None cells are never stored
                big = len(ts) > 400
                for t in ts:
                    order = list(t)
                    if rng.random() < 0.5:
                        rng.shuffle(order)
                    args = [piece_arg(rows, p) for p in order]
                    texts = [piece_text(p) for p in order]
                    fns = SINGLE if not big else ['SUM'] + rng.sample(SINGLE[1:], 1)
                    for fn in fns:
                        self.direct(fn, args, 'split', whole=rows)
                        if not big or self.thorough or rng.random() < 0.3:
                            self.formula(sheet, fn, args, texts, 'split', whole=rows)

    # -- 4. every argument order (<= 4 arguments), cells permuted inside a range
    def orders(self):
        rng = self.rng
        n = 60 if self.thorough else 8
        for _ in range(n):
            for k in (2, 3, 4):
                args = []
                for _ in range(k):
                    if rng.random() < 0.6:
                        args.append(['R', rand_rows(rng, rng.randint(1, 3), rng.randint(1, 3))])
                    else:
                        args.append(['S', rand_num(rng), rng.choice(['x', 'n', 'ref'])])
                fns = SINGLE if self.thorough else rng.sample(SINGLE, 3)
                for perm in itertools.permutations(range(k)):
                    pargs = [args[i] for i in perm]
                    self.both([(fn, pargs) for fn in fns], 'order', formula=(k < 4 or self.thorough))
            # SUMPRODUCT: the arrays in every order, and all arrays permuted alike
            r, c = rng.randint(1, 3), rng.randint(1, 3)
            for k in (2, 3):
                arrs = [rand_rows(rng, r, c, pn=0.7) for _ in range(k)]
                for perm in itertools.permutations(range(k)):
                    self.both([('SUMPRODUCT', [['R', arrs[i]] for i in perm])], 'order')
                for _ in range(4):
                    idx = list(range(r * c))
                    rng.shuffle(idx)

                    def permuted(rows):
                        flat = [v for row in rows for v in row]
                        flat = [flat[i] for i in idx]
                        return [flat[i * c:(i + 1) * c] for i in range(r)]
                    self.both([('SUMPRODUCT', [['R', permuted(a)] for a in arrs])], 'cellperm',
                              formula=self.thorough)
            # cell contents permuted within a range
            rows = rand_rows(rng, rng.randint(1, 4), rng.randint(1, 4))
            flat = [v for row in rows for v in row]
            w = len(rows[0])
            for _ in range(6):
                rng.shuffle(flat)
                prow = [flat[i * w:(i + 1) * w] for i in range(len(rows))]
                self.both([(fn, [['R', prow], ['S', 7, 'x']]) for fn in SINGLE], 'cellperm',
                          formula=self.thorough)

    # -- 5. error items: the leftmost one is the result of SUM / AVERAGE / MIN / MAX
    def errors(self):
        rng = self.rng
        n = 400 if self.thorough else 50
        for _ in range(n):
            args = []
            for _ in range(rng.randint(1, 3)):
                if rng.random() < 0.7:
                    rows = rand_rows(rng, rng.randint(1, 3), rng.randint(1, 3))
                    for _ in range(rng.randint(0, 2)):
                        rows[rng.randrange(len(rows))][rng.randrange(len(rows[0]))] = ['E', rng.choice(ERR_CODES)]
                    args.append(['R', rows])
                elif rng.random() < 0.5:
                    args.append(['S', ['E', rng.choice(ERR_CODES)], rng.choice(['x', 'ref'])])
                else:
                    args.append(['S', rand_num(rng), 'x'])
            self.both([(fn, args) for fn in SINGLE], 'error')
            shp = (rng.randint(1, 2), rng.randint(1, 3))
            arrs = [rand_rows(rng, *shp, pn=0.8) for _ in range(2)]
            a = rng.choice(arrs)
            a[rng.randrange(shp[0])][rng.randrange(shp[1])] = ['E', rng.choice(ERR_CODES)]
            self.both([('SUMPRODUCT', [['R', x] for x in arrs])], 'error')
        # the witnesses of D15
        self.both([('SUM', [['S', 1, 'x'], ['S', ['E', '#N/A'], 'x']])], 'error')
        self.both([('SUM', [['R', [[1, ['E', '#N/A']], [['E', '#DIV/0!'], 2]]], ['S', ['E', '#NUM!'], 'x']])], 'error')

    # -- 6. SUMPRODUCT over every pair of shapes
    def shapes(self):
        rng = self.rng
        shapes = [(r, c) for r in range(1, 4) for c in range(1, 4)]
        for s1 in shapes:
            for s2 in shapes:
                a = rand_rows(rng, *s1, pn=0.8)
                b = rand_rows(rng, *s2, pn=0.8)
                self.both([('SUMPRODUCT', [['R', a], ['R', b]])], 'shape')
                if self.thorough or rng.random() < 0.3:
                    c3 = rand_rows(rng, *s1, pn=0.8)
                    self.both([('SUMPRODUCT', [['R', a], ['R', c3], ['R', b]])], 'shape')

    # -- 6b. workbooks with several sheets: qualified and unqualified ranges and cells in one argument list
    def workbooks(self):
        rng = self.rng
        n = 40 if self.thorough else 5
        kinds = ['QR', 'OR', 'UR', 'QC', 'OC', 'UC', 'LIT']
        # QR/QC: range / cell qualified with another sheet; OR/OC: qualified with the formula's own
        # sheet; UR/UC: unqualified (the formula's own sheet); LIT: a number typed into the formula
        for w in range(n):
            titles = rng.sample(TITLES, rng.randint(2, 3))
            h, wd = rng.randint(2, 4), rng.randint(2, 4)
            grids = {t: rand_rows(rng, h, wd, pn=0.6 + 0.3 * rng.random()) for t in titles}
            home = rng.choice(titles)
            sheet = Sheet()
            sheet.home = home
            sheet.default_sheet = rng.choice([None, home, rng.choice(titles)])
            for t in titles:
                for r in range(h):
                    for c in range(wd):
                        sheet.put(f'{t}!{addr(r, c)}', grids[t][r][c])
            others = [t for t in titles if t != home]

            def rect():
                r0, c0 = rng.randrange(h), rng.randrange(wd)
                return r0, c0, rng.randint(r0, h - 1), rng.randint(c0, wd - 1)

            def make(kind, box=None):
                """(semantic argument, formula text)"""
                if kind == 'LIT':
                    v = rand_num(rng)
                    return ['S', v, 'x'], lit(v)
                t = rng.choice(others) if kind[0] == 'Q' else home
                prefix = '' if kind[0] == 'U' else qualified(t, rng) + '!'
                if kind[1] == 'C':
                    r, c = rng.randrange(h), rng.randrange(wd)
                    return ['S', grids[t][r][c], 'ref'], prefix + addr(r, c)
                r0, c0, r1, c1 = box or rect()
                rows = [row[c0:c1 + 1] for row in grids[t][r0:r1 + 1]]
                return ['R', rows], f'{prefix}{addr(r0, c0)}:{addr(r1, c1)}'

            def emit(fns, pairs, kind):
                args = [p[0] for p in pairs]
                texts = [p[1] for p in pairs]
                for fn in fns:
                    self.formula(sheet, fn, args, texts, kind)

            # every ordered pair of reference kinds
            for k1 in kinds:
                for k2 in kinds:
                    if k1 == k2 == 'LIT':
                        continue
                    fns = SINGLE if self.thorough or w == 0 else rng.sample(SINGLE, 2)
                    emit(fns, [make(k1), make(k2)], 'sheets')
            # longer argument lists in every order
            for _ in range(12 if self.thorough else 6):
                k = rng.choice([3, 4]) if self.thorough else 3
                pairs = [make(rng.choice(kinds)) for _ in range(k)]
                if not any('!' in p[1] for p in pairs):
                    pairs[0] = make('QR')
                fns = rng.sample(SINGLE, 3 if self.thorough else 2)
                for perm in itertools.permutations(range(k)):
                    emit(fns, [pairs[i] for i in perm], 'sheets')
            # SUMPRODUCT: the same rectangle on different sheets, qualified or not, in every order
            for _ in range(4 if self.thorough else 2):
                box = rect()
                ks = [rng.choice(['QR', 'OR', 'UR']) for _ in range(rng.randint(2, 3))]
                if 'QR' not in ks:
                    ks[0] = 'QR'
                pairs = [make(kd, box) for kd in ks]
                for perm in itertools.permutations(range(len(pairs))):
                    emit(['SUMPRODUCT'], [pairs[i] for i in perm], 'sheets')

    # -- 6c. large magnitudes: integers up to 1e15, products and totals beyond 2**63
    def big(self):
        rng = self.rng
        ints = [3000000000, 4000000000, 2000000000, 2 ** 31, 2 ** 32 - 1, 2 ** 32, 10 ** 15, 10 ** 15 - 1,
                999999999999, 1234567, 7654321, 9999999, 2 ** 53 + 1, 10 ** 9 + 7, 65537, 2, 5, 1]
        n = 120 if self.thorough else 16

        def cell(kind):
            x = rng.random()
            if x < 0.12:
                return rng.choice(NONNUM)
            if x < 0.18:
                return ''
            v = rng.choice(ints) if rng.random() < 0.8 else rng.randint(1, 10 ** 15)
            if kind == 'exact':
                return v if rng.random() < 0.7 else -v
            y = rng.random()                      # mixed int / float / BLANK, all terms non-negative
            if y < 0.35:
                return float(v) if rng.random() < 0.7 else rng.randint(0, 10 ** 6) / 8
            if y < 0.42:
                return None
            return v

        for i in range(n):
            kind = 'exact' if i % 2 == 0 else 'mixed'
            r, c = rng.randint(1, 3), rng.randint(1, 3)
            arrs = [[[cell(kind) for _ in range(c)] for _ in range(r)] for _ in range(3)]
            if kind == 'mixed' and not any(isinstance(v, float) for a in arrs[:2] for row in a for v in row):
                arrs[0][0][0] = float(rng.choice(ints))
            approx = kind == 'mixed'
            extra = ['S', rng.choice(ints), rng.choice(['x', 'n', 'ref'])]
            fa = [(fn, [['R', arrs[0]], extra]) for fn in ('SUM', 'AVERAGE', 'MIN', 'MAX')]
            fa += [(fn, [['R', arrs[0]]]) for fn in ('SUM', 'AVERAGE', 'COUNT')]
            fa += [('SUMPRODUCT', [['R', a] for a in arrs[:k]]) for k in (1, 2, 3)]
            fa += [('SUMPRODUCT', [['R', arrs[1]], ['R', arrs[0]]])]
            self.both(fa, 'big', approx=approx)
        # whole numbers only, product / running total at and beyond 2**63
        for a, b in [([[3000000000], [2]], [[4000000000], [5]]),
                     ([[3000000000, 3000000000]], [[2000000000, 2000000000]]),
                     ([[2 ** 32, 2 ** 31]], [[2 ** 31, 2 ** 32]]),
                     ([[2 ** 62, 1]], [[2, 1]]), ([[-(2 ** 62), -1]], [[2, 1]])]:
            self.both([('SUMPRODUCT', [['R', a], ['R', b]]), ('SUMPRODUCT', [['R', b], ['R', a]])], 'big')
        c7 = [[[1234567], [7654321]], [[9999999], [2345678]], [[8765432], [3456789]]]
        for perm in itertools.permutations(range(3)):
            self.both([('SUMPRODUCT', [['R', c7[i]] for i in perm])], 'big')
        self.both([(fn, [['R', [[2 ** 62, 2 ** 62], [2 ** 62, 'abc']]], ['S', 2 ** 63, 'x']])
                   for fn in ('SUM', 'AVERAGE', 'MIN', 'MAX')], 'big')

    # -- 6d. histories: one compiled model re-used, cells of the ranges rewritten, everything re-evaluated
    def history(self):
        rng = self.rng
        n = 30 if self.thorough else 5
        nsteps = 14 if self.thorough else 10
        for _ in range(n):
            h, w = rng.randint(2, 4), rng.randint(2, 3)
            grid = rand_rows(rng, h, w, pn=0.55 + 0.3 * rng.random())
            hist = History()
            fcell, prec = {}, {}       # formula cells inside the range: (r, c) -> (precedent, factor)
            for i in range(rng.randint(0, 2)):
                rc = (rng.randrange(h), rng.randrange(w))
                if rc in fcell:
                    continue
                pa = addr(i, 9)        # J1, J2: outside every range
                prec[pa] = rng.randint(-9, 9)
                fcell[rc] = (pa, rng.randint(2, 5))
                hist.cells[pa] = prec[pa]
                hist.cells[addr(*rc)] = f'={pa}*{fcell[rc][1]}'
            for r in range(h):
                for c in range(w):
                    if (r, c) not in fcell:
                        hist.put(addr(r, c), grid[r][c])

            def val(r, c):
                if (r, c) in fcell:
                    pa, k = fcell[(r, c)]
                    return prec[pa] * k
                return grid[r][c]

            def box(r0, c0, r1, c1):
                return ('R', r0, c0, r1, c1)
            whole = box(0, 0, h - 1, w - 1)
            rr, cc = rng.randrange(h), rng.randrange(w)
            sub = box(rng.randrange(h - 1), 0, h - 1, rng.randrange(1, w))
            specs = [(fn, [whole]) for fn in ALLFN]
            specs += [('SUM', [box(0, 0, h - 1, 0), box(0, 1, h - 1, w - 1)]),
                      ('AVERAGE', [box(0, 0, 0, w - 1), box(1, 0, h - 1, w - 1)]),
                      ('SUMPRODUCT', [box(0, 0, h - 1, 0), box(0, 1, h - 1, 1)]),
                      ('MIN', [whole, ('C', rr, cc)]), ('MAX', [sub]), ('COUNT', [sub]),
                      ('COUNTA', [box(0, 1, h - 1, 1), ('L', 7)]), ('SUM', [whole, ('L', 1)]),
                      ('AVERAGE', [sub, ('C', rr, cc)])]

            def text_of(a):
                if a[0] == 'R':
                    return f'{addr(a[1], a[2])}:{addr(a[3], a[4])}'
                return addr(a[1], a[2]) if a[0] == 'C' else lit(a[1])

            def sem_of(a):
                if a[0] == 'R':
                    return ['R', [[val(r, c) for c in range(a[2], a[4] + 1)] for r in range(a[1], a[3] + 1)]]
                return ['S', val(a[1], a[2]), 'ref'] if a[0] == 'C' else ['S', a[1], 'x']
            texts = [f'={fn}(' + ','.join(text_of(a) for a in spec) + ')' for fn, spec in specs]
            hist.formulas = texts

            def snapshot(step):
                view = StepView(hist, step)
                for fi, (fn, spec) in enumerate(specs):
                    self.cases.append(dict(fn=fn, args=[sem_of(a) for a in spec], via='formula',
                                           kind='history', sheet=view, fi=fi, formula=texts[fi]))
            snapshot(0)
            plain = [(r, c) for r in range(h) for c in range(w) if (r, c) not in fcell]
            for step in range(1, nsteps + 1):
                if prec and rng.random() < 0.25:
                    pa = rng.choice(sorted(prec))          # a precedent outside the range
                    prec[pa] = rng.randint(-50, 50)
                    hist.steps.append((pa, prec[pa]))
                else:
                    r, c = rng.choice(plain)
                    x = rng.random()
                    old = grid[r][c]
                    if x < 0.4:
                        v = rand_num(rng)
                    elif x < 0.55:
                        v = rng.choice(NONNUM)
                    elif x < 0.65:
                        v = ''
                    elif x < 0.75:
                        v = None
                    elif x < 0.9:
                        v = rng.choice([1, True, '1', 1.0, 0, False, '0'])     # type twins
                    else:
                        v = old                                               # rewritten unchanged
                    grid[r][c] = v
                    hist.steps.append((addr(r, c), v))
                snapshot(step)

    # -- 7. outside the domain: compared with the model only
    def probes(self):
        rng = self.rng
        odd = ['3', ' 2.5 ', '-1', '1e2', 'TRUE', 'false', True, False, '0']
        n = 300 if self.thorough else 60
        for _ in range(n):
            rows = rand_rows(rng, rng.randint(1, 3), rng.randint(1, 3))
            for _ in range(rng.randint(1, 3)):
                rows[rng.randrange(len(rows))][rng.randrange(len(rows[0]))] = rng.choice(odd)
            self.both([(fn, [['R', rows]]) for fn in ALLFN], 'probe')
        for _ in range(n):
            # BLANK objects inside arrays, ragged arrays, native spellings, lists: direct calls only
            rows = rand_rows(rng, rng.randint(1, 3), rng.randint(1, 3))
            rows[rng.randrange(len(rows))][rng.randrange(len(rows[0]))] = None
            if rng.random() < 0.4 and len(rows[0]) > 1:
                rows[-1] = rows[-1][:-1]
            args = [['R', rows]]
            if rng.random() < 0.6:
                args.append(['S', rng.choice(odd + ['x', '', None, 5, 2.5]), rng.choice(['n', 'x'])])
            if rng.random() < 0.4:
                args.append(['L', [rng.choice([1, 2.5, '3', 'x', True, None, '']) for _ in range(rng.randint(0, 3))]])
            rng.shuffle(args)
            for fn in SINGLE:
                self.direct(fn, args, 'probe')
        for fn in ALLFN:
            self.direct(fn, [], 'probe')
            self.direct(fn, [['R', []]], 'probe')
            self.direct(fn, [['S', None, 'n']], 'probe')
            self.direct(fn, [['S', None, 'n'], ['S', 1, 'n']], 'probe')
            self.direct(fn, [['S', 1, 'n'], ['S', None, 'n']], 'probe')
            self.direct(fn, [['S', 'x', 'n']], 'probe')
            self.direct(fn, [['R', [['abc', '']]]], 'probe')
            self.direct(fn, [['S', 3, 'n'], ['S', 4, 'x']], 'probe')

    # -- 8. the regions of the known findings (and of the repaired D1405)
    def known_regions(self):
        rng = self.rng
        # D1403: a run of more than MAX_EMPTY empty cells
        rows = [[None] * 12 for _ in range(12)]
        rows[0][0], rows[11][11] = 2, 4
        col = [[None] for _ in range(150)]
        col[0][0], col[149][0] = 2, 4
        rows2 = [[rng.choice([None, '']) for _ in range(12)] for _ in range(12)]
        rows2[0][0], rows2[11][11] = 2, 4
        for rr in (rows, col, rows2):
            fa = [(fn, [['R', rr]]) for fn in ALLFN]
            for fn, args in fa:
                sheet = Sheet()
                self.formula(sheet, fn, args, place(sheet, args), 'sparse')
        # D1404: more than 255 / 256 addressed cells
        big = [[rng.randint(1, 9) for _ in range(16)] for _ in range(16)]
        big[3][3] = 'abc'
        two = rand_rows(rng, 12, 12, pn=0.9)
        for fn in ('COUNT', 'COUNTA'):
            self.both([(fn, [['R', big]])], 'many')
            self.both([(fn, [['R', big], ['S', 1, 'x']])], 'many')
            self.both([(fn, [['R', two], ['R', two]])], 'many')
        # D1405 (fixed): a reference to a cell that was never stored in the model is ignored
        for fn in SINGLE:
            self.both([(fn, [['S', None, 'ref'], ['S', 4, 'x']])], 'blankref')
            self.both([(fn, [['R', [[3, ''], ['abc', -7]]], ['S', None, 'ref']])], 'blankref')
            self.both([(fn, [['S', -2.5, 'x'], ['S', None, 'ref'], ['S', -4, 'ref']])], 'blankref')


# ---------------------------------------------------------------- classification

def first_error(args):
    for a in args:
        vals = [v for row in a[1] for v in row] if a[0] == 'R' else a[1] if a[0] == 'L' else [a[1]]
        for v in vals:
            if is_err(v):
                return v[1]
    return None


def addressed(args):
    out = []
    for a in args:
        if a[0] == 'R':
            out += [v for row in a[1] for v in row]
        elif a[0] == 'L':
            out += list(a[1])
        else:
            out.append(a[1])
    return out


def dom_cell(v):
    return v is None or is_num(v) or (isinstance(v, str) and (v == '' or v in NONNUM))


def rectangular(rows):
    return len(rows) > 0 and len(rows[0]) > 0 and all(len(r) == len(rows[0]) for r in rows)


def in_domain(case):
    """numbers, empty cells and non-numeric text in rectangular ranges; scalars: numbers, references to
    such cells, and a reference to a never-stored cell (BLANK: to be ignored, D1405 fixed)."""
    if not case['args']:
        return False
    for a in case['args']:
        if a[0] == 'R':
            if not rectangular(a[1]) or not all(dom_cell(v) for row in a[1] for v in row):
                return False
        elif a[0] == 'S':
            v = a[1]
            if is_num(v):
                continue
            if a[2] == 'n':
                return False
            if not dom_cell(v):
                return False
        else:
            return False
    return True


def longest_empty_run(rows):
    best = run = 0
    for row in rows:
        for v in row:
            if v is None or (isinstance(v, str) and v == ''):
                run += 1
                best = max(best, run)
            else:
                run = 0
    return best


def guards(case, max_empty):
    g = set()
    fn = case['fn']
    if case['via'] == 'formula' and any(a[0] == 'R' and longest_empty_run(a[1]) > max_empty
                                        for a in case['args']):
        g.add('D1403')
    n = len(addressed(case['args']))
    if (fn == 'COUNT' and n > 255) or (fn == 'COUNTA' and n > 256):
        g.add('D1404')
    return g


def as_frac(w):
    if w.startswith('I:'):
        return Fraction(int(w[2:]))
    if w.startswith('F:'):
        return common.un_frac(w[2:])
    return None


def agrees(real, want, exact, rel=Fraction(1, 2 ** 50)):
    """real result (wire) against an exact rational / error wire"""
    if real == want:
        return True
    a, b = as_frac(real), as_frac(want)
    if a is None or b is None:
        return False
    if a == b:
        return True
    if exact:
        return False
    return abs(a - b) <= abs(b) * rel


def nontrivial(case):
    vals = addressed(case['args'])
    return len(vals) >= 2 and any(is_num(v) for v in vals)


def public(case):
    """the JSON form of a case (replayable)"""
    d = {k: case[k] for k in ('fn', 'args', 'via', 'kind')}
    if case.get('approx'):
        d['approx'] = True
    if isinstance(case.get('sheet'), StepView):
        hist, step = case['sheet'].hist, case['sheet'].step
        d['formula'] = case['formula']
        d['history'] = {'cells': hist.cells, 'blanks': hist.blanks, 'formulas': hist.formulas,
                        'steps': [list(x) for x in hist.steps[:step]], 'fi': case['fi']}
        d['note'] = ('one compiled model: evaluate all formulas, then for each step set_cell_value(address, '
                     'value) and evaluate all formulas again; the failing result is that of `formula` '
                     'after the last step')
    elif case['via'] == 'formula':
        d['formula'] = case['formula']
        d['cells'] = case['sheet'].cells
        d['blanks'] = case['sheet'].blanks
        d['home'] = case['sheet'].home
        d['default_sheet'] = case['sheet'].default_sheet
    return d


def classify(res, case, real, impl, spec, listed, max_empty):
    fn = case['fn']
    # `approx`: a case of the large-magnitude family that holds a float (or a BLANK in SUMPRODUCT, which
    # counts as 0.0): the code then folds in doubles beyond 2**53 - all terms are non-negative there,
    # so the ideal-real value is met within a few ulp per term; integer-only cases stay exact
    approx = bool(case.get('approx'))
    exact = fn != 'AVERAGE' and not (approx and fn in ('SUM', 'SUMPRODUCT'))
    rel = Fraction(1, 2 ** 46) if approx else Fraction(1, 2 ** 50)
    res.evaluations += 1
    res.count('fn:' + fn)
    res.count('via:' + case['via'])
    res.count('kind:' + case['kind'])
    res.count('outcome:' + ('error' if real.startswith('E:') else 'crash' if real.startswith('X:')
                            else 'value'))
    inp = public(case)
    if real.startswith('X:'):
        res.violations.append({'what': f'{fn} raised a Python exception', 'input': inp,
                               'expected': spec, 'got': real})
        return
    dom = in_domain(case)
    err = first_error(case['args'])
    model_ok = agrees(real, impl, exact, rel)
    if err is not None:
        res.count('with-error-item')
        if fn in ('SUM', 'AVERAGE', 'MIN', 'MAX'):
            want = 'E:' + common.CODE_WIRE[err]
            if real != want:
                res.violations.append({'what': f'{fn} does not return the leftmost error item (D15)',
                                       'input': inp, 'expected': want, 'got': real})
                return
        elif fn == 'SUMPRODUCT' and not real.startswith('E:'):
            res.violations.append({'what': 'SUMPRODUCT over an error item returns a number',
                                   'input': inp, 'expected': 'an error', 'got': real})
            return
        elif fn in ('COUNT', 'COUNTA') and not agrees(real, spec, True):
            res.violations.append({'what': f'{fn} over an error item', 'input': inp,
                                   'expected': spec, 'got': real})
            return
        if not model_ok:
            res.drift.append({'input': inp, 'impl_model': impl, 'real': real})
        res.nontrivial.add(case_line(case))
        return
    if not dom or spec == '-':
        res.count('outside-domain' if not dom else 'no-demand')
        if not model_ok:
            res.drift.append({'input': inp, 'impl_model': impl, 'real': real})
        return
    if nontrivial(case):
        res.nontrivial.add(case_line(case))
    g = guards(case, max_empty)
    if agrees(real, spec, exact, rel):
        if g:
            res.count('known-region-but-correct')
        if not model_ok:
            res.drift.append({'input': inp, 'impl_model': impl, 'real': real})
        return
    hit = sorted(g & listed)
    if hit and model_ok:
        res.known.setdefault(hit[0], []).append(inp)
        res.count('known:' + hit[0])
        return
    what = {'SUM': 'sum', 'AVERAGE': 'mean', 'MIN': 'minimum', 'MAX': 'maximum',
            'COUNT': 'count of numbers', 'COUNTA': 'count of non-empty values',
            'SUMPRODUCT': 'sum of element-wise products'}[fn]
    if case['kind'] == 'split':
        what += ' (a split of a rectangle into sub-ranges and scalars)'
    res.violations.append({'what': f'{fn} is not the {what} of the addressed values', 'input': inp,
                           'expected': spec, 'got': real})


def evaluate_cases(ctx, cases):
    lines = [case_line(c) for c in cases]
    resp = ctx.driver.batch(lines)
    out = []
    for case, line, r in zip(cases, lines, resp):
        d = parse_kv(r)
        if 'impl' not in d:
            raise RuntimeError(f'driver: {r!r} for {line!r}')
        if case['via'] == 'direct':
            real = run_direct(case)
        else:
            real = case['sheet'].evaluate()[case['fi']]
        out.append((real, d['impl'], d['spec']))
    return out


def replay_case(path):
    obj = json.loads(open(path).read())
    inp = obj.get('input', obj)
    case = dict(fn=inp['fn'], args=inp['args'], via=inp['via'], kind=inp.get('kind', 'replay'))
    if inp.get('approx'):
        case['approx'] = True
    if 'history' in inp:
        h = inp['history']
        hist = History()
        hist.cells, hist.blanks = dict(h['cells']), list(h['blanks'])
        hist.formulas = list(h['formulas'])
        hist.steps = [tuple(x) for x in h['steps']]
        case['sheet'], case['fi'], case['formula'] = StepView(hist, len(hist.steps)), h['fi'], inp['formula']
    elif case['via'] == 'formula':
        sheet = Sheet()
        sheet.cells = dict(inp['cells'])
        sheet.blanks = list(inp['blanks'])
        sheet.home = inp.get('home', 'Sheet1')
        sheet.default_sheet = inp.get('default_sheet')
        case['sheet'], case['formula'] = sheet, inp['formula']
        case['fi'] = sheet.add_formula(inp['formula'])
    return case


def run(ctx):
    import xlcalculator  # noqa: F401
    res = Result()
    res.rule = ('every fill pattern of rectangles <= 3x3 over {number, empty, non-numeric text} - an empty cell being either never stored (BLANK placeholder) or explicitly set to the empty string, both kinds exhaustively up to 4 (thorough 6) cells - (thorough: all '
                '21297; quick: all up to 2x3/3x2 and 500 of the 3x3 ones), random rectangles up to 12x12, every '
                'partition of rectangles up to 3x3 (thorough 3x4) into sub-ranges and single cells, every order '
                'of <= 4 arguments, cells permuted inside ranges, error items, all pairs of SUMPRODUCT shapes, workbooks of 2-3 '
                'sheets (plain and quoted titles, different values at the same coordinates) with every ordered pair of '
                '{range, cell} x {qualified with another sheet, with the own sheet, unqualified} and literals in one '
                'argument list and longer lists in every order; texts in ranges include digit-bearing non-numbers '
                '("lot 7", "x1", "0x1F", "1e", "$3", "3%"); large magnitudes (integers up to 1e15, products and totals beyond '
                '2**63: integer-only contents exact, contents with a float or BLANK non-negative and within 2**-46); '
                'histories on one re-used compiled model (cells inside the ranges and precedents of formula cells '
                'inside them rewritten with set_cell_value - numbers, text, empty string, None, type twins 1/TRUE/"1" - '
                'and every aggregate re-evaluated after each write against the fold of the values held now); '
                'each through SUM AVERAGE MIN MAX COUNT COUNTA SUMPRODUCT as a direct call and as a formula '
                'over ranges of a compiled model; real vs the fold of the statement (exact; mean within 4 ulp) '
                'and vs the Lean model; non-trivial = distinct request addressing >= 2 values of which >= 1 is a '
                'number, or holding an error item')
    # the listed region of D1403 is pinned to the constant the code had when the finding was listed
    # (a smaller MAX_EMPTY makes more inputs fail: those are violations, not the known finding)
    max_empty = LISTED_MAX_EMPTY
    global NONNUM
    NONNUM = nonnumeric_pool()
    if len(NONNUM) < 20:
        raise RuntimeError(f'non-numeric text pool shrank to {NONNUM!r}')
    listed = {e['id'] for e in ctx.known if e.get('status') == 'known'}
    if ctx.replay:
        cases = [replay_case(ctx.replay)]
    else:
        g = Gen(ctx)
        for path in sorted((common.CORPUS / 'C14').glob('*.json')):
            c = replay_case(path)
            c['kind'] = 'corpus'
            g.cases.append(c)
        g.known_regions()
        g.errors()
        g.shapes()
        g.patterns()
        g.splits()
        g.orders()
        g.random_rects()
        g.workbooks()
        g.big()
        g.history()
        g.probes()
        cases = g.cases
        res.exhaustive = bool(getattr(g, 'ctx_exhaustive', False))
    for case, (real, impl, spec) in zip(cases, evaluate_cases(ctx, cases)):
        classify(res, case, real, impl, spec, listed, max_empty)
        if case['kind'] in ('pattern', 'split', 'random') and len(res.samples) < 12 and nontrivial(case) \
                and res.evaluations % 97 == 0:
            res.sample({'fn': case['fn'], 'via': case['via'],
                        'call': case.get('formula') or [arg_wire(a, 'direct') for a in case['args']],
                        'real': real, 'spec': spec})
    # report the smallest failing inputs first (the exhaustive small rectangles are among the cases,
    # so the first replay is a minimal one)
    res.violations.sort(key=lambda v: len(json.dumps(v['input'], default=str)))
    if not res.samples and cases:
        c = cases[0]
        res.sample({'fn': c['fn'], 'via': c['via'], 'args': c['args']})
    if res.drift:
        res.notes.append(f'{len(res.drift)} model/implementation differences where the code still meets the '
                         'statement or the input is outside its domain')
    return res
