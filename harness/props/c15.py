"""C15 — criteria counting and lookups agree with a linear scan of the range (DESIGN.md §4 C15)."""
import itertools
import re

import common
from common import Result, parse_kv, call_real, w_text, w_frac, frac_of, same_value

LEVEL_TEXT = (
    'Lean theorems over a statement-by-statement model of xlcriteria.parse_criteria, COUNTIF, COUNTIFS, MATCH, '
    'VLOOKUP and CHOOSE (built on the shared value-layer model), for ALL columns/tables and criteria: the regex '
    'split is the longest-operator-prefix split (for every string; the regex alternatives and the operator table '
    'are regenerated from the running module and pinned by decide obligations), every operand of the numeric '
    'grammar -?d+(.d+)? is typed as that number and every word as text, COUNTIF = length of the filter by the '
    'criterion predicate, COUNTIFS = number of positions at which every criterion holds (through the flattened '
    'varargs regrouping), exact MATCH = first equal position, approximate MATCH = last position not exceeding '
    'the key in ascending data, VLOOKUP = requested column of the first row with an equal key / #N/A / #VALUE! '
    'for a column outside the table, CHOOSE = v_i or #VALUE!. The model is tied to the code by a differential '
    'run (direct calls and formulas over real ranges): exhaustive short criteria strings over the alphabet '
    '"<>=-1a ", every operator x operand x column, keys at every position, every column / CHOOSE index; the '
    'formula route places the ranges at varying columns/rows/sheets and includes loaded workbooks with defined '
    'names (for tables, columns, cells; some spelled like the text literals used as keys and criteria) and long '
    'ranges with long runs of equal, zero, FALSE and empty-text cells.')
LEVEL_NOTE = (
    'Trusted: Lean kernel (propext, Classical.choice, Quot.sound); the hand model of the Python statements '
    '(validated by correspondence, not proved equal to the Python), in particular Python re for the regex '
    '(alternation = first alternative that is a prefix), sorted() (modelled as CPython count_run + binary '
    'insertion with every comparison in order, below 64 elements; tied by a direct sorted() correspondence), '
    'int()/float() on text; dateutil is an uninterpreted parameter (operands it reads as dates are outside the '
    'domain); str.upper on non-ASCII. SUMIF/SUMIFS are excluded while the installed pandas has no '
    'DataFrame.applymap (checked at run time).')
DESIGN_REF = '§4 C15'

# theorems of the integrated pipeline model (Props/X01.lean) that carry this property's theorems to formula TEXTS in a
# compiled workbook; re-built and audited with this check (harness/common.prepare: soft obligations)
TRANSPORT = ('XlVerif.Props.X01', ['X01_COUNTIF_partial', 'X01_VLOOKUP_partial'])
TRUSTED = [
    'Lean 4.33 kernel; axioms propext, Classical.choice, Quot.sound only',
    'hand-written models lean/XlVerif/Model/C15.lean and Model/Value.lean (correspondence-checked, not proved '
    'equal to the Python)',
    'translator extractors/a_core.py for CRITERIA_REGEX, CRITERIA_OPERATORS and sort_precedence',
    'Python re: `(a|b|…)?(.*)` picks the first alternative that is a prefix; `.` stops at a newline',
    'Python sorted()/list != on ExcelType objects: modelled as CPython performs them (count_run, binary insertion, '
    'identity before ==; 64+ elements that are not one run are not modelled), validated against sorted() itself',
    'dateutil.parser (uninterpreted; operands it accepts are excluded), str.upper() on non-ASCII text',
    'pandas DataFrame construction / .values / .flat (row-major)',
    'openpyxl writing the test workbooks (cells, formulas, defined names) that the archive route loads',
]
ASSUMPTIONS = [
    'cells are numbers and non-empty texts (blank, boolean, numeric-text, date and error cells are compared with the '
    'model only: MATCH over such arrays, including the exception raised when an error cell is compared, is drift-checked)',
    'text operands are words: begin with a letter, no trailing blank, do not spell true/false/inf/nan and are '
    'not read as a date by dateutil; numeric operands follow -?digits(.digits)? with <= 15 digits; other operand '
    'spellings (" 1", "1e3", "+1", "", "true") are outside the statement',
    '"does not exceed" / "equals" are read in the one total order of C09 (number < text, texts case-insensitively)',
    'approximate MATCH is constrained on ascending data only; match_type -1 and other match types are not '
    'constrained by the statement (compared with the model only)',
    'VLOOKUP with range_lookup=TRUE raises NotImplementedError by design (approximate VLOOKUP is not implemented '
    'and not part of the statement); a fractional column index is not constrained',
    'CHOOSE with a fractional index between n and n+1 is not constrained (Excel truncates, the code rejects)',
    'COUNTIFS with ranges of unequal length is not constrained (the code silently drops or mis-groups them)',
    'SUMIF/SUMIFS are excluded when the installed pandas has no DataFrame.applymap',
    'runs of more than 100 consecutive empty cells (blank or empty text) inside a range are the known cut-off D6/D1403 '
    '(C03/C14) and are not generated here; zeros, FALSE and every other value may repeat without bound',
    'defined names in the test workbooks are words of letters (no name that reads as a cell reference, a function '
    'or differs from another name only in case); a text literal denotes its text whatever names exist',
]

PREFIXES = ['', '=', '<>', '<', '<=', '>', '>=']
NUM_CELLS = [-3, -1, 0, 1, 2, 3, 5, 10, 2.5, -1.5, 0.25, 1.0, 2.0]
TXT_CELLS = ['apple', 'Apple', 'APPLE', 'pear', 'Pear', 'b', 'B', 'a', 'kiwi fruit', 'Kiwi Fruit', 'zed', 'Z']
NUM_OPERANDS = ['1', '2', '-1', '-3', '2.5', '-1.5', '0', '0.25', '10', '1.0', '-0.5', '7']
TXT_OPERANDS = ['apple', 'APPLE', 'Pear', 'b', 'kiwi fruit', 'zed', 'q', 'aa']
# spellings the statement does not speak about (compared with the model only)
ODD_CRITERIA = [' 1', '1 ', '1e1', 'true', 'TRUE', '', '=', '<>', '<', '=>1', '==1', '><1', '<<1', '+1', '1_0',
                '.5', '5.', '<=', '=apple ', ' apple', '1a', '-', '--1', '= 1', '=-1', 'a=1']
ALPHABET = '<>=-1a '
PROBE_COL = [-11, -1, 0, 1, 11, 'a', 'A', 'aa', 'b', 1.5]
ODD_COL = [1, -1, '1', '-1', '=1', '<1', ' ', 'a ', '1a', None, True, 'true']


def wv(v):
    if v is None:
        return 'Z'
    if isinstance(v, bool):
        return 'B:1' if v else 'B:0'
    if isinstance(v, int):
        return f'I:{v}'
    if isinstance(v, float):
        return 'F:' + w_frac(frac_of(v))
    if isinstance(v, str):
        return w_text(v)
    raise TypeError(v)


def wrows(rows):
    return 'A:' + ';'.join(','.join(wv(c) for c in r) for r in rows)


def wflat(cells):
    return 'A:' + ','.join(wv(c) for c in cells)


def py_split(s):
    """harness-side longest-operator-prefix split (to find the operand the statement speaks about)"""
    for op in ('<=', '>=', '<>', '<', '>', '='):
        if s.startswith(op):
            return op, s[len(op):]
    return '', s


def is_datelike(t):
    """would the operand text reach dateutil (it is no Python int/float/boolean text) and be read as a date
    there?  dateutil is called directly, not through the code under test."""
    import dateutil.parser
    for conv in (int, float):
        try:
            conv(t)
            return False
        except ValueError:
            pass
    if t.lower() in ('true', 'false'):
        return False
    try:
        dateutil.parser.parse(t)
        return True
    except (ValueError, OverflowError):
        return False
    except Exception:  # noqa: BLE001
        return True


def lit(v):
    """formula literal of a value"""
    if isinstance(v, bool):
        return 'TRUE' if v else 'FALSE'
    if isinstance(v, str):
        return '"' + v.replace('"', '""') + '"'
    return repr(v)


def col_letter(i):
    return 'ABCDEFGHIJKLMNOPQRSTUVWXYZ'[i]


class Case:
    __slots__ = ('kind', 'req', 'call', 'inp', 'formula', 'place')

    def __init__(self, kind, req, call, inp, formula=None):
        self.kind, self.req, self.call, self.inp, self.formula = kind, req, call, inp, formula
        self.place = None


def case_from_input(inp, F, arr):
    """rebuild a case from the `input` dict of a violation / corpus entry (lists after a JSON round trip)"""
    fn = inp['fn']
    if fn == 'COUNTIF':
        col, c = inp['range'], inp['criteria']
        if col and isinstance(col[0], list):
            flat = [x for row in col for x in row]
            return Case('countif-2d', ['countif', wv(c), wflat(flat)], (lambda: F['COUNTIF'](col, c)), inp)
        return Case('countif', ['countif', wv(c), wflat(col)],
                    (lambda: F['COUNTIF'](arr([[x] for x in col]), c)), inp, ('COUNTIF', col, c))
    if fn == 'COUNTIFS':
        pairs = [(list(col), c) for col, c in inp['pairs']]
        rest, args = [], []
        for col, c in pairs[1:]:
            rest += list(col) + [c]
        for col, c in pairs:
            args += [arr([[x] for x in col]), c]
        return Case('countifs', ['countifs', wflat(pairs[0][0]), wv(pairs[0][1]), wflat(rest)],
                    (lambda: F['COUNTIFS'](*args)), inp)
    if fn == 'MATCH':
        key, col, mt = inp['lookup'], inp['array'], inp['match_type']
        if mt == 'default':
            return Case('match', ['match', wv(key), wrows([[x] for x in col]), 'I:1'],
                        (lambda: F['MATCH'](key, arr([[x] for x in col]))), inp, ('MATCH', key, col, mt))
        return Case('match', ['match', wv(key), wrows([[x] for x in col]), wv(mt)],
                    (lambda: F['MATCH'](key, arr([[x] for x in col]), mt)), inp, ('MATCH', key, col, mt))
    if fn == 'VLOOKUP':
        key, tb, col, rl = inp['lookup'], inp['table'], inp['col'], inp.get('range_lookup', False)
        if rl == 'omitted':
            return Case('vlookup', ['vlookup', wv(key), wrows(tb), wv(col), 'B:0'],
                        (lambda: F['VLOOKUP'](key, arr(tb), col)), inp)
        return Case('vlookup', ['vlookup', wv(key), wrows(tb), wv(col), 'B:1' if rl else 'B:0'],
                    (lambda: F['VLOOKUP'](key, arr(tb), col, bool(rl))), inp,
                    ('VLOOKUP', key, tb, col) if isinstance(col, int) and not rl else None)
    if fn == 'CHOOSE':
        i, vals = inp['index'], inp['values']
        return Case('choose', ['choose', wv(i), wflat(vals)], (lambda: F['CHOOSE'](i, *vals)), inp,
                    ('CHOOSE', i, vals) if vals and not isinstance(i, (str, bool)) else None)
    raise ValueError(f'cannot rebuild a case from {inp!r}')


def load_inputs(ctx):
    """replay file (a single failing input) or the corpus of regression inputs (run first)"""
    import json
    out = []
    if ctx.replay:
        obj = json.loads(open(ctx.replay if str(ctx.replay).startswith('/') else common.VERIF / ctx.replay).read())
        for x in (obj if isinstance(obj, list) else [obj]):
            if isinstance(x, dict) and isinstance(x.get('input'), dict) and 'fn' in x['input']:
                out.append(x['input'])
        return out
    d = common.CORPUS / 'C15'
    if d.is_dir():
        for f in sorted(d.glob('*.json')):
            obj = json.loads(f.read_text())
            out += [x['input'] if 'input' in x else x for x in (obj if isinstance(obj, list) else [obj])]
    return out


def gen_columns(rng, thorough):
    cols = []
    cols.append([1, 2, 2.5, 'apple', 'Apple', -1, -3, 'pear'])
    cols.append([-3, -1, 0, 1, 2])
    cols.append(['apple', 'APPLE', 'b', 'kiwi fruit', 'zed'])
    cols.append([0])
    cols.append(['b'])
    cols.append([2, 2, 2, 'b', 'B', 'b'])
    n = 1200 if thorough else 26
    for _ in range(n):
        k = rng.randint(1, 8)
        mix = rng.random()
        col = []
        for _ in range(k):
            if rng.random() < mix:
                col.append(rng.choice(NUM_CELLS))
            else:
                col.append(rng.choice(TXT_CELLS))
        cols.append(col)
    return cols


def criteria_list():
    out = []
    for p in PREFIXES:
        for o in NUM_OPERANDS + TXT_OPERANDS:
            out.append(p + o)
    out += [1, 2, -1, 0, 2.5, -1.5, 10, 1.0, 7]
    return out


def total_key(v):
    """the one total order of C09 on numbers and texts (harness-side, for building sorted data)"""
    if isinstance(v, str):
        return (1, v.upper())
    return (0, v)


def run(ctx):
    from xlcalculator.xlfunctions import xl, func_xltypes as ft, xlcriteria
    import xlcalculator  # noqa: F401
    from xlcalculator import ModelCompiler, Evaluator
    import pandas
    F = xl.FUNCTIONS
    rng = ctx.rng
    thorough = ctx.tier == 'thorough' or ctx.widen
    res = Result()
    res.rule = (
        'columns/tables up to 8x4 of numbers (ints, negative, dyadic decimals) and mixed-case texts; COUNTIF: every '
        'operator prefix x numeric/text operand and plain values on fixed + random columns, plus ALL strings of '
        'length <= %d over "<>=-1a " as criteria on two probe columns (thorough: also every third string of '
        'length 6); COUNTIFS: 1-3 (range, criterion) pairs, also 2-D '
        'and unequal lengths; MATCH: ascending/descending/unsorted columns with duplicates, keys at every position, '
        'between, below, above, absent, types 0/1/-1/default; VLOOKUP: keys at every row incl. duplicated and '
        'case-variant keys, absent keys, every column index 0..n+1, negative and fractional; CHOOSE: every index '
        '0..n+1, fractional, negative, 255; each as a direct call and a sample through formulas over real ranges '
        'placed anywhere (first column A..AZ incl. tables straddling H|I, P|Q, Z|AA, AF|AG, rows beyond 1, other '
        'sheets, quoted sheet names), plus workbooks written with openpyxl and loaded with read_and_parse_archive '
        'that define names for the table, its columns and single cells - some spelled exactly like text literals '
        '(keys, criteria, CHOOSE values) of the formulas -, data addressed by range or by name, 2-D and one-row '
        'criteria ranges; and long columns / rows (100-300 cells, any place) with runs of 50-250 equal cells - 0, 0.0, '
        'FALSE, TRUE, duplicates, empty text (<= 100 in a row) - through COUNTIF/COUNTIFS/MATCH/VLOOKUP formulas. '
        'Real result vs Spec (violation) and vs Lean model (drift). non-trivial = distinct request whose Spec '
        'result is constrained and is not 0 / #N/A' % (5 if thorough else 4))

    cases = []

    def arr(rows):
        return ft.Array([list(r) for r in rows])

    # ---------------------------------------------------------------- corpus / replay first
    for inp in load_inputs(ctx):
        if inp.get('route') == 'long-range':
            unrun = lambda runs: [v for v, k in runs for _ in range(k)]       # noqa: E731
            col, col2 = unrun(inp['runs_of_first_range']), unrun(inp['runs_of_second_range'])
            cells_, later_, _ = long_cells(col, col2, inp['layout'] == 'row', tuple(inp['place']))
            spec = parse_kv(ctx.driver.batch(['\t'.join(['C15'] + inp['request'])])[0])['spec']
            reals = eval_long(cells_, later_, inp['place'][3], [inp['formula']])
            real = reals[0] if isinstance(reals, list) else 'X:' + type(reals).__name__
            res.evaluations += 1
            res.count('long-range:replay')
            if not (spec == 'ERR' and real.startswith('E:')) and not same_value(real, spec):
                res.violations.append({'what': f'{inp["fn"]} (formula over a long range) disagrees with the linear-scan '
                                               'reference', 'input': inp, 'expected': spec, 'got': real})
            continue
        if inp.get('route') == 'workbook' and 'wb_table' in inp:
            import tempfile
            base = {k: v for k, v in inp.items() if k not in ('route', 'formula', 'place', 'names', 'wb_table')}
            c = case_from_input(base, F, arr)
            spec = parse_kv(ctx.driver.batch(['\t'.join(['C15'] + c.req)])[0])['spec']
            with tempfile.TemporaryDirectory(prefix='c15wb') as tmp:
                reals = eval_in_workbook(tmp, 'replay', inp['wb_table'], inp['names'], tuple(inp['place']),
                                         [inp['formula']])
            res.evaluations += 1
            res.count('workbook:replay')
            classify(res, inp, reals[0] if isinstance(reals, list) else 'X:' + type(reals).__name__, spec, spec,
                     'formula in a loaded workbook with defined names')
            continue
        place = inp.get('place')
        inp = {k: v for k, v in inp.items() if k not in ('route', 'formula', 'place')}
        cases.append(case_from_input(inp, F, arr))
        if place:
            cases[-1].place = tuple(place)
        res.count('corpus')
    replay_only = bool(ctx.replay)

    # ---------------------------------------------------------------- regex / parser tie: all short strings
    maxlen = 5 if thorough else 4
    shorts = [''.join(t) for k in range(1, maxlen + 1) for t in itertools.product(ALPHABET, repeat=k)]
    if replay_only:
        shorts = []
    split_reqs = ['\t'.join(['C15', 'split', w_text(s)]) for s in shorts]
    split_resp = ctx.driver.batch(split_reqs)
    rx = xlcriteria.CRITERIA_REGEX
    for s, r in zip(shorts, split_resp):
        d = parse_kv(r)
        m = re.search(rx, s)
        try:
            real = '.'.join(str(ord(c)) for c in (m.group(1) or '')) + '|' + '.'.join(str(ord(c)) for c in m.group(2))
        except Exception as exc:  # noqa: BLE001
            real = 'X:' + type(exc).__name__
        res.evaluations += 1
        res.count('regex-split')
        if real != d['impl']:
            res.drift.append({'kind': 'regex-split', 'text': s, 'impl_model': d['impl'], 'real': real})
    if thorough and not replay_only:
        # length 6 on the probe column, every third string
        shorts = shorts + [''.join(t) for i, t in enumerate(itertools.product(ALPHABET, repeat=6)) if i % 3 == 0]
    for s in shorts:
        if is_datelike(py_split(s)[1]):
            # date-like operand: outside the statement and outside the model (dateutil is uninterpreted)
            res.count('excluded:datelike-operand')
            continue
        for colname, col in (('probe', PROBE_COL), ('odd', ODD_COL)):
            if len(s) == 6 and colname == 'odd':
                continue
            cases.append(Case('countif-short', ['countif', wv(s), wflat(col)],
                              (lambda c=col, s=s: F['COUNTIF'](arr([[x] for x in c]), s)),
                              {'fn': 'COUNTIF', 'range': col, 'criteria': s}))

    # ---------------------------------------------------------------- COUNTIF
    cols = [] if replay_only else gen_columns(rng, thorough)
    crits = criteria_list()
    odd = [c for c in ODD_CRITERIA if not is_datelike(py_split(c)[1])]
    for ci, col in enumerate(cols):
        use = crits if (thorough or ci < 12) else rng.sample(crits, 30)
        for c in list(use) + (odd if ci < 6 else []):
            f = None
            if isinstance(c, str) and '"' not in c and c != '':
                f = ('COUNTIF', col, c)
            elif not isinstance(c, str):
                f = ('COUNTIF', col, c)
            cases.append(Case('countif', ['countif', wv(c), wflat(col)],
                              (lambda col=col, c=c: F['COUNTIF'](arr([[x] for x in col]), c)),
                              {'fn': 'COUNTIF', 'range': col, 'criteria': c}, f))
    # 2-D ranges, native lists
    for _ in range(0 if replay_only else 400 if thorough else 8):
        r, w = rng.randint(1, 4), rng.randint(2, 4)
        rows = [[rng.choice(NUM_CELLS + TXT_CELLS) for _ in range(w)] for _ in range(r)]
        c = rng.choice(crits)
        flat = [x for row in rows for x in row]
        cases.append(Case('countif-2d', ['countif', wv(c), wflat(flat)],
                          (lambda rows=rows, c=c: F['COUNTIF'](rows, c)),
                          {'fn': 'COUNTIF', 'range': rows, 'criteria': c}))
    # error cells / error criteria: outside the statement, model only
    from xlcalculator.xlfunctions import xlerrors
    for col, c in [] if replay_only else [([1, 'E', 'a'], '>0'), ([1, 'E', 'a'], '=1'), (['E', 1, 'a'], '=1'), ([1, 'E'], 1), ([1, None, 'a', True], 0),
                   ([1, None, 'a', True], '<>1'), ([1, None, '', True], ''), ([True, False, 1], True)]:
        real_col = [xlerrors.NaExcelError() if x == 'E' else x for x in col]
        wire_col = 'A:' + ','.join('E:NA' if x == 'E' else wv(x) for x in col)
        cases.append(Case('countif-odd-cells', ['countif', wv(c), wire_col],
                          (lambda rc=real_col, c=c: F['COUNTIF'](arr([[x] for x in rc]), c)),
                          {'fn': 'COUNTIF', 'range': col, 'criteria': c}))

    # MATCH / VLOOKUP over error, blank and boolean cells, row vectors: outside the statement, model only
    def oddw(x):
        return 'E:NA' if x == 'E' else wv(x)

    def oddv(x):
        return xlerrors.NaExcelError() if x == 'E' else x
    for col, key, mt in [] if replay_only else [
            ([1, 'E', 3], 3, 0), ([1, 'E', 3], 3, 1), ([1, 'E', 3], 3, -1), (['E', 1], 1, 0), ([1, None, 3], 3, 0),
            ([None, 1, 3], 0, 0), ([1, 2, None], 2, 1), ([True, 1], 1, 0), ([1, True], True, 0), ([1, 2, True], 5, 1)]:
        cases.append(Case('match-odd-cells', ['match', wv(key), 'A:' + ';'.join(oddw(x) for x in col), wv(mt)],
                          (lambda col=col, key=key, mt=mt: F['MATCH'](key, arr([[oddv(x)] for x in col]), mt)),
                          {'fn': 'MATCH', 'lookup': key, 'array': col, 'match_type': mt}))
    if not replay_only:
        cases.append(Case('match-odd-cells', ['match', 'I:2', 'A:I:1,I:2,I:3', 'I:0'],
                          (lambda: F['MATCH'](2, arr([[1, 2, 3]]), 0)),
                          {'fn': 'MATCH', 'lookup': 2, 'array': [[1, 2, 3]], 'match_type': 0}))
    for tb, key, col in [] if replay_only else [
            ([['E', 1], [2, 3]], 2, 2), ([[None, 1], [0, 3]], 0, 2), ([[1, 'E'], [2, 3]], 1, 2), ([[True, 1], [1, 3]], 1, 2),
            ([[1, None], [2, 3]], 1, 2)]:
        cases.append(Case('vlookup-odd-cells',
                          ['vlookup', wv(key), 'A:' + ';'.join(','.join(oddw(x) for x in r) for r in tb), wv(col), 'B:0'],
                          (lambda tb=tb, key=key, col=col: F['VLOOKUP'](key, arr([[oddv(x) for x in r] for r in tb]), col,
                                                                     False)),
                          {'fn': 'VLOOKUP', 'lookup': key, 'table': tb, 'col': col, 'range_lookup': False}))

    # random arrays of blanks, booleans, numeric texts and errors: MATCH as Python performs it (the sorted()
    # test with every comparison, list != with ==, the exception when an error value is compared)
    ODD_POOL = [1, 2, 3, 6, 0, -1, 2.5, 'a', 'B', '1e2', '5', '', None, None, True, False, 'E', 'E2']

    def oddw2(x):
        return {'E': 'E:NA', 'E2': 'E:NUM'}.get(x) if isinstance(x, str) and x in ('E', 'E2') else wv(x)

    def oddv2(x):
        if x == 'E':
            return xlerrors.NaExcelError()
        if x == 'E2':
            return xlerrors.NumExcelError()
        return x
    nodd = 0 if replay_only else 6000 if thorough else 700
    sort_cases = []
    for _ in range(nodd):
        k = rng.randint(1, 8)
        style = rng.random()
        if style < 0.35:
            col = [rng.choice(ODD_POOL) for _ in range(k)]
        else:   # mostly ordinary data with one or two odd cells
            col = sorted((rng.choice(NUM_CELLS[:8]) for _ in range(k)), reverse=style > 0.8)
            for _ in range(rng.randint(1, 2)):
                col[rng.randrange(k)] = rng.choice(ODD_POOL[9:])
        key = rng.choice([1, 2, 366, 0, 'a', False, True, '1e2', 2.5])
        mt = rng.choice([1, 1, -1, 0, 'default'])
        wcol = 'A:' + ';'.join(oddw2(x) for x in col)
        if mt == 'default':
            call = (lambda col=col, key=key: F['MATCH'](key, arr([[oddv2(x)] for x in col])))
        else:
            call = (lambda col=col, key=key, mt=mt: F['MATCH'](key, arr([[oddv2(x)] for x in col]), mt))
        cases.append(Case('match-odd-cells', ['match', wv(key), wcol, 'I:1' if mt == 'default' else wv(mt)], call,
                          {'fn': 'MATCH', 'lookup': key, 'array': col, 'match_type': mt}))
        sort_cases.append((col, rng.random() < 0.3))
    # the model of sorted() itself: order of the original positions, or the exception of the first failing `<`
    sresp = ctx.driver.batch(['\t'.join(['C15', 'sortidx', 'A:' + ','.join(oddw2(x) for x in col),
                                         'B:1' if rv else 'B:0']) for col, rv in sort_cases])
    for (col, rv), r in zip(sort_cases, sresp):
        flat = arr([[oddv2(x)] for x in col]).flat
        try:
            out = sorted(flat, reverse=rv)
            pos = {}
            for i, o in enumerate(flat):
                pos.setdefault(id(o), []).append(i)
            real = ','.join(str(pos[id(o)].pop(0)) for o in out)
        except Exception as exc:  # noqa: BLE001
            real = 'X:' + type(exc).__name__
        res.evaluations += 1
        res.count('sorted-model')
        if parse_kv(r).get('impl') != real:
            res.drift.append({'kind': 'sorted()', 'array': repr(col), 'reverse': rv,
                              'impl_model': parse_kv(r).get('impl'), 'real': real})

    # ---------------------------------------------------------------- COUNTIFS
    npairs_runs = 0 if replay_only else 30000 if thorough else 500
    for _ in range(npairs_runs):
        n = rng.randint(1, 8)
        k = rng.randint(1, 3)
        pairs = []
        for _ in range(k):
            col = [rng.choice(NUM_CELLS[:8] + TXT_CELLS[:6]) for _ in range(n)]
            pairs.append((col, rng.choice(crits)))
        shape = rng.random()
        if shape < 0.08 and k > 1:
            # unequal lengths (outside the statement)
            j = rng.randrange(1, k)
            col = pairs[j][0]
            pairs[j] = ((col + [rng.choice(NUM_CELLS)]) if rng.random() < 0.5 else col[:-1], pairs[j][1])
        rest = []
        for col, c in pairs[1:]:
            rest += list(col) + [c]
        args = []
        for col, c in pairs:
            if shape > 0.9 and len(col) % 2 == 0 and len(col) > 0:
                args.append(arr([col[i:i + 2] for i in range(0, len(col), 2)]))   # 2-D range, row-major
            else:
                args.append(arr([[x] for x in col]))
            args.append(c)
        f = ('COUNTIFS', pairs) if all(not isinstance(c, str) or '"' not in c for _, c in pairs) and \
            len({len(col) for col, _ in pairs}) == 1 else None
        cases.append(Case('countifs', ['countifs', wflat(pairs[0][0]), wv(pairs[0][1]), wflat(rest)],
                          (lambda a=args: F['COUNTIFS'](*a)),
                          {'fn': 'COUNTIFS', 'pairs': pairs}, f))

    # ---------------------------------------------------------------- MATCH
    def match_cases(col, keys, types):
        for key in keys:
            for mt in types:
                if mt == 'default':
                    call = (lambda col=col, key=key: F['MATCH'](key, arr([[x] for x in col])))
                    w = 'I:1'
                else:
                    call = (lambda col=col, key=key, mt=mt: F['MATCH'](key, arr([[x] for x in col]), mt))
                    w = wv(mt)
                cases.append(Case('match', ['match', wv(key), wrows([[x] for x in col]), w], call,
                                  {'fn': 'MATCH', 'lookup': key, 'array': col, 'match_type': mt},
                                  ('MATCH', key, col, mt)))

    def keys_for(col):
        ks = list(dict.fromkeys(col))
        nums = sorted(x for x in col if not isinstance(x, str))
        for a, b in zip(nums, nums[1:]):
            if b - a > 1:
                ks.append(a + 1)
            elif b - a == 1:
                ks.append(a + 0.5)
        ks += [min(nums) - 1, max(nums) + 1] if nums else [0]
        for t in [x for x in col if isinstance(x, str)]:
            ks += [t.upper(), t.lower(), t + 'a']
        ks += ['aardvark', 'zzz', 'm', -100, 100]
        return list(dict.fromkeys((type(k).__name__, k) for k in ks))

    match_cols = [[10, 20, 30, 40], [10, 20, 20, 40], [1], ['apple', 'b', 'Pear', 'zed'], [1, 2, 'a', 'b'],
                  [40, 30, 20, 10], [40, 30, 30, 10], [3, 1, 2], ['b', 'a'], [2, 2, 2], [1, 3, 5, 'a', 'A', 'c']]
    for _ in range(1500 if thorough else 30):
        k = rng.randint(1, 8)
        kind = rng.choice(['asc', 'asc', 'desc', 'unsorted', 'asc-mixed', 'asc-text'])
        pool = {'asc-mixed': NUM_CELLS[:8] + TXT_CELLS, 'asc-text': TXT_CELLS}.get(kind, NUM_CELLS[:8] + [20, 30, 40])
        col = [rng.choice(pool) for _ in range(k)]
        if kind.startswith('asc'):
            col.sort(key=total_key)
        elif kind == 'desc':
            col.sort(key=total_key, reverse=True)
        match_cols.append(col)
    for col in ([] if replay_only else match_cols):
        keys = [k for _, k in keys_for(col)]
        match_cases(col, keys, [0, 1, -1])
        match_cases(col, keys[:3], ['default', 2, 1.0, True])

    # ---------------------------------------------------------------- VLOOKUP
    tables = [
        [['k1', 1, 2], ['k2', 3, 4], ['K2', 5, 6], ['k3', 7, 8]],
        [[1, 'a', 'b'], [2, 'c', 'd'], [2, 'e', 'f'], [3.0, 'g', 'h']],
        [[1], [2]],
        [['x', 'y']],
        [[5, 'five', 5.5, 'V'], ['five', 5, 'x', 2.5], [5, 'again', 0, 'W']],
    ]
    for _ in range(1200 if thorough else 25):
        r, w = rng.randint(1, 8), rng.randint(1, 4)
        kpool = rng.choice([[1, 2, 3, 5, 2.5], ['a', 'b', 'A', 'pear', 'Pear'], [1, 2, 'a', 'A', 'b', 2.0]])
        tables.append([[rng.choice(kpool)] + [rng.choice(NUM_CELLS + TXT_CELLS) for _ in range(w - 1)]
                       for _ in range(r)])
    for tb in ([] if replay_only else tables):
        w = len(tb[0])
        keys = list(dict.fromkeys((type(r[0]).__name__, r[0]) for r in tb))
        keys = [k for _, k in keys] + ['nokey', 77] + [k.swapcase() for _, k in keys if isinstance(k, str)]
        for key in keys:
            for col in list(range(0, w + 2)) + [-1, 1.5, w + 0.5, 0.5]:
                cases.append(Case('vlookup', ['vlookup', wv(key), wrows(tb), wv(col), 'B:0'],
                                  (lambda tb=tb, key=key, col=col: F['VLOOKUP'](key, arr(tb), col, False)),
                                  {'fn': 'VLOOKUP', 'lookup': key, 'table': tb, 'col': col, 'range_lookup': False},
                                  ('VLOOKUP', key, tb, col) if isinstance(col, int) else None))
            cases.append(Case('vlookup', ['vlookup', wv(key), wrows(tb), 'I:1', 'B:0'],
                              (lambda tb=tb, key=key: F['VLOOKUP'](key, arr(tb), 1)),
                              {'fn': 'VLOOKUP', 'lookup': key, 'table': tb, 'col': 1, 'range_lookup': 'omitted'}))
        cases.append(Case('vlookup-approx', ['vlookup', wv(keys[0]), wrows(tb), 'I:1', 'B:1'],
                          (lambda tb=tb, key=keys[0]: F['VLOOKUP'](key, arr(tb), 1, True)),
                          {'fn': 'VLOOKUP', 'lookup': keys[0], 'table': tb, 'col': 1, 'range_lookup': True}))

    # ---------------------------------------------------------------- CHOOSE
    vpool = NUM_CELLS + TXT_CELLS
    for n in range(0, 0 if replay_only else 6):
        for rep in range(20 if thorough else 2):
            vals = [rng.choice(vpool) for _ in range(n)]
            idxs = list(range(-1, n + 3)) + [0.5, 0.99, 1.5, n + 0.5, n - 0.5, 254, 255, 2.0, '2', True]
            for i in idxs:
                cases.append(Case('choose', ['choose', wv(i), wflat(vals)],
                                  (lambda i=i, vals=vals: F['CHOOSE'](i, *vals)),
                                  {'fn': 'CHOOSE', 'index': i, 'values': vals},
                                  ('CHOOSE', i, vals) if vals and not isinstance(i, (str, bool)) else None))

    # ================================================================ run: model/spec from the driver, real in-process
    resp = ctx.driver.batch(['\t'.join(['C15'] + c.req) for c in cases])
    fcases = []
    for c, r in zip(cases, resp):
        d = parse_kv(r)
        if 'impl' not in d:
            raise RuntimeError(f'driver: {r!r} for {c.req!r}')
        impl, spec = d['impl'], d['spec']
        real = call_real(c.call)
        if real == 'X:NotImplementedError':
            real = 'X:Other'
        res.evaluations += 1
        res.count(c.kind)
        res.count('outcome:' + ('error' if real.startswith('E:') else 'crash' if real.startswith('X:') else 'value'))
        if spec != '-':
            res.count('constrained:' + c.kind.split('-')[0])
            if spec not in ('I:0', 'E:NA'):
                res.nontrivial.add('\t'.join(c.req))
        if len(res.samples) < 12 and spec != '-' and res.evaluations % 97 == 0:
            res.sample({**c.inp, 'real': real, 'spec': spec})
        classify(res, c.inp, real, impl, spec, 'direct call')
        if c.formula is not None and spec != '-' and impl != 'U':
            fcases.append((c, spec))

    # ================================================================ the same through formulas over real ranges
    budget = 15000 if thorough else 900
    step = max(1, len(fcases) // budget)
    picked = fcases[::step]
    nform = 0
    for c, spec in picked:
        # the data sit anywhere on any sheet: first column A…AZ (tables straddling H|I, P|Q, Z|AA, AF|AG, …),
        # rows beyond 1, another sheet than the formula's
        place = c.place or random_place(rng)
        built = build_formula(c.formula, place)
        if built is None:
            continue
        cells, target = built
        res.count('place:' + ('A1' if place[1] == 0 and place[2] == 0 else 'offset')
                  + ('' if place[0] == place[3] else '/other-sheet'))
        def ev(cells=cells, target=target):
            m = ModelCompiler().read_and_parse_dict(cells)
            return Evaluator(m).evaluate(target)
        real = call_real(ev)
        nform += 1
        res.evaluations += 1
        res.count('formula:' + c.kind)
        inp = {**c.inp, 'route': 'formula', 'formula': cells[target], 'place': list(place)}
        classify(res, inp, real, spec, spec, 'formula over a real range')
    res.count('via_formula', nform)

    # MATCH through formulas over ranges with an empty cell / an error cell / booleans (outside the statement:
    # compared with the model; a Python exception of the body surfaces as RuntimeError from the evaluator)
    odd_formulas = [] if replay_only else [
        ({'A1': 6, 'A3': '=SQRT(-1)'}, 'A1:A3', 366, None, [6, None, 'E2']),
        ({'A3': False, 'A4': '1e2'}, 'A3:A5', False, None, [False, '1e2', None]),
        ({'A1': 1, 'A2': 2, 'A4': 4}, 'A1:A4', 3, 1, [1, 2, None, 4]),
        ({'A1': 1, 'A2': 2, 'A4': 4}, 'A1:A4', 0, 0, [1, 2, None, 4]),
        ({'A1': 4, 'A2': 2, 'A4': 1}, 'A1:A4', 3, -1, [4, 2, None, 1]),
        ({'A1': 1, 'A2': '=NA()', 'A3': 3}, 'A1:A3', 3, 0, [1, 'E', 3]),
        ({'A1': 1, 'A2': '=NA()', 'A3': 3}, 'A1:A3', 3, 1, [1, 'E', 3]),
        ({'A1': True, 'A2': 'x', 'A3': 1}, 'A1:A3', 1, 1, [True, 'x', 1]),
    ]
    oreqs = []
    for cells_, rng_, key, mt, col in odd_formulas:
        oreqs.append('\t'.join(['C15', 'match', wv(key), 'A:' + ';'.join(oddw2(x) for x in col),
                                'I:1' if mt is None else wv(mt)]))
    for (cells_, rng_, key, mt, col), r in zip(odd_formulas, ctx.driver.batch(oreqs)):
        impl = parse_kv(r)['impl']
        text = f'=MATCH({lit(key)},{rng_})' if mt is None else f'=MATCH({lit(key)},{rng_},{lit(mt)})'
        cells = {f'Sheet1!{a}': v for a, v in cells_.items()}
        cells['Sheet1!Z1'] = text

        def ev(cells=cells):
            m = ModelCompiler().read_and_parse_dict(cells)
            return Evaluator(m).evaluate('Sheet1!Z1')
        real = call_real(ev)
        res.evaluations += 1
        res.count('formula:match-odd-cells')
        same = (real.startswith('X:') and impl.startswith('X:')) or same_value(real, impl)
        if not same:
            res.drift.append({'kind': 'MATCH formula over odd cells', 'formula': text, 'cells': repr(cells_),
                              'impl_model': impl, 'real': real})

    # ================================================================ loaded workbooks with defined names
    if not replay_only:
        run_workbooks(ctx, res, thorough)
        run_long(ctx, res, thorough)

    # ================================================================ SUMIF / SUMIFS where pandas supports them
    if hasattr(pandas.DataFrame, 'applymap'):
        run_sumif(ctx, res, F, arr, cols, crits)
    else:
        res.notes.append(f'SUMIF/SUMIFS excluded: installed pandas {pandas.__version__} has no DataFrame.applymap '
                         '(both functions raise AttributeError), as the statement allows')
        probe = call_real(lambda: F['SUMIF'](arr([[1], [2]]), '>0'))
        res.count('sumif-probe:' + probe)
    if res.drift:
        res.notes.append(f'{len(res.drift)} model/implementation differences where the code still meets Spec '
                         'or the statement is silent')
    res.exhaustive = True
    return res


def classify(res, inp, real, impl, spec, route):
    if spec == '-':
        ok = True
    elif spec == 'ERR':
        ok = real.startswith('E:')
    else:
        ok = same_value(real, spec)
    if not ok:
        res.violations.append({'what': f'{inp.get("fn")} ({route}) disagrees with the linear-scan reference',
                               'input': inp, 'expected': spec, 'got': real})
    elif impl != 'U' and not (same_value(real, impl) or (impl == 'ERR' and real.startswith('E:'))):
        res.drift.append({**{k: repr(v) for k, v in inp.items()}, 'impl_model': impl, 'real': real})


def col_name(i):
    """spreadsheet letters of a 0-based column index (A, …, Z, AA, …)"""
    i += 1
    out = ''
    while i:
        i, r = divmod(i - 1, 26)
        out = chr(65 + r) + out
    return out


def sheet_ref(sheet):
    return "'" + sheet.replace("'", "''") + "'" if not sheet.isalnum() else sheet


# first columns (0-based) that make 2-4 column tables straddle H|I, P|Q, X|Y, Z|AA, AF|AG …, and a few plain ones
PLACE_COLS = [0, 0, 1, 4, 5, 6, 7, 13, 14, 15, 21, 22, 23, 24, 25, 28, 29, 30, 31, 38, 47]
PLACE_ROWS = [0, 0, 1, 4, 20, 63]
PLACE_SHEETS = ['Sheet1', 'Sheet1', 'Data', 'My Data']


def random_place(rng):
    """where the data of a formula case is put: (data sheet, first column, first row offset, formula sheet)"""
    sheet = rng.choice(PLACE_SHEETS)
    c0 = rng.choice(PLACE_COLS) if rng.random() < 0.8 else rng.randint(0, 51)
    return sheet, c0, rng.choice(PLACE_ROWS), rng.choice([sheet, 'Sheet1'])


def build_formula(f, place=('Sheet1', 0, 0, 'Sheet1')):
    """cells of a model holding the data in real ranges — on sheet `place[0]`, first column `place[1]`, row offset
    `place[2]` — and the formula in CZ1 of sheet `place[3]`"""
    kind = f[0]
    sheet, c0, r0, fsheet = place
    cells = {}
    pre = '' if fsheet == sheet else sheet_ref(sheet) + '!'

    def put_col(ci, col):
        for i, v in enumerate(col):
            cells[f'{sheet}!{col_name(c0 + ci)}{r0 + 1 + i}'] = v
        return f'{pre}{col_name(c0 + ci)}{r0 + 1}:{col_name(c0 + ci)}{r0 + len(col)}'

    if kind == 'COUNTIF':
        _, col, c = f
        rng_ = put_col(0, col)
        if isinstance(c, str) and len(c) % 2 == 0 and not c.startswith('='):
            cells[f'{fsheet}!DA1'] = c                      # the criterion comes from a cell
            text = f'=COUNTIF({rng_},DA1)'
        else:
            text = f'=COUNTIF({rng_},{lit(c)})'
    elif kind == 'COUNTIFS':
        _, pairs = f
        parts = []
        for j, (col, c) in enumerate(pairs):
            parts += [put_col(j, col), lit(c)]
        text = '=COUNTIFS(' + ','.join(parts) + ')'
    elif kind == 'MATCH':
        _, key, col, mt = f
        rng_ = put_col(0, col)
        text = f'=MATCH({lit(key)},{rng_})' if mt == 'default' else f'=MATCH({lit(key)},{rng_},{lit(mt)})'
    elif kind == 'VLOOKUP':
        _, key, tb, col = f
        for i, row in enumerate(tb):
            for j, v in enumerate(row):
                cells[f'{sheet}!{col_name(c0 + j)}{r0 + 1 + i}'] = v
        text = (f'=VLOOKUP({lit(key)},{pre}{col_name(c0)}{r0 + 1}:{col_name(c0 + len(tb[0]) - 1)}{r0 + len(tb)},'
                f'{lit(col)},FALSE)')
    elif kind == 'CHOOSE':
        _, i, vals = f
        refs = []
        for j, v in enumerate(vals):
            if j % 2 == 0:
                cells[f'{sheet}!{col_name(c0)}{r0 + 1 + j}'] = v
                refs.append(f'{pre}{col_name(c0)}{r0 + 1 + j}')
            else:
                refs.append(lit(v))
        text = f'=CHOOSE({lit(i)},' + ','.join(refs) + ')'
    else:
        return None
    cells[f'{fsheet}!CZ1'] = text
    return cells, f'{fsheet}!CZ1'


def long_column(rng, ascending=False):
    """100-300 cells made of runs: long runs (50-250) of one value - 0, 0.0, FALSE, the empty text (at most 100 in a
    row: longer runs of empty cells are the known cut-off D6), duplicates - separated by short runs"""
    vals = [0, 0, 0.0, False, '', 5, 2, -1, 'apple', 'b', True, 7]
    total = rng.randint(100, 300)
    col = []
    while len(col) < total:
        v = rng.choice(vals)
        n = rng.choice([1, 1, 2, 3, 50, 99, 100, 101, 130, 150, 250])
        if v == '' and isinstance(v, str):
            n = min(n, 100)
            if col and col[-1] == '' and isinstance(col[-1], str):
                continue
        col += [v] * min(n, total - len(col))
    if ascending:
        empties = [i for i, v in enumerate(col) if v == '' and isinstance(v, str)]
        for i in empties[100:]:
            col[i] = 'apple'             # sorting puts the empty texts next to each other: keep the run <= 100
        col.sort(key=lambda v: (2, int(v)) if isinstance(v, bool) else (1, v.upper()) if isinstance(v, str) else (0, v))
    return col


def runs_of(col):
    runs = []
    for v in col:
        if runs and runs[-1][0] == v and type(runs[-1][0]) is type(v):
            runs[-1][1] += 1
        else:
            runs.append([v, 1])
    return runs


def long_cells(col, col2, as_row, place):
    """cells of the long-range models: three parallel ranges (data, second criteria range, values) as columns or rows"""
    sheet, c0, r0, fsheet = place
    n = len(col)
    vals = [f'v{i + 1}' if i % 3 else i + 1 for i in range(n)]
    cells, later = {}, {}
    for i in range(n):
        for j, data in enumerate((col, col2, vals)):
            ci, ri = (i, j) if as_row else (j, i)
            addr = f'{sheet}!{col_name(c0 + ci)}{r0 + 1 + ri}'
            v = data[i]
            if v == '' and isinstance(v, str):
                later[addr] = v              # read_and_parse_dict indexes value[0]: empty text is set afterwards
            else:
                cells[addr] = v
    return cells, later, vals


def eval_long(cells, later, fsheet, formulas):
    from xlcalculator import ModelCompiler, Evaluator
    cells = dict(cells)
    for i, t in enumerate(formulas):
        cells[f'{fsheet}!{col_name(400)}{i + 1}'] = t
    try:
        model = ModelCompiler().read_and_parse_dict(cells)
        for addr, v in later.items():
            model.set_cell_value(addr, v)
        ev = Evaluator(model)
    except Exception as exc:  # noqa: BLE001
        return exc
    return [call_real(ev.evaluate, f'{fsheet}!{col_name(400)}{i + 1}') for i in range(len(formulas))]


def run_long(ctx, res, thorough):
    """Long columns and rows (100-300 cells) with long runs of equal values through formulas in a compiled model:
    the cells of a range are what is on the sheet, however many equal / zero / FALSE / empty-text cells follow each
    other.  Expected values from the Lean Spec."""
    rng = ctx.rng
    nsets = 24 if thorough else 5
    for si in range(nsets):
        sheet, c0, r0, fsheet = random_place(rng)
        asc = rng.random() < 0.4
        col = long_column(rng, asc)
        n = len(col)
        col2 = [rng.choice([0, 0, 1, 8, 'b', False]) for _ in range(n)] if rng.random() < 0.5 else list(reversed(col))
        as_row = rng.random() < 0.3          # the same data laid out as one long row (criteria functions only)
        pre = '' if fsheet == sheet else sheet_ref(sheet) + '!'
        cells, later, vals = long_cells(col, col2, as_row, (sheet, c0, r0, fsheet))
        if as_row:
            ref = lambda j: f'{pre}{col_name(c0)}{r0 + 1 + j}:{col_name(c0 + n - 1)}{r0 + 1 + j}'   # noqa: E731
        else:
            ref = lambda j: f'{pre}{col_name(c0 + j)}{r0 + 1}:{col_name(c0 + j)}{r0 + n}'           # noqa: E731
        items = []
        crits = ['>=0', '<1', '<=-1', '>0', '<>0', '0', '=0', '<>apple', 'apple', '>=b', '<5', '>=5', 0, 5, False, True,
                 '<=7', '<>b']
        for c in rng.sample(crits, 9):
            items.append((f'=COUNTIF({ref(0)},{lit(c)})', ['countif', wv(c), wflat(col)],
                          {'fn': 'COUNTIF', 'range': col, 'criteria': c}))
            c2 = rng.choice(crits)
            items.append((f'=COUNTIFS({ref(0)},{lit(c)},{ref(1)},{lit(c2)})',
                          ['countifs', wflat(col), wv(c), wflat(col2 + [c2])],
                          {'fn': 'COUNTIFS', 'pairs': [(col, c), (col2, c2)]}))
        if not as_row:
            keys = list(dict.fromkeys((type(v).__name__, v) for v in col))
            keys = [k for _, k in keys if not (k == '' and isinstance(k, str))] + [9, 'zz', 1]
            tb = [[col[i], col2[i], vals[i]] for i in range(n)]
            tref = f'{pre}{col_name(c0)}{r0 + 1}:{col_name(c0 + 2)}{r0 + n}'
            for key in keys:
                for mt in (0, 1):
                    items.append((f'=MATCH({lit(key)},{ref(0)},{mt})', ['match', wv(key), wrows([[x] for x in col]), wv(mt)],
                                  {'fn': 'MATCH', 'lookup': key, 'array': col, 'match_type': mt}))
                for ci in (1, 3):
                    items.append((f'=VLOOKUP({lit(key)},{tref},{ci},FALSE)',
                                  ['vlookup', wv(key), wrows(tb), wv(ci), 'B:0'],
                                  {'fn': 'VLOOKUP', 'lookup': key, 'table': tb, 'col': ci, 'range_lookup': False}))
        resp = ctx.driver.batch(['\t'.join(['C15'] + req) for _, req, _ in items])
        todo = [(t, parse_kv(r)['spec'], inp) for (t, _, inp), r in zip(items, resp) if parse_kv(r).get('spec', '-') != '-']
        reals = eval_long(cells, later, fsheet, [t for t, _, _ in todo])
        if isinstance(reals, Exception):
            res.violations.append({'what': 'a model with a long column does not compile',
                                   'input': {'length': n, 'place': [sheet, c0, r0, fsheet]}, 'expected': 'a model',
                                   'got': repr(reals)})
            continue
        reqs = {t: req for t, req, _ in items}
        for (t, spec, inp), real in zip(todo, reals):
            res.evaluations += 1
            res.count('long-range:' + inp['fn'])
            if spec not in ('I:0', 'E:NA'):
                res.nontrivial.add('long\t' + t + '\t' + str(si))
            if not (spec == 'ERR' and real.startswith('E:')) and not same_value(real, spec):
                res.violations.append({'what': f'{inp["fn"]} (formula over a long range) disagrees with the linear-scan '
                                               'reference',
                                       'input': {'fn': inp['fn'], 'formula': t, 'runs_of_first_range': runs_of(col),
                                                 'runs_of_second_range': runs_of(col2), 'request': reqs[t],
                                                 'layout': 'row' if as_row else 'column',
                                                 'place': [sheet, c0, r0, fsheet], 'route': 'long-range'},
                                       'expected': spec, 'got': real})
        res.count('long-range:models')


NAME_WORDS = ['apple', 'Pear', 'Total', 'zed', 'kiwi', 'Rent', 'Food', 'Labels']


def eval_in_workbook(tmp, stem, tb, names, place, formulas):
    """write the table (at `place`), the defined names and the formulas with openpyxl, load the file through
    ModelCompiler.read_and_parse_archive and evaluate every formula; returns the canonical results (or the
    exception that prevented loading)"""
    import os
    import openpyxl
    from openpyxl.workbook.defined_name import DefinedName
    from xlcalculator import ModelCompiler, Evaluator
    sheet, c0, r0, fsheet = place
    wb = openpyxl.Workbook()
    ws = wb.active
    ws.title = sheet
    fs = ws if fsheet == sheet else wb.create_sheet(fsheet)
    for i, row in enumerate(tb):
        for j, v in enumerate(row):
            ws.cell(row=r0 + 1 + i, column=c0 + 1 + j, value=v)
    fcol = 100 if fsheet == sheet else 2
    for i, t in enumerate(formulas):
        fs.cell(row=i + 1, column=fcol, value=t)
    for n_, target in names.items():
        wb.defined_names[n_] = DefinedName(n_, attr_text=target)
    path = os.path.join(tmp, stem + '.xlsx')
    wb.save(path)
    try:
        ev = Evaluator(ModelCompiler().read_and_parse_archive(path))
    except Exception as exc:  # noqa: BLE001
        return exc
    return [call_real(ev.evaluate, f'{fsheet}!{col_name(fcol - 1)}{i + 1}') for i in range(len(formulas))]


def run_workbooks(ctx, res, thorough):
    """Workbooks written with openpyxl and loaded through ModelCompiler.read_and_parse_archive: a table at a random
    place of a random sheet, DEFINED NAMES for the table, its key column, a value column and single cells — some
    of them spelled exactly like text keys / criteria / CHOOSE values that occur as text LITERALS in the
    formulas — and formulas (on the same or another sheet) that address the data by explicit range or by name.
    A text literal is a text whatever names the workbook defines; a name denotes its cells.  Expected values come
    from the Lean Spec (the same requests as for direct calls)."""
    import tempfile
    rng = ctx.rng
    nwb = 40 if thorough else 8
    with tempfile.TemporaryDirectory(prefix='c15wb') as tmp:
        for wi in range(nwb):
            sheet, c0, r0, fsheet = random_place(rng)
            if fsheet == sheet and rng.random() < 0.5:
                fsheet = 'Calc'
            nrows, w = rng.randint(2, 8), rng.randint(2, 4)
            words = rng.sample(NAME_WORDS, 5)
            kpool = rng.choice([words[:4] + [w_.upper() for w_ in words[:2]], words[:3] + [1, 2, 3], [1, 2, 3, 5, 2.5]])
            vpool = NUM_CELLS[:8] + words + ['b', 'Kiwi Fruit']
            tb = [[rng.choice(kpool)] + [rng.choice(vpool) for _ in range(w - 1)] for _ in range(nrows)]
            top, bottom = r0 + 1, r0 + nrows
            pre = '' if fsheet == sheet else sheet_ref(sheet) + '!'
            abs_ = lambda c, r: f'${col_name(c)}${r}'                          # noqa: E731
            full = lambda c1, r1, c2, r2: f'{sheet_ref(sheet)}!{abs_(c1, r1)}:{abs_(c2, r2)}'   # noqa: E731
            names = {'Tbl': full(c0, top, c0 + w - 1, bottom), 'Keys': full(c0, top, c0, bottom),
                     'Col2': full(c0 + 1, top, c0 + 1, bottom)}
            # names spelled exactly like texts that occur in the table / in the formulas (one per word, any case)
            for word in words[:rng.randint(2, 4)]:
                if rng.random() < 0.5:
                    names[word] = f'{sheet_ref(sheet)}!{abs_(c0 + rng.randrange(w), rng.randint(top, bottom))}'
                else:
                    cj = c0 + rng.randrange(w)
                    names[word] = full(cj, top, cj, bottom)
            cellname = next((n for n, v in names.items() if ':' not in v), None)
            rng_tbl = rng.choice([f'{pre}{col_name(c0)}{top}:{col_name(c0 + w - 1)}{bottom}', 'Tbl'])
            colref = lambda j: f'{pre}{col_name(c0 + j)}{top}:{col_name(c0 + j)}{bottom}'      # noqa: E731
            rowref = lambda i: f'{pre}{col_name(c0)}{top + i}:{col_name(c0 + w - 1)}{top + i}'  # noqa: E731
            column = lambda j: [row[j] for row in tb]                          # noqa: E731
            items = []      # (formula text, driver request, input description)
            keys = list(dict.fromkeys((type(r[0]).__name__, r[0]) for r in tb))
            keys = [k for _, k in keys] + [x for x in words if x not in column(0)][:2] + [77]
            keys += [k.swapcase() for k in keys if isinstance(k, str)][:2]
            for key in keys:
                for col in range(0, w + 2):
                    items.append((f'=VLOOKUP({lit(key)},{rng_tbl},{col},FALSE)',
                                  ['vlookup', wv(key), wrows(tb), wv(col), 'B:0'],
                                  {'fn': 'VLOOKUP', 'lookup': key, 'table': tb, 'col': col, 'range_lookup': False}))
                kref = rng.choice([colref(0), 'Keys'])
                for mt in (0, 1):
                    items.append((f'=MATCH({lit(key)},{kref},{mt})',
                                  ['match', wv(key), wrows([[x] for x in column(0)]), wv(mt)],
                                  {'fn': 'MATCH', 'lookup': key, 'array': column(0), 'match_type': mt}))
            crit_words = words + [x for x in column(0) if isinstance(x, str)][:2]
            crits = [p_ + o for o in crit_words for p_ in ('', '=', '<>', '>=')] + ['>1', '<=2', '<>2', 2, 1]
            for c in rng.sample(crits, 14):
                j = rng.randrange(w)
                ref = 'Keys' if j == 0 and rng.random() < 0.5 else 'Col2' if j == 1 and rng.random() < 0.5 else colref(j)
                items.append((f'=COUNTIF({ref},{lit(c)})', ['countif', wv(c), wflat(column(j))],
                              {'fn': 'COUNTIF', 'range': column(j), 'criteria': c}))
                flat = [x for row in tb for x in row]
                items.append((f'=COUNTIF({rng_tbl},{lit(c)})', ['countif', wv(c), wflat(flat)],
                              {'fn': 'COUNTIF', 'range': tb, 'criteria': c}))
                c2 = rng.choice(crits)
                j2 = rng.randrange(w)
                items.append((f'=COUNTIFS({colref(j)},{lit(c)},{colref(j2)},{lit(c2)})',
                              ['countifs', wflat(column(j)), wv(c), wflat(column(j2) + [c2])],
                              {'fn': 'COUNTIFS', 'pairs': [(column(j), c), (column(j2), c2)]}))
                i1, i2 = rng.randrange(nrows), rng.randrange(nrows)           # one-row ranges, position by position
                items.append((f'=COUNTIFS({rowref(i1)},{lit(c)},{rowref(i2)},{lit(c2)})',
                              ['countifs', wflat(tb[i1]), wv(c), wflat(tb[i2] + [c2])],
                              {'fn': 'COUNTIFS', 'pairs': [(tb[i1], c), (tb[i2], c2)]}))
            for _ in range(6):
                n = rng.randint(1, 4)
                vals, refs = [], []
                for _ in range(n):
                    kind = rng.random()
                    if kind < 0.5:                                    # a text literal, often spelled like a name
                        v = rng.choice(words + ['x'])
                        vals.append(v)
                        refs.append(lit(v))
                    elif kind < 0.75 and cellname:                    # the name of a cell: its value
                        addr = names[cellname].replace('$', '').rsplit('!', 1)[1]
                        cj = next(j for j in range(w) if addr.startswith(col_name(c0 + j))
                                  and addr[len(col_name(c0 + j)):].isdigit())
                        vals.append(tb[int(addr[len(col_name(c0 + cj)):]) - top][cj])
                        refs.append(cellname)
                    else:
                        i_, j_ = rng.randrange(nrows), rng.randrange(w)
                        vals.append(tb[i_][j_])
                        refs.append(f'{pre}{col_name(c0 + j_)}{top + i_}')
                for i in range(0, n + 2):
                    items.append((f'=CHOOSE({i},' + ','.join(refs) + ')', ['choose', wv(i), wflat(vals)],
                                  {'fn': 'CHOOSE', 'index': i, 'values': vals}))
            resp = ctx.driver.batch(['\t'.join(['C15'] + req) for _, req, _ in items])
            todo = [(t, parse_kv(r)['spec'], inp) for (t, _, inp), r in zip(items, resp) if parse_kv(r).get('spec', '-') != '-']
            reals = eval_in_workbook(tmp, f'wb{wi}', tb, names, (sheet, c0, r0, fsheet), [t for t, _, _ in todo])
            if isinstance(reals, Exception):
                res.violations.append({'what': 'a workbook with a lookup table and defined names does not load',
                                       'input': {'table': tb, 'names': names, 'sheet': sheet}, 'expected': 'a model',
                                       'got': repr(reals)})
                continue
            for (t, spec, inp), real in zip(todo, reals):
                res.evaluations += 1
                res.count('workbook:' + inp['fn'])
                if any(n_ in t for n_ in names):
                    res.count('workbook:mentions-a-name-or-its-spelling')
                if spec not in ('I:0', 'E:NA'):
                    res.nontrivial.add('wb\t' + t + '\t' + repr(tb))
                classify(res, {**inp, 'route': 'workbook', 'formula': t, 'names': names, 'wb_table': tb,
                               'place': [sheet, c0, r0, fsheet]}, real, spec, spec,
                         'formula in a loaded workbook with defined names')
            res.count('workbooks')


def run_sumif(ctx, res, F, arr, cols, crits):
    """SUMIF/SUMIFS = sum of the numeric cells at the positions the criteria select (only reached when the
    installed pandas still has DataFrame.applymap)."""
    from fractions import Fraction
    rng = ctx.rng
    todo = []
    for col in cols[:40]:
        for c in rng.sample(crits, 12):
            todo.append((col, c))
    resp = ctx.driver.batch(['\t'.join(['C15', 'countif', wv(c), wflat(col)]) for col, c in todo])
    masks = {}
    for (col, c), r in zip(todo, resp):
        d = parse_kv(r)
        mask = d.get('mask', '-')
        masks[(tuple(col), c)] = mask
        if mask == '-':
            continue
        want = sum((Fraction(x) for x, m in zip(col, mask) if m == '1' and not isinstance(x, str)), Fraction(0))
        real = call_real(lambda col=col, c=c: F['SUMIF'](arr([[x] for x in col]), c))
        res.evaluations += 1
        res.count('sumif')
        got = common.num_value(real)
        if got is None or got != want:
            res.violations.append({'what': 'SUMIF disagrees with the sum over the cells the criterion selects',
                                   'input': {'fn': 'SUMIF', 'range': col, 'criteria': c},
                                   'expected': str(want), 'got': real})
    # SUMIFS: conjunction of two masks over columns of equal length
    keys = [k for k, m in masks.items() if m != '-']
    for _ in range(200):
        (c1, k1), (c2, k2) = rng.choice(keys), rng.choice(keys)
        n = min(len(c1), len(c2))
        a, b = list(c1[:n]), list(c2[:n])
        r = ctx.driver.batch(['\t'.join(['C15', 'countif', wv(k1), wflat(a)]),
                              '\t'.join(['C15', 'countif', wv(k2), wflat(b)])])
        m1, m2 = parse_kv(r[0]).get('mask', '-'), parse_kv(r[1]).get('mask', '-')
        if '-' in (m1, m2):
            continue
        sums = [rng.choice([1, 2, 3, 0.5, -1]) for _ in range(n)]
        want = sum((Fraction(s) for s, x, y in zip(sums, m1, m2) if x == '1' and y == '1'), Fraction(0))
        real = call_real(lambda: F['SUMIFS'](arr([[x] for x in sums]), arr([[x] for x in a]), k1,
                                            arr([[x] for x in b]), k2))
        res.evaluations += 1
        res.count('sumifs')
        got = common.num_value(real)
        if got is None or got != want:
            res.violations.append({'what': 'SUMIFS disagrees with the sum over the positions all criteria select',
                                   'input': {'fn': 'SUMIFS', 'sum_range': sums, 'ranges': [a, b], 'criteria': [k1, k2]},
                                   'expected': str(want), 'got': real})
