"""C16 — math and rounding functions agree with exact / IEEE reference values (DESIGN.md §4 C16)."""
import json
import math
import struct
import warnings
from decimal import Decimal, localcontext
from fractions import Fraction

import common
from common import Result, parse_kv

LEVEL_TEXT = (
    'Lean theorems, for every rational number and every digit count in Z (either sign): ROUND is a nearest '
    'multiple of 10^-d with ties away from zero, ROUNDUP/ROUNDDOWN/TRUNC/INT/EVEN have the stated direction '
    'and adjacency, all are idempotent and monotone, CEILING/FLOOR are the least/greatest multiple of the '
    'significance; and a statement-by-statement model of math.py on exact decimals (sign, coefficient, '
    'exponent; context precision 700) refines these reference functions for every finite decimal. '
    'Elementary functions: ATAN2 argument order, MOD sign, exact FACT/FACTDOUBLE/ABS/SIGN, the domain table '
    '(which arguments give which Excel error) and domain_total (value or Excel error, never NaN/inf/'
    'exception, given stated contracts of the numeric primitives). The model is tied to the running code '
    'by a differential run over decimals of up to 15 digits across the double range, digit counts -10..10, '
    'ties, all sign combinations and every domain boundary, directly and through formulas.')
LEVEL_NOTE = (
    'Trusted: Lean kernel (axioms propext, Classical.choice, Quot.sound), the hand-written model (validated by '
    'correspondence, not proved equal to the Python), Python decimal/float conversions, numpy/libm accuracy '
    '(measured within 4 ulp against math/decimal references, not proved). IEEE rounding is not modelled: '
    'CEILING/FLOOR outside the zone where double arithmetic is exact (integer significance, operands below '
    '2^53) are known finding D37 (float quotient/product), recognised by a float-level transcription in the '
    'harness; an underflowing quotient is known finding D1605 (modelled, guarded theorems).')
DESIGN_REF = '§4 C16'

# theorems of the integrated pipeline model (Props/X01.lean) that carry this property's theorems to formula TEXTS in a
# compiled workbook; re-built and audited with this check (harness/common.prepare: soft obligations)
TRANSPORT = ('XlVerif.Props.X01', ['X01_ROUND_partial'])

TRUSTED = [
    'Lean 4.33 kernel; axioms propext, Classical.choice, Quot.sound only',
    'hand-written model lean/XlVerif/Model/C16.lean of xlfunctions/math.py, tied to the code by this '
    'correspondence run (not proved equal to the Python)',
    'Python: repr(float) is the shortest round-tripping decimal, float(text) and Fraction->float are '
    'correctly rounded, decimal.Decimal quantize (modelled incl. the 700-digit context precision)',
    'numpy / libm / CPython math accuracy: measured here (<= 4 ulp against math and 50-digit decimal '
    'references), not proved; the primitives enter the theorems as hypotheses (Contracts)',
    'IEEE-754 rounding is not modelled (ideal reals): CEILING / FLOOR / EVEN / MOD / POWER are exact-rational '
    'in the model',
    'validate_args coercion of arguments is C08; here arguments arrive as int / float',
]
ASSUMPTIONS = [
    'domain of the rounding family: finite doubles (decimals of <= 15 significant digits across the double '
    'range, plus arbitrary doubles via their shortest repr), digit counts -10..10 (int or float typed)',
    'results beyond the double range are outside the statement: FACT(n > 170), FACTDOUBLE(n > 300), exact '
    'integer powers are compared as exact integers only while they fit a double',
    'where the correctly rounded reference overflows (EXP(710), COSH(711), DEGREES(1e308), 10.5^400) an Excel '
    'error value is required; where number / significance overflows in CEILING / FLOOR an Excel error is '
    'accepted',
    'ATAN2(0,0): the IEEE reference atan2(0,0)=0 is accepted (Excel reports #DIV/0!)',
    'CEILING / FLOOR are compared exactly for an integer-valued significance while number, significance and '
    'result are below 2^53 (double arithmetic is exact there); beyond, a result within 4 ulp of the exact '
    'multiple is accepted (a double cannot hold it) and anything else is the listed finding D37, as is every '
    'miss with a non-integer significance - provided it equals the float-level transcription of the code',
    'a float quotient that underflows to zero (EVEN(+-5e-324), CEILING/FLOOR with |number/significance| < '
    '2^-1075) is listed finding D1605; the sign of a zero result is not compared',
    'trigonometric functions are compared with math.* for |x| <= 1e15 and for finiteness beyond',
    'SQRTPI, RAND, RANDBETWEEN, SUM* are not part of the statement',
]

ULPS = 4
TWO53 = 2 ** 53
MAX_ULP = {}      # per function: largest distance (in ulp) from the reference seen on this run


# ------------------------------------------------------------------------------------------ helpers

def ordf(x):
    b = struct.unpack('<q', struct.pack('<d', x))[0]
    return b if b >= 0 else -(b & 0x7FFFFFFFFFFFFFFF)


def ulps(a, b):
    return abs(ordf(float(a)) - ordf(float(b)))


def wnum(x):
    if isinstance(x, bool):
        raise TypeError
    if isinstance(x, int):
        return f'I:{x}'
    return 'F:' + common.w_frac(Fraction(x))


def dec_text(x):
    """str(number.value) as the code sees it."""
    return repr(x) if isinstance(x, float) else str(x)


def frac_to_float(q):
    try:
        return q.numerator / q.denominator
    except OverflowError:
        return math.inf if q > 0 else -math.inf


def un_value(w):
    """wire value of the driver -> ('val', python number) | ('err', code) | ('crash', name) | ('nonfinite', s)"""
    if w.startswith('D:'):
        return ('val', float(w[2:]))
    if w.startswith('I:'):
        return ('val', int(w[2:]))
    if w.startswith('F:'):
        return ('val', common.un_frac(w[2:]))
    if w.startswith('B:'):
        return ('val', w == 'B:1')
    if w.startswith('E:'):
        return ('err', w[2:])
    if w.startswith('X:'):
        return ('crash', w[2:])
    if w.startswith('N:'):
        return ('nonfinite', w[2:])
    return ('other', w)


def real_outcome(fn, args):
    from xlcalculator.xlfunctions import xl, xlerrors, func_xltypes as ft
    try:
        with warnings.catch_warnings():
            warnings.simplefilter('ignore')
            r = fn(*args)
    except RecursionError:
        return ('crash', 'RecursionError')
    except Exception as exc:  # noqa: BLE001
        return ('crash', type(exc).__name__)
    if isinstance(r, xlerrors.ExcelError):
        return ('err', common.CODE_WIRE.get(str(r.value), 'OTHER'))
    if isinstance(r, ft.ExcelType):
        r = r.value
    if isinstance(r, bool):
        return ('val', r)
    if type(r).__module__ == 'numpy':
        import numpy
        if isinstance(r, numpy.bool_):
            return ('val', bool(r))
        if isinstance(r, numpy.integer):
            r = int(r)
        elif isinstance(r, numpy.floating):
            r = float(r)
    if isinstance(r, int):
        return ('val', r)
    if isinstance(r, float):
        if math.isnan(r):
            return ('nonfinite', 'nan')
        if math.isinf(r):
            return ('nonfinite', '+inf' if r > 0 else '-inf')
        return ('val', r)
    return ('other', repr(r))


def as_float(v):
    if isinstance(v, Fraction):
        return frac_to_float(v)
    try:
        return float(v)
    except OverflowError:
        return math.inf if v > 0 else -math.inf


# ------------------------------------------------------------------- float-level transcription (D37)

def replica_ceiling(number, significance):
    """CEILING exactly as xlfunctions/math.py computes it in binary floating point (used ONLY to recognise
    the listed finding D37: a wrong answer that differs from this one is a different violation)."""
    import decimal
    if significance == 0:
        return ('val', 0)
    if significance < 0 < number:
        return ('err', 'NUM')
    number = float(number)
    significance = float(significance)
    try:
        ceiling = significance * math.ceil(number / significance)
    except OverflowError:
        return ('err', 'NUM')
    if (number % significance) == 0:
        return ('val', ceiling)
    q = decimal.Decimal(str(significance % 1))
    ctx = decimal.Context(prec=700)
    if number < 0 and significance < 0:
        mode = decimal.ROUND_DOWN
    else:
        mode = decimal.ROUND_UP
    return ('val', float(decimal.Decimal(ceiling).quantize(q, rounding=mode, context=ctx)))


def replica_floor(number, significance):
    if significance < 0 < number:
        return ('err', 'NUM')
    if number == 0:
        return ('val', 0)
    if significance == 0:
        return ('err', 'DIV0')
    try:
        return ('val', significance * math.floor(float(number) / float(significance)))
    except OverflowError:
        return ('err', 'NUM')


# ------------------------------------------------------------------------------------ references

def dec_ref(f):
    with localcontext() as c:
        c.prec = 60
        c.Emax = 999999999
        c.Emin = -999999999
        return f()


def reference(fn, args):
    """Independent reference value of an elementary function (a float), 'overflow' when the correctly
    rounded value is not a finite double, None when no reference applies."""
    xs = [float(a) for a in args]
    try:
        if fn == 'SQRT':
            return float(dec_ref(lambda: Decimal(xs[0]).sqrt()))
        if fn == 'EXP':
            if xs[0] > 720:
                return 'overflow'
            if xs[0] < -760:
                return 0.0
            v = dec_ref(lambda: Decimal(xs[0]).exp())
            return as_float(Fraction(v))
        if fn == 'LN':
            return float(dec_ref(lambda: Decimal(xs[0]).ln()))
        if fn == 'LOG10':
            return float(dec_ref(lambda: Decimal(xs[0]).log10()))
        if fn == 'LOG':
            return float(dec_ref(lambda: Decimal(xs[0]).ln() / Decimal(xs[1]).ln()))
        if fn == 'POWER':
            return math.pow(xs[0], xs[1])
        if fn == 'ATAN2':
            return math.atan2(xs[1], xs[0])
        if fn == 'DEGREES':
            v = Fraction(xs[0]) * 180 / Fraction(math.pi)
            return as_float(v)
        if fn == 'RADIANS':
            return as_float(Fraction(xs[0]) * Fraction(math.pi) / 180)
        if fn == 'PI':
            return math.pi
        f = {'SIN': math.sin, 'COS': math.cos, 'TAN': math.tan, 'ASIN': math.asin, 'ACOS': math.acos,
             'ATAN': math.atan, 'COSH': math.cosh, 'ASINH': math.asinh, 'ACOSH': math.acosh}[fn]
        return f(xs[0])
    except OverflowError:
        return 'overflow'
    except (ValueError, ZeroDivisionError):
        return None


# ------------------------------------------------------------------------------------ generators

ROUND_FNS = ('ROUND', 'ROUNDUP', 'ROUNDDOWN', 'TRUNC')
UNARY = ('SIN', 'COS', 'TAN', 'ASIN', 'ACOS', 'ATAN', 'COSH', 'ASINH', 'ACOSH', 'EXP', 'LN', 'LOG10', 'SQRT',
         'DEGREES', 'RADIANS', 'ABS', 'SIGN', 'FACT', 'FACTDOUBLE')
MAXD = 1.7976931348623157e308


def rand_decimal(rng, max_digits=15):
    nd = rng.randint(1, max_digits)
    c = rng.randint(10 ** (nd - 1), 10 ** nd - 1)
    kind = rng.random()
    if kind < 0.45:
        e = rng.randint(-nd - 3, 3)          # a handful of decimals: rounding is non-trivial
    elif kind < 0.7:
        e = rng.randint(-25, 12)
    else:
        e = rng.randint(-323 - nd, 308 - nd)
    x = float(f'{c}e{e}')
    if math.isinf(x):
        x = MAXD
    return -x if rng.random() < 0.5 else x


def tie_decimal(rng, d):
    """a number exactly half-way between two multiples of 10^-d (as a decimal; in binary it may or may not be)"""
    nd = rng.randint(1, 13)
    c = rng.randint(0, 10 ** nd - 1)
    last = rng.choice(['5', '5', '5', '25', '75', '125', '4999999', '5000001', '49', '51', '0', '9', '1'])
    x = float(f'{c}{last}e{-d - len(last)}')
    if math.isinf(x):
        x = MAXD
    return -x if rng.random() < 0.5 else x


def rand_double(rng):
    while True:
        x = struct.unpack('<d', struct.pack('<Q', rng.getrandbits(64)))[0]
        if not (math.isnan(x) or math.isinf(x)):
            return x


SPECIAL_X = [0.0, -0.0, 0, 1, -1, 5, -5, 15, 25, -25, 0.5, -0.5, 1.5, -1.5, 2.5, -2.5, 0.15, 0.25, 0.35, 2.675,
             -2.675, 1.005, 0.29, -0.29, 1234.5, -1234.5, 1250, -1250, 5e-324, -5e-324, 2.2250738585072014e-308,
             MAXD, -MAXD, 1e22, 1e23, 1e300, -1e300, 1e-7, 9.999999999999999e22, 0.1, 0.7, 8.9, -8.9, 2 ** 53,
             2 ** 53 + 1.0, 4503599627370497.5, 0.49999999999999994, 99999.99999, 999.9995, 9.5, 99.5, -99.5,
             123456789012345, 1e15, 1e16, 12345678.9, 5e9, 5000000000.0, -5e9, 4.5e10, 1.5e-10, 5e-11]


def gen_round_cases(ctx, n):
    rng = ctx.rng
    cases = []
    for x in SPECIAL_X:
        for d in range(-10, 11):
            for fn in ROUND_FNS:
                cases.append((fn, (x, d)))
        cases.append(('INT', (x,)))
        cases.append(('EVEN', (x,)))
    for d in (1.9, -0.9, 0.5, 2.0, -2.0, 0.0, -0.0):
        for x in (2.675, -1234.5678, 15, 0.29):
            for fn in ROUND_FNS:
                cases.append((fn, (x, d)))
    for fn in ('ROUND', 'TRUNC'):                       # num_digits defaults to 0
        for x in (2.5, -2.5, 0.6, -0.6, 7, 1e300):
            cases.append((fn, (x,)))
    while len(cases) < n:
        d = rng.randint(-10, 10)
        r = rng.random()
        if r < 0.35:
            x = tie_decimal(rng, d)
        elif r < 0.85:
            x = rand_decimal(rng)
        elif r < 0.93:
            x = rand_double(rng)
        else:
            x = rng.randint(-10 ** rng.randint(1, 15), 10 ** rng.randint(1, 15))
        fn = rng.choice(ROUND_FNS + ('INT', 'EVEN', 'ROUND'))
        cases.append((fn, (x, d) if fn in ROUND_FNS else (x,)))
    return cases


INT_SIGS = [1, 2, 3, 5, 7, 10, 12, 25, 60, 100, 1000, 4096, 10 ** 6, 123457]
FRAC_SIGS = [0.1, 0.2, 0.25, 0.5, 0.05, 0.01, 1.5, 2.5, 0.3, 0.7, 1e-3, 0.125, 7.5, 1e-7, 33.3]


def gen_cf_cases(ctx, n):
    rng = ctx.rng
    cases = []
    xs = [0, 0.0, 1, -1, 2.5, -2.5, 6, -6, 7, 0.7, 0.6, -0.7, 0.25, 0.234, 1.58, 1.5, 3.7, 1e30, -1e30, 1e27,
          1e20, 123456789.123, 1e308, -1e308, 5e-324, 1e-300, 2 ** 53, 9007199254740993.0]
    sigs = [0, 0.0, 1, -1, 2, -2, 2.0, -2.0, 3, 7, -7, 10, 0.1, -0.1, 0.2, -0.2, 0.01, 1e-308, -1e-308, 1e300, 0.5]
    for x in xs:
        for s in sigs:
            cases.append(('CEILING', (x, s)))
            cases.append(('FLOOR', (x, s)))
    while len(cases) < n:
        r = rng.random()
        if r < 0.72:
            s = rng.choice(INT_SIGS) if rng.random() < 0.6 else rng.randint(1, 10 ** rng.randint(1, 9))
            if rng.random() < 0.5:
                s = float(s)
        elif r < 0.95:
            s = rng.choice(FRAC_SIGS) if rng.random() < 0.6 else float(
                f'{rng.randint(1, 999)}e{-rng.randint(1, 4)}')
        elif r < 0.97:
            s = 0
        else:
            s = abs(rand_decimal(rng, 3)) or 1.0
        if rng.random() < 0.35:
            s = -s
        r = rng.random()
        if r < 0.25:                                        # exact multiples and near multiples
            k = rng.randint(-10 ** rng.randint(1, 6), 10 ** rng.randint(1, 6))
            q = Fraction(s) * k if isinstance(s, int) else Fraction(Decimal(repr(s))) * k
            x = frac_to_float(q + rng.choice([0, 0, Fraction(1, 10 ** rng.randint(1, 6)),
                                              -Fraction(1, 10 ** rng.randint(1, 6))]))
            if math.isinf(x):
                x = rand_decimal(rng)
            elif rng.random() < 0.3 and x == int(x) and abs(x) < 1e15:
                x = int(x)
        elif r < 0.9:
            x = rand_decimal(rng)
        else:
            x = rng.randint(-10 ** 9, 10 ** 9)
        cases.append((rng.choice(('CEILING', 'FLOOR')), (x, s)))
    return cases


def boundary_points(lo=None, hi=None):
    pts = []
    for b in (lo, hi):
        if b is None:
            continue
        b = float(b)
        pts += [b, math.nextafter(b, math.inf), math.nextafter(b, -math.inf), int(b) if b == int(b) else b]
    return pts


def gen_elem_cases(ctx, n):
    rng = ctx.rng
    cases = [('PI', ())]
    common_x = [0, 0.0, -0.0, 1, -1, 1.0, -1.0, 2, -2, 0.5, -0.5, 10, 100, 1e-300, -1e-300, 5e-324, 1e300, -1e300,
                MAXD, -MAXD, 1e-8, 3, 4, 0.1, 709, 710, -745, -746, 1000, -1000, 170, 171, 1e15, 1e16, 0.9999999999,
                2.718281828459045, 3.141592653589793, 1.5707963267948966, 57.29577951308232]
    dom = {'ASIN': (-1, 1), 'ACOS': (-1, 1), 'ACOSH': (1, None), 'LN': (0, None), 'LOG10': (0, None),
           'SQRT': (0, None), 'FACT': (0, None), 'FACTDOUBLE': (0, None),
           'EXP': (709.782712893384, -745.1332191019412), 'COSH': (710.4758600739439, -710.4758600739439),
           'DEGREES': (3.1375664143845866e306, -3.1375664143845866e306)}
    for fn in UNARY:
        pts = list(common_x) + boundary_points(*dom.get(fn, (None, None)))
        if fn in ('FACT', 'FACTDOUBLE'):
            top = 170 if fn == 'FACT' else 300
            pts = [p for p in pts if abs(p) <= top] + list(range(0, 31)) + [top, top - 1, top + 0.9, 5.9, 1.9,
                                                                           -0.5, -1e-300, 20.0, 21.5]
        for p in pts:
            cases.append((fn, (p,)))
    # two-argument functions: boundaries
    for x, y in [(1, 2), (2, 1), (0, 0), (0, 1), (1, 0), (-1, 0), (0, -1), (-1, -1), (1, -1), (-1, 1), (1.5, -2.5),
                 (1e300, 1e-300), (-0.0, -1), (3, 4), (4, 3), (1e-320, 1)]:
        cases.append(('ATAN2', (x, y)))
    for x, b in [(8, 2), (8, 1), (0, 2), (2, 0), (2, -1), (-2, 2), (100, 10), (125, 5), (1, 10), (10, 10), (2, 0.5),
                 (1e300, 1.0000001), (5e-324, 2), (8, 1.0), (0.5, 0.9999999999999999), (86, 2.7182818)]:
        cases.append(('LOG', (x, b)))
    for x in (8, 100, 0, -1, 0.001):
        cases.append(('LOG', (x,)))                            # base defaults to 10
    for x, d in [(5, 0), (5, 3), (-5, 3), (5, -3), (-5, -3), (5.5, -3), (-5.5, 3), (0, 3), (0, -3), (6, 3), (-6, 3),
                 (5, 0.0), (1e300, 7), (7, 1e300), (-7, 1e300), (-1e-20, 3), (1e-20, -3), (0.3, 0.1), (3, 0.1),
                 (-3.5, 0.25), (2 ** 53, 3), (-(2 ** 53), 3), (10, -0.0)]:
        cases.append(('MOD', (x, d)))
    for x, p in [(0, -1), (0, 0), (0, 1), (0.0, -0.5), (-8, 1 / 3), (-8, 0.5), (-8, 3), (-8, -3), (-8.0, 3.0), (2, 10),
                 (2, -1), (2, 0.5), (10.5, 400), (10, 308), (10.0, 308), (10.0, 309), (10, -400), (1e-300, 2), (2, 1023),
                 (2.0, 1024), (-2, 63), (-1, 10 ** 6), (1, 1e300), (0.5, -1074), (0.5, -1075), (-0.0, 3), (7, 0),
                 (-7.5, 0), (1.0000000001, 1e12), (9, 0.5), (-27, -1), (3, 40)]:
        cases.append(('POWER', (x, p)))
    for x in (2.5, -1, 1, 0, 3, -3, -2.5, 1e300, 4.0, 1.9, -1.9, 7):
        cases.append(('ISEVEN', (x,)))
        cases.append(('ISODD', (x,)))
    while len(cases) < n:
        fn = rng.choice(UNARY + ('ATAN2', 'LOG', 'MOD', 'POWER', 'MOD', 'POWER', 'ATAN2'))
        if fn in UNARY:
            x = unary_arg(rng, fn, dom)
            cases.append((fn, (x,)))
        elif fn == 'ATAN2':
            cases.append((fn, (maybe_int(rng, rand_decimal(rng)), maybe_int(rng, rand_decimal(rng)))))
        elif fn == 'LOG':
            x = abs(rand_decimal(rng)) if rng.random() < 0.9 else rand_decimal(rng)
            b = rng.choice([2, 10, 2.718281828459045, 0.5, 3, 1, 0, -2, abs(rand_decimal(rng, 6))])
            cases.append((fn, (maybe_int(rng, x), b)))
        elif fn == 'MOD':
            x = maybe_int(rng, moderate(rng))
            d = maybe_int(rng, moderate(rng)) if rng.random() < 0.9 else 0
            cases.append((fn, (x, d)))
        else:
            r = rng.random()
            if r < 0.4:
                x, p = rng.randint(-30, 30), rng.randint(-12, 40)
            elif r < 0.7:
                x, p = moderate(rng), rng.choice([0.5, -0.5, 2, 3, -1, -2, 1 / 3, 1.5, 10, 0, 2.0, -3.0])
            else:
                x, p = rand_decimal(rng, 6), float(f'{rng.randint(-999, 999)}e{-rng.randint(0, 3)}')
            cases.append((fn, (x, p)))
    return cases


def maybe_int(rng, x):
    if rng.random() < 0.3 and abs(x) < 1e15:
        return int(x)
    return x


def moderate(rng):
    c = rng.randint(-10 ** rng.randint(1, 9), 10 ** rng.randint(1, 9))
    return float(f'{c}e{-rng.randint(0, 6)}')


def unary_arg(rng, fn, dom):
    r = rng.random()
    if fn in ('FACT', 'FACTDOUBLE'):
        top = 170 if fn == 'FACT' else 300
        if r < 0.7:
            return rng.randint(0, top)
        if r < 0.9:
            return rng.uniform(0, top)
        return -abs(moderate(rng))
    if fn in dom and r < 0.5:
        lo, hi = dom[fn]
        if fn in ('ASIN', 'ACOS'):
            return float(f'{rng.randint(-10 ** 9 - 10 ** 6, 10 ** 9 + 10 ** 6)}e-9')
        if fn in ('EXP', 'COSH'):
            return float(f'{rng.randint(-800000, 800000)}e-3')
        if fn == 'DEGREES':
            return rand_decimal(rng)
        if fn == 'ACOSH':
            return 1 + abs(moderate(rng)) if rng.random() < 0.8 else moderate(rng)
        return abs(rand_decimal(rng)) if rng.random() < 0.85 else rand_decimal(rng)
    if fn in ('SIN', 'COS', 'TAN') and r < 0.8:
        return maybe_int(rng, float(f'{rng.randint(-10 ** 9, 10 ** 9)}e{-rng.randint(0, 9)}'))
    return maybe_int(rng, rand_decimal(rng))


# ------------------------------------------------------------------------------------ classification

def request_line(fn, args):
    if fn in ROUND_FNS:
        x = args[0]
        d = args[1] if len(args) > 1 else 0
        return '\t'.join(['C16', fn, dec_text(x), wnum(d)])
    if fn in ('INT', 'EVEN'):
        return '\t'.join(['C16', fn, dec_text(args[0])])
    if fn in ('CEILING', 'FLOOR'):
        return '\t'.join(['C16', fn, repr(float(args[0])), repr(float(args[1]))])
    a = list(args)
    if fn == 'LOG' and len(a) == 1:
        a.append(10)
    return '\t'.join(['C16', fn] + [wnum(v) for v in a])


def close(real, ref, tol=ULPS):
    if isinstance(real, bool) or isinstance(ref, bool):
        return real == ref
    rf, ef = as_float(real), as_float(ref)
    if math.isinf(rf) or math.isinf(ef):
        return False
    return rf == ef or ulps(rf, ef) <= tol


def check_case(fn, args, resp, known_ids):
    """-> (verdict, expected, got, nontrivial) with verdict in ok | violation:<what> | known:<id> | drift | excluded"""
    from xlcalculator.xlfunctions import xl
    d = parse_kv(resp)
    if 'impl' not in d:
        raise RuntimeError(f'driver: {resp!r} for {fn}{args!r}')
    impl, spec, kf = un_value(d['impl']), d['spec'], d.get('kf', '')
    fobj = xl.FUNCTIONS.get(fn)
    real = real_outcome(fobj, args) if fobj is not None else ('crash', 'NotRegistered')
    got = f'{real[0]}:{real[1]!r}'
    nontrivial = False

    def model_agrees(tol=0):
        if real[0] != impl[0]:
            return False
        if real[0] == 'val':
            return close(real[1], impl[1], tol)
        return real[1] == impl[1]

    # --- the rounding family: exact
    if fn in ROUND_FNS or fn in ('INT', 'EVEN'):
        sv = un_value(spec)[1]
        sf = as_float(sv)
        expected = f'{sf!r} = float({spec[:48]})'
        xv = Fraction(args[0]) if not isinstance(args[0], float) else Fraction(Decimal(repr(args[0])))
        nontrivial = Fraction(sv) != xv
        if math.isinf(sf):
            return ('excluded', expected, got, False)
        if real[0] == 'val' and as_float(real[1]) == sf:
            return ('ok' if model_agrees() else 'drift', expected, got, nontrivial)
        if kf == 'D1605' and 'D1605' in known_ids and real == ('val', 0):
            return ('known:D1605', expected, got, True)
        return (f'violation:{fn} is not the decimal rounding of its argument', expected, got, True)

    if fn in ('CEILING', 'FLOOR'):
        if spec == 'ERR':
            expected = 'an Excel error value'
            if real[0] == 'err':
                return ('ok' if model_agrees() else 'drift', expected, got, True)
            return (f'violation:{fn} outside its domain does not give an Excel error', expected, got, True)
        sv = un_value(spec)[1]
        sf = as_float(sv)
        expected = f'{sf!r} = float({spec[:48]})'
        x, s = Fraction(Decimal(repr(float(args[0])))), Fraction(Decimal(repr(float(args[1]))))
        nontrivial = sv != x
        if s != 0 and abs(x / s) >= 2 ** 1023 and real[0] == 'err':
            # number / significance leaves the double range: an Excel error is accepted (ASSUMPTIONS)
            return ('ok', expected + ' or an Excel error', got, False)
        exact_zone = s.denominator == 1 and abs(x) < TWO53 and abs(s) < TWO53
        if real[0] == 'val':
            # exact where double arithmetic is exact; where a double cannot hold the exact multiple
            # (integer significance, operands beyond 2^53) ulp-level noise is accepted
            loose = s.denominator == 1 and not (exact_zone and abs(sv) <= TWO53) and close(real[1], sf)
            if as_float(real[1]) == sf or loose:
                return ('ok' if model_agrees(ULPS if loose else 0) else 'drift', expected, got, nontrivial)
        if kf == 'D1605' and 'D1605' in known_ids and real[0] == 'val' and real[1] == 0:
            return ('known:D1605', expected, got, True)
        if kf == 'D37' and 'D37' in known_ids:
            rep = (replica_ceiling if fn == 'CEILING' else replica_floor)(*args)
            same = real[0] == rep[0] and (real[1] == rep[1] if real[0] != 'val' else
                                          as_float(real[1]) == as_float(rep[1]))
            if same and real[0] == 'val':
                return ('known:D37', expected, got, True)
        return (f'violation:{fn} is not the multiple of the significance next to its argument', expected, got,
                True)

    # --- elementary functions
    if spec == 'ERR':
        expected = 'an Excel error value'
        if real[0] == 'err':
            return ('ok' if model_agrees() else 'drift', expected, got, True)
        return (f'violation:{fn} outside its domain does not give an Excel error', expected, got, True)
    if fn in ('ISEVEN', 'ISODD'):
        sv = un_value(spec)[1]
        if real == ('val', sv):
            return ('ok' if model_agrees() else 'drift', repr(sv), got, True)
        return (f'violation:{fn} disagrees with the parity of the integer part', repr(sv), got, True)
    if spec.startswith(('I:', 'F:')) and fn != 'ATAN2':
        sv = un_value(spec)[1]
        sf = as_float(sv)
        expected = f'{spec[:80]}'
        if math.isinf(sf):
            return ('excluded', expected, got, False)
        if fn == 'MOD':
            dv = Fraction(args[1])
            ok = real[0] == 'val' and close(real[1], sf) and \
                (real[1] == 0 or (real[1] > 0) == (dv > 0) or abs(Fraction(real[1])) == abs(dv))
            if ok and isinstance(real[1], int):
                ok = Fraction(real[1]) == sv
        elif fn in ('ABS', 'SIGN'):
            ok = real[0] == 'val' and Fraction(real[1]) == Fraction(sv)
        else:                                                  # FACT, FACTDOUBLE, POWER on integers: exact
            ok = real[0] == 'val' and isinstance(real[1], int) and Fraction(real[1]) == Fraction(sv)
        if ok:
            return ('ok' if model_agrees(ULPS) else 'drift', expected, got, True)
        return (f'violation:{fn} differs from its exact value', expected, got, True)
    # spec == VAL (or ATAN2): a finite value near the reference is required
    ref = reference(fn, args if not (fn == 'LOG' and len(args) == 1) else (args[0], 10))
    if ref is None:
        return ('excluded', 'no reference', got, False)
    if ref == 'overflow' or (isinstance(ref, float) and math.isinf(ref)):
        expected = 'an Excel error value (the reference value exceeds the double range)'
        if real[0] == 'err':
            return ('ok' if model_agrees() else 'drift', expected, got, True)
        return (f'violation:{fn} overflows without an Excel error', expected, got, True)
    expected = f'{ref!r} within {ULPS} ulp'
    if fn in ('SIN', 'COS', 'TAN') and abs(float(args[0])) > 1e15:
        if real[0] == 'val':
            return ('ok', 'a finite value', got, False)
        return (f'violation:{fn} of a large argument is not a finite value', 'a finite value', got, True)
    if real[0] == 'val' and not isinstance(real[1], bool):
        u = ulps(as_float(real[1]), ref)
        if u > MAX_ULP.get(fn, (-1,))[0]:
            MAX_ULP[fn] = (u, [repr(a) for a in args])
        if close(real[1], ref):
            return ('ok' if model_agrees(2 * ULPS) else 'drift', expected, got, True)
    return (f'violation:{fn} is not within {ULPS} ulp of the reference value', expected, got, True)


# ------------------------------------------------------------------------------------ formulas

def formula_cases(cases, rng, k):
    picked = []
    pool = [c for c in cases if c[0] not in ('PI',)]
    for _ in range(k):
        picked.append(rng.choice(pool))
    return picked


def eval_formula(fn, args):
    from xlcalculator import ModelCompiler, Evaluator
    cells = {}
    refs = []
    for i, a in enumerate(args):
        addr = f'Sheet1!A{i + 1}'
        cells[addr] = a
        refs.append(f'A{i + 1}')
    cells['Sheet1!B1'] = f'={fn}(' + ','.join(refs) + ')'
    with warnings.catch_warnings():
        warnings.simplefilter('ignore')
        m = ModelCompiler().read_and_parse_dict(cells)
        return Evaluator(m).evaluate('Sheet1!B1')


LITERAL_FORMULAS = [
    ('=ROUND(2.675,2)', 'ROUND', (2.675, 2)), ('=ROUND(-2.5,0)', 'ROUND', (-2.5, 0)),
    ('=ROUND(1234.5,-2)', 'ROUND', (1234.5, -2)), ('=ROUNDUP(-1.01,1)', 'ROUNDUP', (-1.01, 1)),
    ('=ROUNDDOWN(-1.09,1)', 'ROUNDDOWN', (-1.09, 1)), ('=TRUNC(0.29,2)', 'TRUNC', (0.29, 2)),
    ('=INT(-8.9)', 'INT', (-8.9,)), ('=EVEN(-1.5)', 'EVEN', (-1.5,)), ('=CEILING(2.5,2)', 'CEILING', (2.5, 2)),
    ('=FLOOR(-2.5,-2)', 'FLOOR', (-2.5, -2)), ('=MOD(-5,3)', 'MOD', (-5, 3)), ('=MOD(5,-3)', 'MOD', (5, -3)),
    ('=ATAN2(1,2)', 'ATAN2', (1, 2)), ('=2^0.5', 'POWER', (2, 0.5)), ('=2^10', 'POWER', (2, 10)),
    ('=0^-1', 'POWER', (0, -1)), ('=(-8)^(1/3)', 'POWER', (-8, 1 / 3)), ('=10.5^400', 'POWER', (10.5, 400)),
    ('=LN(0)', 'LN', (0,)), ('=LOG(8,1)', 'LOG', (8, 1)), ('=LOG(100)', 'LOG', (100,)), ('=MOD(5,0)', 'MOD', (5, 0)),
    ('=EXP(1000)', 'EXP', (1000,)), ('=SQRT(-1)', 'SQRT', (-1,)), ('=FACT(5)', 'FACT', (5,)), ('=PI()', 'PI', ()),
    ('=ABS(-3)', 'ABS', (-3,)), ('=SIGN(-0.5)', 'SIGN', (-0.5,)), ('=ACOS(2)', 'ACOS', (2,)),
    ('=DEGREES(PI())', 'DEGREES', (math.pi,)), ('=ROUND(2.5)', 'ROUND', (2.5,)),
]


def same_outcome(a, b):
    if a[0] != b[0]:
        return False
    if a[0] == 'val':
        return as_float(a[1]) == as_float(b[1]) if not isinstance(a[1], bool) else a[1] == b[1]
    return a[1] == b[1]


# ------------------------------------------------------------------------------------ run

def load_corpus():
    out = []
    d = common.CORPUS / 'C16'
    if d.exists():
        for p in sorted(d.glob('*.json')):
            for c in json.loads(p.read_text()).get('cases', []):
                out.append((c['fn'], tuple(c['args'])))
    return out


def run(ctx):
    import xlcalculator  # noqa: F401
    from xlcalculator.xlfunctions import xl
    from xlcalculator import ModelCompiler, Evaluator  # noqa: F401
    res = Result()
    MAX_ULP.clear()
    thorough = ctx.tier == 'thorough' or ctx.widen
    known_ids = {e['id'] for e in ctx.known if e.get('status') == 'known'}
    res.rule = (
        'corpus witnesses first; rounding family: special values x every digit count -10..10 x ROUND/ROUNDUP/'
        'ROUNDDOWN/TRUNC (+INT, EVEN), then random decimals of <= 15 digits over the double range, decimal ties '
        '(x5, x25, x4999999, x5000001 at the rounded place, representable in binary or not), arbitrary doubles and '
        'ints, digit counts -10..10 (int and float typed); CEILING/FLOOR: integer and fractional significances of '
        'both signs, exact and near multiples; elementary functions: every domain boundary (value, next double '
        'above/below), overflow thresholds, random arguments, int and float typed; a sample through formulas. Real '
        'code vs Spec (exact for the rounding family, <= 4 ulp against math/decimal references otherwise, Excel '
        'error outside the domain) and vs the Lean model. non-trivial = distinct request whose rounding changes '
        'the value, or whose result is an in-domain function value or a required Excel error')
    if ctx.replay:
        obj = json.loads(open(ctx.replay).read())
        inp = obj.get('input') or {}
        if 'formula' in inp:
            cases, lit = [], [(inp['formula'], inp['fn'], tuple(inp['args']))]
        else:
            cases, lit = [(inp['fn'], tuple(inp['args']))], []
    else:
        n_round, n_cf, n_el = (450000, 250000, 300000) if thorough else (16000, 7000, 9000)
        cases = load_corpus()
        cases += gen_round_cases(ctx, n_round) + gen_cf_cases(ctx, n_cf) + gen_elem_cases(ctx, n_el)
        lit = LITERAL_FORMULAS
    CH = 50000
    verdict_count = {}
    for off in range(0, len(cases), CH):
        chunk = cases[off:off + CH]
        lines = [request_line(fn, args) for fn, args in chunk]
        resp = ctx.driver.batch(lines)
        for (fn, args), line, r in zip(chunk, lines, resp):
            verdict, expected, got, nontrivial = check_case(fn, args, r, known_ids)
            res.evaluations += 1
            res.count(fn)
            res.count('outcome:' + got.split(':', 1)[0])
            kind = verdict.split(':', 1)[0]
            verdict_count[kind] = verdict_count.get(kind, 0) + 1
            if nontrivial:
                res.nontrivial.add(line)
            if res.evaluations % 997 == 1:
                res.sample({'fn': fn, 'args': [repr(a)[:60] for a in args], 'real': got[:100], 'spec': expected[:100]})
            if kind == 'violation':
                res.violations.append({'what': verdict.split(':', 1)[1], 'input': {'fn': fn, 'args': list(args)},
                                       'expected': expected[:200], 'got': got[:200]})
            elif kind == 'known':
                res.known.setdefault(verdict.split(':', 1)[1], []).append({'fn': fn, 'args': list(args)})
            elif kind == 'drift':
                res.drift.append({'fn': fn, 'args': [repr(a) for a in args], 'model': d_impl(r), 'real': got})
    for k, v in verdict_count.items():
        res.count('verdict:' + k, v)
    # ---- through formulas: cell references and literals
    nform = 0
    if not ctx.replay:
        picked = formula_cases(cases, ctx.rng, 2500 if thorough else 500)
        for fn, args in picked:
            direct = real_outcome(xl.FUNCTIONS[fn], args)
            via = real_outcome(eval_formula, (fn, args))
            nform += 1
            res.evaluations += 1
            if not same_outcome(direct, via):
                res.violations.append({'what': f'{fn} through a formula differs from the direct call',
                                       'input': {'formula': f'={fn}(A1..)', 'fn': fn, 'args': list(args)},
                                       'expected': repr(direct), 'got': repr(via)})
    for f, fn, args in lit:
        def ev(f=f):
            with warnings.catch_warnings():
                warnings.simplefilter('ignore')
                m = ModelCompiler().read_and_parse_dict({'Sheet1!A1': f})
                return Evaluator(m).evaluate('Sheet1!A1')
        via = real_outcome(ev, ())
        direct = real_outcome(xl.FUNCTIONS[fn], args)
        nform += 1
        res.evaluations += 1
        if not same_outcome(direct, via):
            res.violations.append({'what': f'{f} evaluates differently from the direct call',
                                   'input': {'formula': f, 'fn': fn, 'args': list(args)},
                                   'expected': repr(direct), 'got': repr(via)})
    res.count('via_formula', nform)
    res.extra['max_ulp_vs_reference'] = {k: {'ulp': v[0], 'at': v[1]} for k, v in sorted(MAX_ULP.items())}
    if res.drift:
        res.notes.append(f'{len(res.drift)} model/implementation differences where the code still meets Spec')
    return res


def d_impl(resp):
    return parse_kv(resp).get('impl', '')[:80]
