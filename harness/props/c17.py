"""C17 — text functions agree with 1-based string reference semantics (DESIGN.md §4 C17)."""
import itertools

import common
from common import Result, w_text, parse_kv, call_real, same_value

LEVEL_TEXT = (
    'Lean theorems over a statement-by-statement model of text.py: closed forms of LEFT/RIGHT/MID/REPLACE '
    'for every text, position and count; FIND is the first occurrence >= start; the five algebraic laws of '
    'the statement, clipping, zero counts and the error cases. The model is tied to the running code by an '
    'exhaustive small-domain plus random differential run (direct calls and through formulas).')
LEVEL_NOTE = (
    'Trusted: Lean kernel (axioms propext, Classical.choice, Quot.sound), the hand-written model (validated '
    'by correspondence, not proved equal to the Python), Python str.upper/lower for non-ASCII, argument '
    'coercion (C08).')
DESIGN_REF = '§4 C17'

# theorems of the integrated pipeline model (Props/X01.lean) that carry this property's theorems to formula TEXTS in a
# compiled workbook; re-built and audited with this check (harness/common.prepare: soft obligations)
TRANSPORT = ('XlVerif.Props.X01', ['X01_LEFT', 'compile_nested_formula_partial'])

TRUSTED = [
    'Lean 4.33 kernel; axioms propext, Classical.choice, Quot.sound only',
    'hand-written model lean/XlVerif/Model/C17.lean of xlfunctions/text.py, tied to the code by this '
    'correspondence run (not proved equal to the Python)',
    'validate_args coercion of arguments is modelled in C08, here arguments arrive typed',
    'Python str.upper/lower for non-ASCII characters (modelled for ASCII only)',
]
ASSUMPTIONS = [
    'text form of floats/booleans passed as text is not constrained by the statement (only ints are used)',
    'UPPER/LOWER compared on ASCII letters only',
]

ALPHA = 'ab '


def texts_upto(n, alpha=ALPHA):
    for k in range(n + 1):
        for t in itertools.product(alpha, repeat=k):
            yield ''.join(t)


def wnum(x):
    if isinstance(x, int):
        return f'I:{x}'
    return 'F:' + common.w_frac(common.frac_of(x))


def gen_cases(ctx):
    rng = ctx.rng
    thorough = ctx.tier == 'thorough' or ctx.widen
    maxlen = 5 if thorough else 4
    base = list(texts_upto(maxlen))
    special = ['hello', 'banana', 'abcabc', 'a"b', "it's", 'naïve', 'ÀÉÎ', 'x' * 40, '  a   b  ', 'Aa',
               'a\tb', '日本語テキスト', 'aaa', 'abab', '',
               # only U+0020 is a blank for TRIM: other white space must survive, also at the ends
               '\ta', 'a\t', '\u00a0a  b\u00a0', 'x\u3000', '\u3000x', '\na\n', ' \t a ', ' \u00a0 ', '\t', '\u00a0',
               # texts that spell booleans / zero are ordinary texts
               'false', 'FALSE', 'False', 'true', 'TRUE', '0', 'falsetto', ' false']
    texts = base + special
    pos = list(range(-2, maxlen + 3))
    cases = []
    for s in texts:
        cases.append(('LEN', (s,)))
        cases.append(('UPPER', (s,)))
        cases.append(('LOWER', (s,)))
        cases.append(('TRIM', (s,)))
        for n in pos:
            cases.append(('LEFT', (s, n)))
            cases.append(('RIGHT', (s, n)))
    small = [t for t in texts if len(t) <= 3] + special
    for s in small:
        for p in pos:
            for k in pos:
                cases.append(('MID', (s, p, k)))
    needles = [t for t in texts_upto(2)] + ['na', 'abc', 'A', '"']
    for s in texts:
        for t in needles:
            for p in pos:
                cases.append(('FIND', (t, s, p)))
    repl = ['', 'X', 'ab', 'a b']
    for s in small:
        for p in pos:
            for k in range(-1, 5):
                for t in repl:
                    cases.append(('REPLACE', (s, p, k, t)))
    for a in small:
        for b in ['', 'a', 'A', 'ab', 'aB', a]:
            cases.append(('EXACT', (a, b)))
            cases.append(('CONCAT', (a, b)))
    words = ['false', 'FALSE', 'False', 'true', '0', '', 'it is ', 'x', ' ', 'no']
    for a in words:
        for b in words:
            cases.append(('CONCAT', (a, b)))
            cases.append(('CONCAT', (a, b, a)))
            cases.append(('EXACT', (a, b)))
        for n in range(0, 7):
            cases.append(('LEFT', (a, n)))
            cases.append(('RIGHT', (a, n)))
        cases.append(('REPLACE', ('abcdef', 2, 3, a)))
        cases.append(('FIND', (a, 'it is false, FALSE', 1)))
    cases.append(('CONCAT', tuple('x' for _ in range(254))))
    cases.append(('CONCAT', tuple('x' for _ in range(255))))
    # non-integer and float-typed counts (int() truncates toward zero)
    for s in ['hello', 'ab', '']:
        for n in [0.0, 0.9, 1.5, 2.0, -0.5, -1.5, 2.999]:
            cases.append(('LEFT', (s, n)))
            cases.append(('RIGHT', (s, n)))
            cases.append(('MID', (s, 1 + n, 2)))
            cases.append(('FIND', ('l', s, 1 + n)))
    # numbers passed where a text is expected are first converted to their text form (ints: decimal numeral)
    for z in [0, 1, 7, 10, 100, 120, 1050, 12345, 1000000, -10, -5, 2000, 90, 101]:
        cases.append(('LEN', (z,)))
        cases.append(('UPPER', (z,)))
        cases.append(('TRIM', (z,)))
        for n in (0, 1, 2, 3, 9):
            cases.append(('LEFT', (z, n)))
            cases.append(('RIGHT', (z, n)))
            cases.append(('MID', (z, 2, n)))
        cases.append(('EXACT', (z, str(z))))
        cases.append(('EXACT', (str(z), z)))
        cases.append(('CONCAT', (z, '%')))
        cases.append(('CONCAT', (z, z)))
        cases.append(('FIND', (0, z, 1)))
        cases.append(('FIND', ('0', z, 2)))
        cases.append(('REPLACE', (z, 2, 1, 0)))
    # random longer texts
    nrand = 400000 if thorough else 1500
    alpha2 = 'abAB "\'é,;:'
    for _ in range(nrand):
        s = ''.join(rng.choice(alpha2) for _ in range(rng.randint(0, 14)))
        t = ''.join(rng.choice(alpha2) for _ in range(rng.randint(0, 3)))
        p, k = rng.randint(-2, 17), rng.randint(-2, 17)
        fn = rng.choice(['LEFT', 'RIGHT', 'MID', 'FIND', 'REPLACE', 'TRIM'])
        args = {'LEFT': (s, k), 'RIGHT': (s, k), 'MID': (s, p, k), 'FIND': (t, s, p),
                'REPLACE': (s, p, k, t), 'TRIM': (s,)}[fn]
        cases.append((fn, args))
    return cases


TEXT_POS = {'LEN': (0,), 'UPPER': (0,), 'LOWER': (0,), 'TRIM': (0,), 'LEFT': (0,), 'RIGHT': (0,), 'MID': (0,),
            'EXACT': (0, 1), 'FIND': (0, 1), 'REPLACE': (0, 3)}


def wire_args(args, fn=None):
    out = []
    for i, a in enumerate(args):
        textpos = fn == 'CONCAT' or i in TEXT_POS.get(fn, ())
        if isinstance(a, str):
            out.append(w_text(a))
        elif textpos and isinstance(a, int) and not isinstance(a, bool):
            out.append(w_text(str(a)))      # the decimal numeral is the text form of an int
        else:
            out.append(wnum(a))
    return out


def formula_of(fn, args):
    def lit(a):
        if isinstance(a, str):
            return '"' + a.replace('"', '""') + '"'
        return repr(a)
    return f'={fn}(' + ','.join(lit(a) for a in args) + ')'


def run(ctx):
    from xlcalculator.xlfunctions import xl
    import xlcalculator  # noqa: F401
    from xlcalculator import ModelCompiler, Evaluator
    res = Result()
    res.rule = ('every text of length <= 4 (5 thorough) over {a,b,blank} plus special texts x every '
                'position/count in -2..len+2 through LEN LEFT RIGHT MID FIND REPLACE TRIM UPPER LOWER EXACT '
                'CONCAT, plus random texts; real code vs Spec (error-ness and value) and vs the Lean model '
                '(exact, including the error code); non-trivial = distinct (function, arguments) whose '
                'reference result is a non-empty text, a position, or an error')
    cases = gen_cases(ctx)
    lines = ['\t'.join(['C17', fn] + wire_args(args, fn)) for fn, args in cases]
    resp = ctx.driver.batch(lines)
    res.exhaustive = True
    via_formula = 0
    for (fn, args), line, r in zip(cases, lines, resp):
        d = parse_kv(r)
        if 'impl' not in d:
            raise RuntimeError(f'driver: {r!r} for {line!r}')
        impl, spec = d['impl'], d['spec']
        if fn in ('UPPER', 'LOWER') and isinstance(args[0], str) and not all(ord(c) < 128 for c in args[0]):
            continue
        real = call_real(xl.FUNCTIONS[fn], *args)
        res.evaluations += 1
        res.count(fn)
        res.count('outcome:' + ('error' if real.startswith('E:') else 'crash' if real.startswith('X:') else 'value'))
        res.sample({'fn': fn, 'args': list(args), 'real': real, 'spec': spec})
        if spec not in ('T:', 'I:0', '-'):
            res.nontrivial.add(line)
        ok_spec = True
        if spec == 'ERR':
            ok_spec = real.startswith('E:')
        elif spec != '-':
            ok_spec = same_value(real, spec)
        elif real.startswith('X:'):
            ok_spec = False
        if not ok_spec:
            res.violations.append({'what': f'{fn} disagrees with the 1-based reference semantics',
                                   'input': {'fn': fn, 'args': list(args)}, 'expected': spec, 'got': real})
        elif not same_value(real, impl):
            if spec == '-':
                res.violations.append({'what': f'{fn} disagrees with its model (no separate reference)',
                                       'input': {'fn': fn, 'args': list(args)}, 'expected': impl, 'got': real})
            else:
                res.drift.append({'fn': fn, 'args': list(args), 'impl_model': impl, 'real': real})
    # the same through formulas (the glue: tokenizer, parser, FunctionNode, validate_args)
    sample = [c for c in cases if all(not isinstance(a, str) or ('\n' not in a) for a in c[1])]
    step = max(1, len(sample) // (4000 if ctx.tier == 'thorough' else 600))
    for fn, args in sample[::step]:
        if any(isinstance(a, float) for a in args) or len(args) > 20:
            continue
        if fn in ('UPPER', 'LOWER') and isinstance(args[0], str) and not all(ord(c) < 128 for c in args[0]):
            continue
        f = formula_of(fn, args)
        direct = call_real(xl.FUNCTIONS[fn], *args)

        def ev():
            m = ModelCompiler().read_and_parse_dict({'Sheet1!A1': f})
            return Evaluator(m).evaluate('Sheet1!A1')
        got = call_real(ev)
        via_formula += 1
        res.evaluations += 1
        if not same_value(got, direct):
            res.violations.append({'what': f'{fn} through a formula differs from the direct call',
                                   'input': {'formula': f}, 'expected': direct, 'got': got})
    for a in ['false', 'FALSE', 'true', '0', '', 'it is ', 'x']:
        for b in ['false', 'FALSE', 'False', '0', '', 'y']:
            la, lb = '"' + a + '"', '"' + b + '"'
            for f, want in ((f'={la}&{lb}', w_text(a + b)), (f'=LEN({la}&{lb})', f'I:{len(a + b)}'),
                            (f'=CONCATENATE({la},{lb})', w_text(a + b)), (f'=CONCAT({la},{lb})', w_text(a + b)),
                            (f'=LEFT({lb},{len(b)})&RIGHT({lb},LEN({lb})-{len(b)})', w_text(b))):
                def ev(f=f):
                    m = ModelCompiler().read_and_parse_dict({'Sheet1!A1': f})
                    return Evaluator(m).evaluate('Sheet1!A1')
                got = call_real(ev)
                via_formula += 1
                res.evaluations += 1
                res.nontrivial.add(('amp', f))
                if not same_value(got, want):
                    res.violations.append({'what': '& / CONCAT / CONCATENATE must join the texts exactly',
                                           'input': {'formula': f}, 'expected': want, 'got': got})
    # arguments supplied through CELLS of one re-used compiled model that are overwritten with set_cell_value
    # between the evaluations ("numbers and booleans passed as text are first converted to their text form":
    # the text form of the value the cell holds NOW).  Every ordered pair of consecutive values occurs (Euler walk).
    twins = [1, True, 1.0, '1', 0, False, 0.0, '0', 'TRUE', 'true', 'True', 2, 2.0, '2.0', 'ab', 'AB', 'ab ', '',
             -1, '-1', 10, '10', 1.5, '1.5']
    forms = {'B1': ('LEN', lambda v: (v,), '=LEN(A1)'), 'B2': ('UPPER', lambda v: (v,), '=UPPER(A1)'),
             'B3': ('LOWER', lambda v: (v,), '=LOWER(A1)'), 'B4': ('LEFT', lambda v: (v, 2), '=LEFT(A1,2)'),
             'B5': ('RIGHT', lambda v: (v, 1), '=RIGHT(A1,1)'), 'B6': ('CONCAT', lambda v: (v, '|', v), '=A1&"|"&A1'),
             'B7': ('EXACT', lambda v: (v, 'TRUE'), '=EXACT(A1,"TRUE")'), 'B8': ('MID', lambda v: (v, 1, 3), '=MID(A1,1,3)'),
             'B9': ('TRIM', lambda v: (v,), '=TRIM(A1)'), 'B10': ('FIND', lambda v: ('1', v), '=FIND("1",A1)'),
             'B11': ('REPLACE', lambda v: ('abcd', 2, 1, v), '=REPLACE("abcd",2,1,A1)'),
             'B12': ('CONCATENATE', lambda v: (v, v), '=CONCATENATE(A1,A1)')}
    walk, n = [], len(twins)
    for d in range(1, n):            # every ordered pair (i, i+d) appears as consecutive elements
        i = 0
        while True:
            walk.append(twins[i])
            i = (i + d) % n
            if i == 0:
                break
    walk = walk if ctx.tier == 'thorough' or ctx.widen else walk[:260] + walk[::7]
    cells = {'Sheet1!A1': 5}
    cells.update({f'Sheet1!{k}': f for k, (_fn, _mk, f) in forms.items()})
    model = ModelCompiler().read_and_parse_dict(cells)
    evl = Evaluator(model)
    prev = 5
    hist_n = 0
    for v in walk:
        if isinstance(v, str) and v == '':
            model.set_cell_value('Sheet1!A1', v)
        else:
            evl.set_cell_value('Sheet1!A1', v)
        for k, (fn, mk, f) in forms.items():
            want = call_real(xl.FUNCTIONS[fn], *mk(v))
            got = call_real(evl.evaluate, f'Sheet1!{k}')
            res.evaluations += 1
            hist_n += 1
            res.nontrivial.add(('hist', k, repr(prev), repr(v)))
            if not same_value(got, want):
                res.violations.append({'what': f'{fn} on a re-used model differs from the direct call on the value the cell holds now',
                                       'input': {'formula': f, 'A1': repr(v), 'previous value of A1': repr(prev)},
                                       'expected': want, 'got': got})
        prev = v
    res.count('via_history(set_cell_value)', hist_n)
    # a loaded WORKBOOK WITH DEFINED NAMES some of which are spelt exactly like text literals of the formulas: a text
    # literal denotes its text whatever names exist; the name itself (unquoted) denotes its cell
    import os
    import tempfile
    import openpyxl
    from openpyxl.workbook.defined_name import DefinedName
    wbk = openpyxl.Workbook()
    ws = wbk.active
    ws.title = 'Sheet1'
    ws['A1'] = 'interest rate 5%'
    ws['B1'] = 1234567
    ws['A2'] = 'Total'
    names = {'rate': 'Sheet1!$B$1', 'Total': 'Sheet1!$A$1', 'ab': 'Sheet1!$B$1', 'x': 'Sheet1!$A$1', 'FALSE1': 'Sheet1!$B$1'}
    for n_, target in names.items():
        wbk.defined_names[n_] = DefinedName(n_, attr_text=target)
    lits = ['rate', 'Rate', 'rates', 'Total', 'total', 'ab', 'x', 'FALSE1', 'y']
    forms = []
    for t in lits:
        q = '"' + t + '"'
        forms += [(f'=LEN({q})', ('LEN', (t,))), (f'=UPPER({q})', ('UPPER', (t,))), (f'=LOWER({q})', ('LOWER', (t,))),
                  (f'={q}&"="&B1', ('CONCAT', (t, '=', 1234567))), (f'=REPLACE(A1,10,4,{q})', ('REPLACE', ('interest rate 5%', 10, 4, t))),
                  (f'=EXACT({q},MID(A1,10,4))', ('EXACT', (t, 'rate'))), (f'=FIND({q},A1&"Total ab x FALSE1 y rates Rate total")',
                                                                         ('FIND', (t, 'interest rate 5%Total ab x FALSE1 y rates Rate total'))),
                  (f'=LEFT({q},2)', ('LEFT', (t, 2))), (f'=RIGHT({q},1)', ('RIGHT', (t, 1))), (f'=MID({q},2,2)', ('MID', (t, 2, 2))),
                  (f'=CONCATENATE({q},{q})', ('CONCATENATE', (t, t))), (f'=TRIM({q}&" ")', ('TRIM', (t + ' ',)))]
    forms += [('=LEN(rate)', ('LEN', (1234567,))), ('=UPPER(Total)', ('UPPER', ('interest rate 5%',))), ('=x&ab', ('CONCAT', ('interest rate 5%', 1234567)))]
    for i, (f, _d) in enumerate(forms):
        ws.cell(row=i + 1, column=4, value=f)
    tmpd = tempfile.mkdtemp(prefix='c17_')
    try:
        path = os.path.join(tmpd, 'names.xlsx')
        wbk.save(path)
        evn = Evaluator(ModelCompiler().read_and_parse_archive(path))
        for i, (f, (fn, args)) in enumerate(forms):
            want = call_real(xl.FUNCTIONS[fn], *args)
            got = call_real(evn.evaluate, f'Sheet1!D{i + 1}')
            res.evaluations += 1
            via_formula += 1
            res.count('via_workbook_with_names')
            res.nontrivial.add(('names', f))
            if not same_value(got, want):
                res.violations.append({'what': f'{fn} in a workbook with defined names differs from the direct call on the written texts',
                                       'input': {'formula': f, 'defined names': names}, 'expected': want, 'got': got})
    finally:
        import shutil
        shutil.rmtree(tmpd, ignore_errors=True)
    res.count('via_formula', via_formula)
    if res.drift:
        res.notes.append(f'{len(res.drift)} model/implementation differences where the code still meets Spec')
    return res
